#!/usr/bin/env python3
"""dev helper: tools/mut.py <Cxx> <file> <old> <new>  -> run vcheck on a scratch copy with one textual edit"""
import sys, os, shutil, tempfile, subprocess
pid, rel, old, new = sys.argv[1:5]
d = tempfile.mkdtemp(prefix='gscan_mut_')
try:
    shutil.copytree('/repo/gnpy', os.path.join(d, 'gnpy'))
    if os.path.isdir('/repo/docs'):
        shutil.copytree('/repo/docs', os.path.join(d, 'docs'))
    p = os.path.join(d, rel)
    s = open(p).read()
    assert s.count(old) >= 1, 'pattern not found'
    s = s.replace(old, new, 1)
    open(p, 'w').write(s)
    env = dict(os.environ, GSCAN_REPO=d, GSCAN_OUT=d)
    r = subprocess.run(['/verif/vcheck', pid], env=env, capture_output=True, text=True)
    print(r.stdout[-3000:], r.stderr[-2000:])
    print('exit', r.returncode)
finally:
    shutil.rmtree(d)
