#!/usr/bin/env python3
"""tools/seed_matrix.py : run every vcheck against every kept seeded change (on a scratch copy of /repo/gnpy with the
patch applied) and write seeded/MATRIX.md + caught_by into each meta.json."""
import os, sys, json, glob, shutil, subprocess, tempfile
from concurrent.futures import ThreadPoolExecutor

ROOT = '/verif'
PIDS = [f'C{i:02d}' for i in range(1, 21)]


def run_seed(sdir):
    name = os.path.basename(sdir)
    d = tempfile.mkdtemp(prefix='seedmx_')
    res = {}
    try:
        shutil.copytree('/repo/gnpy', os.path.join(d, 'gnpy'))
        shutil.copytree('/repo/docs', os.path.join(d, 'docs'))
        r = subprocess.run(['patch', '-p1', '-s', '-i', os.path.join(sdir, 'patch.diff')], cwd=d, capture_output=True, text=True)
        if r.returncode != 0:
            return name, {'_patch': 'FAILED ' + (r.stdout + r.stderr)[-200:]}
        for pid in PIDS:
            r = subprocess.run([os.path.join(ROOT, 'vcheck'), pid], capture_output=True, text=True,
                               env=dict(os.environ, GSCAN_REPO=d, GSCAN_OUT=d))
            rules = sorted(set(__import__("re").findall(r"\[(R[\w.\-]+)\]", r.stdout)))
            res[pid] = (r.returncode, rules)
    finally:
        shutil.rmtree(d, ignore_errors=True)
    return name, res


def main():
    seeds = sorted(glob.glob(os.path.join(ROOT, 'seeded', 'C*-*')))
    with ThreadPoolExecutor(max_workers=14) as ex:
        results = dict(ex.map(run_seed, seeds))
    lines = ['# Seeded changes vs checks', '',
             'Each row: a change written by an independent sub-agent (given only the property text), confirmed to keep the suite green',
             'and to fail its own demonstration. Columns: the check of its own property, and every other check that fires.',
             'exit 1 = VIOLATION reported, 2 = analysis error only, 0 = silent.', '',
             '| seed | own check | rules that fired (own) | other checks firing |', '|---|---|---|---|']
    summary = {'own_caught': 0, 'any_caught': 0, 'total': 0}
    for name, res in sorted(results.items()):
        if '_patch' in res:
            lines.append(f'| {name} | patch failed | {res["_patch"]} | |')
            continue
        own = name.split('-')[0]
        summary['total'] += 1
        code, rules = res[own]
        others = [f'{p}({",".join(r)})' for p, (c, r) in res.items() if p != own and c == 1]
        errs = [p for p, (c, r) in res.items() if c == 2]
        if code == 1:
            summary['own_caught'] += 1
        if code == 1 or others:
            summary['any_caught'] += 1
        lines.append(f'| {name} | {"VIOLATION" if code == 1 else ("analysis-error" if code == 2 else "silent")} | {", ".join(rules)} | '
                     f'{"; ".join(others)}{" ; analysis-error in " + ",".join(errs) if errs else ""} |')
        mp = os.path.join(ROOT, 'seeded', name, 'meta.json')
        if os.path.exists(mp):
            m = json.load(open(mp))
            m['caught_by_own_check'] = code == 1
            m['own_rules_fired'] = rules
            m['other_checks_fired'] = others
            m.pop('checks_fired_at_import', None)
            json.dump(m, open(mp, 'w'), indent=1)
    lines += ['', f'own check fires on {summary["own_caught"]} / {summary["total"]}; some check fires on {summary["any_caught"]} / {summary["total"]}']
    open(os.path.join(ROOT, 'seeded', 'MATRIX.md'), 'w').write('\n'.join(lines) + '\n')
    print('\n'.join(lines[-30:]))


if __name__ == '__main__':
    main()
