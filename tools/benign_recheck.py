#!/usr/bin/env python3
"""tools/benign_recheck.py <log of benign_check.py> : re-run only the (change, check) pairs that were not silent in that log"""
import os, re, shutil, subprocess, sys, tempfile
from concurrent.futures import ThreadPoolExecutor
ROOT = '/verif'
pairs, cur = [], None
for ln in open(sys.argv[1]):
    if ln.startswith('## '):
        cur = ln[3:].strip()
    else:
        m = re.match(r'\s+(C\d\d) ', ln)
        if m and cur:
            pairs.append((cur, m.group(1)))
SNAP = tempfile.mkdtemp(prefix='benign_snap_')
shutil.copytree(os.path.join(ROOT, 'gscan'), os.path.join(SNAP, 'gscan'), ignore=shutil.ignore_patterns('__pycache__'))
for fn in ('vcheck', 'known_findings.json', 'properties.jsonl'):
    shutil.copy(os.path.join(ROOT, fn), SNAP)


def run(pair):
    diff, pid = pair
    d = tempfile.mkdtemp(prefix='benign_')
    try:
        shutil.copytree('/repo/gnpy', os.path.join(d, 'gnpy'))
        subprocess.run(['patch', '-p1', '-s', '-i', diff], cwd=d, capture_output=True, text=True)
        r = subprocess.run([os.path.join(SNAP, 'vcheck'), pid], capture_output=True, text=True, env=dict(os.environ, GSCAN_REPO=d, GSCAN_OUT=d))
        lines = [ln.strip()[:int(os.environ.get('W', '260'))] for ln in r.stdout.splitlines() if '[R' in ln or 'ANALYSIS-ERROR' in ln]
        return diff, pid, r.returncode, lines[:3]
    finally:
        shutil.rmtree(d, ignore_errors=True)


with ThreadPoolExecutor(max_workers=14) as ex:
    res = list(ex.map(run, pairs))
bad = 0
for diff, pid, rc, lines in res:
    if rc != 0:
        bad += 1
        print('##', diff.replace('/verif/', ''), pid, rc)
        for ln in lines:
            print('     ', ln)
print(f'{len(pairs)} pairs re-run, {bad} still not silent, {len({d for d, _, rc, _ in res if rc != 0})} changes')
shutil.rmtree(SNAP, ignore_errors=True)
