#!/usr/bin/env python3
"""write the prompt files for a round of BEHAVIOUR-PRESERVING refactors: tools/benign_prompts.py <round dir, e.g. /tmp/bw2> [n agents]
Agent k gets the text of two properties (k, k+10) and its own worktree <dir>/Bkk; nothing from /verif."""
import json, os, sys
H = os.path.dirname(os.path.dirname(os.path.abspath(__file__)))
root = sys.argv[1]
n = int(sys.argv[2]) if len(sys.argv) > 2 else 10
props = [json.loads(l) for l in open(os.path.join(H, 'properties.jsonl'))]
os.makedirs(root, exist_ok=True)
for k in range(n):
    two = [props[k % 20], props[(k + 10) % 20]]
    wt = f'{root}/B{k + 1:02d}'
    ptxt = '\n\n'.join(f"{p['id']}: {p['title']}\nSTATEMENT: {p['statement']}\nQUANTIFIED OVER: {p['quantifier']['text']}" for p in two)
    text = f"""You are helping evaluate a verification effort for the open-source project oopt-gnpy (GNPy: a Python optical-network simulator: GSNR via Gaussian-noise/Raman models, amplifier auto-design, path computation, spectrum assignment).

You have your OWN scratch git worktree of the project at: {wt}   (work ONLY inside this directory; never touch /repo or /verif, never read /verif).

Two semantic properties of the project that hold on this tree:

{ptxt}

YOUR TASK: act as a maintainer doing a CLEAN-UP pull request. Produce SIX independent, BEHAVIOUR-PRESERVING source changes (R1..R6; files under gnpy/ only; do not edit tests/), three in the code that implements the first property and three in the code that implements the second (follow the call chain: the functions that compute, check or export what the property talks about, and the helpers they use). Each change must
  (1) leave the behaviour of the program EXACTLY as it is for every input (same results, same exceptions, same side effects, same order of effects) - so both properties still hold,
  (2) be a real, non-trivial refactoring of 3-40 lines that a reviewer would accept: the kind of thing that shows up in clean-up PRs. Be varied; do not do six times the same thing. Use what fits the code you find, e.g. restructuring control flow, splitting or merging functions, changing how a collection is built or walked, renaming, reordering independent code, replacing an idiom by an equivalent one, moving code between a method and a helper, simplifying boolean logic, changing data representation local to a function, using or removing a standard-library helper... (do not limit yourself to this list),
  (3) pass the project's existing test suite exactly as the unchanged tree does.
Do NOT make changes that only touch comments, docstrings, blank lines or type hints, and do not change public names used by other modules or by tests.

IMPORTANT: never use `pkill` / `killall` or kill processes you did not start by PID (other jobs run the same commands on this machine). Never use `git stash` (the stash is shared between worktrees); use `git diff > file`, `git checkout -- gnpy`, `git apply file`.

HOW TO RUN THINGS
- Python: /venv/bin/python. ALWAYS run from the worktree root (cd {wt}) so that `import gnpy` resolves to the worktree copy (check: /venv/bin/python -c "import gnpy; print(gnpy.__file__)" must print a path under {wt}).
- Existing suite: cd {wt} && /venv/bin/python -m pytest -q -p no:cacheprovider -n 6 --timeout=900 --ignore=out
  On the UNCHANGED tree this gives 774 passed, 6 failed; these 6 failures are pre-existing and expected (ignore them, but no OTHER test may fail):
    tests/test_opensource_compliancy.py::test_commit_authors_in_author_rst
    tests/test_parser.py::test_auto_design_generation_fromjson[json_input0-False]
    tests/test_parser.py::test_auto_design_generation_fromxlsgainmode[xls_input0-expected_json_output0]
    tests/test_invocation.py::test_run_wrapper[gnpy-transmission-example]
    tests/test_invocation.py::test_run_wrapper[gnpy-path-request]
    tests/test_invocation.py::test_conversion_xls
  (The suite takes a few minutes with -n 6. There is no network; nothing can be installed.) Run the suite ONCE with all six changes applied together (and again after fixing, if something fails).

DELIVERABLES (all inside {wt}/out/):
  out/R1.diff .. out/R6.diff  out/NOTES.md
- Each Rk.diff is a unified diff against the UNCHANGED tree (`git diff -- gnpy > out/Rk.diff`) that applies cleanly ON ITS OWN with `git apply` to a clean checkout: build R1, save it, `git checkout -- gnpy`, build R2, ... At the end apply all six together for the suite run (if two touch the same lines, make them touch different functions instead).
- NOTES.md: one line per change: which property's code, which function(s), what kind of refactoring, and why behaviour is exactly preserved; then the suite result.
- Leave the worktree's tracked files clean at the end (git checkout -- gnpy), with only out/ added.

Your final reply to me should be SHORT (under 120 words): the path of out/ and one phrase per change.
"""
    open(f'{root}/B{k + 1:02d}.prompt.txt', 'w').write(text)
print('wrote', n, 'prompts under', root)
