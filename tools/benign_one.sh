#!/bin/bash
# tools/benign_one.sh <diff> <pids...> : apply one diff to a scratch copy of /repo/gnpy and run the given checks; leaves the copy path in $d
diff=$1; shift
d=$(mktemp -d /tmp/b1_XXXX); cp -r /repo/gnpy $d/; (cd $d && patch -p1 -s -i $diff)
for p in "$@"; do GSCAN_REPO=$d GSCAN_OUT=$d /verif/vcheck $p | grep "\[R\|ERROR\|obligations" | cut -c1-300; done
echo $d
