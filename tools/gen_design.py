#!/usr/bin/env python3
"""assemble DESIGN.md from tools/DESIGN.head.md + the rule docstrings + tools/DESIGN.tail.md + seeded/MATRIX.md"""
import ast, json, os
H = os.path.dirname(os.path.dirname(os.path.abspath(__file__)))
out = [open(os.path.join(H, 'tools', 'DESIGN.head.md')).read()]
for i in range(1, 21):
    pid = f'C{i:02d}'
    src = open(os.path.join(H, 'gscan', 'rules', f'{pid.lower()}.py')).read()
    doc = ast.get_docstring(ast.parse(src))
    evp = os.path.join(H, 'evidence', f'{pid}.json')
    counts = ''
    if os.path.exists(evp):
        ev = json.load(open(evp))
        pr = ev['coverage']['per_rule']
        counts = f"Obligations on the reference tree ({ev['coverage']['obligations']}): " + ', '.join(f"{k} {v['evaluated']}" for k, v in pr.items()) + '.'
    title = doc.splitlines()[0]
    body = '\n'.join(doc.splitlines()[1:]).strip('\n')
    out.append(f"### {title}\n\n```\n{body}\n```\n{counts}\n")
tail = open(os.path.join(H, 'tools', 'DESIGN.tail.md')).read()
mp = os.path.join(H, 'seeded', 'MATRIX.md')
matrix = ''
if os.path.exists(mp):
    lines = open(mp).read().splitlines()
    matrix = '\n'.join(l for l in lines if l.startswith('|') or l.startswith('own check'))
out.append(tail.replace('@MATRIX@', matrix))
import glob, re
text = '\n'.join(out)
eng = sum(len(open(f).read().splitlines()) for f in glob.glob(os.path.join(H, 'gscan', '*.py')))
rul = sum(len(open(f).read().splitlines()) for f in glob.glob(os.path.join(H, 'gscan', 'rules', '*.py')))
st = open(os.path.join(H, 'gscan', 'selftest.py')).read()
import importlib.util, sys
sys.path.insert(0, H)
from gscan import selftest as _st
nm = sum(len(v.get('mutants', [])) for v in _st.VARIANTS.values())
nr = sum(len(v.get('refactors', [])) for v in _st.VARIANTS.values()) + 8 * 20
text = text.replace('@ENG@', f'{round(eng, -2):,}'.replace(',', ' ')).replace('@RUL@', f'{round(rul, -2):,}'.replace(',', ' '))
text = text.replace('@NMUT@', str(nm)).replace('@NREF@', str(nr))
b3 = {'n': '-', 'first': '-', 'now': '-'}
b3p = os.path.join(H, 'benign3', 'RESULT.json')
if os.path.exists(b3p):
    b3 = json.load(open(b3p))
text = text.replace('@B3N@', str(b3['n'])).replace('@B3FIRST@', str(b3['first'])).replace('@B3NOW@', str(b3['now']))
b4 = {'n': '-', 'first': '-', 'now': '-'}
if os.path.exists(os.path.join(H, 'benign4', 'RESULT.json')):
    b4 = json.load(open(os.path.join(H, 'benign4', 'RESULT.json')))
text = text.replace('@B4N@', str(b4['n'])).replace('@B4FIRST@', str(b4['first'])).replace('@B4NOW@', str(b4['now']))
open(os.path.join(H, 'DESIGN.md'), 'w').write(text)
print('DESIGN.md', sum(len(x.splitlines()) for x in out), 'lines')
