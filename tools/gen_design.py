#!/usr/bin/env python3
"""assemble DESIGN.md from tools/DESIGN.head.md + the rule docstrings + tools/DESIGN.tail.md + seeded/MATRIX.md"""
import ast, json, os
H = os.path.dirname(os.path.dirname(os.path.abspath(__file__)))
out = [open(os.path.join(H, 'tools', 'DESIGN.head.md')).read()]
for i in range(1, 21):
    pid = f'C{i:02d}'
    src = open(os.path.join(H, 'gscan', 'rules', f'{pid.lower()}.py')).read()
    doc = ast.get_docstring(ast.parse(src))
    evp = os.path.join(H, 'evidence', f'{pid}.json')
    counts = ''
    if os.path.exists(evp):
        ev = json.load(open(evp))
        pr = ev['coverage']['per_rule']
        counts = f"Obligations on the reference tree ({ev['coverage']['obligations']}): " + ', '.join(f"{k} {v['evaluated']}" for k, v in pr.items()) + '.'
    title = doc.splitlines()[0]
    body = '\n'.join(doc.splitlines()[1:]).strip('\n')
    out.append(f"### {title}\n\n```\n{body}\n```\n{counts}\n")
tail = open(os.path.join(H, 'tools', 'DESIGN.tail.md')).read()
mp = os.path.join(H, 'seeded', 'MATRIX.md')
matrix = ''
if os.path.exists(mp):
    lines = open(mp).read().splitlines()
    matrix = '\n'.join(l for l in lines if l.startswith('|') or l.startswith('own check'))
out.append(tail.replace('@MATRIX@', matrix))
open(os.path.join(H, 'DESIGN.md'), 'w').write('\n'.join(out))
print('DESIGN.md', sum(len(x.splitlines()) for x in out), 'lines')
