#!/usr/bin/env python3
"""tools/seed_import.py <Cxx> [A B ...] : confirm candidate changes delivered under /tmp/wt/<Cxx>/out and keep the
confirmed ones as /verif/seeded/<Cxx>-<tag>/ (patch.diff, demo.py, meta.json, notes)."""
import sys, os, json, subprocess, shutil
import argparse
ap = argparse.ArgumentParser()
ap.add_argument('pid')
ap.add_argument('tags', nargs='*')
ap.add_argument('--src')
ap.add_argument('--suffix', default='')
args = ap.parse_args()
pid = args.pid
tags = args.tags or ['A', 'B']
src = args.src or f'/tmp/wt/{pid}/out'
SUF = args.suffix
for tag in tags:
    if not os.path.exists(f'{src}/{tag}.diff'):
        print(pid, tag, 'missing'); continue
    r = subprocess.run(['python3', '/verif/tools/seed_verify.py', src, tag, '--suite'], capture_output=True, text=True)
    try:
        res = json.loads(r.stdout)
    except Exception:
        print(pid, tag, 'verify crashed', r.stdout[-500:], r.stderr[-500:]); continue
    ok = res.get('demo_clean_pass') and res.get('applies') and res.get('demo_changed_fails') and res.get('suite_new_failures') == []
    dst = f'/verif/seeded/{pid}-{tag}{SUF}'
    if ok:
        os.makedirs(dst, exist_ok=True)
        shutil.copy(f'{src}/{tag}.diff', f'{dst}/patch.diff')
        shutil.copy(f'{src}/demo_{tag}.py', f'{dst}/demo.py')
        if os.path.exists(f'{src}/NOTES.md'):
            shutil.copy(f'{src}/NOTES.md', f'{dst}/NOTES.md')
        meta = {'property': pid, 'variant': tag + SUF, 'origin': 'independent sub-agent given only the property text and a scratch worktree',
                'confirmed': {'demo_passes_on_clean_tree': True, 'demo_fails_with_change': True,
                              'suite_with_change': res.get('suite_tail'), 'new_suite_failures': []},
                'ran': ['git apply patch.diff (fresh scratch worktree of /repo HEAD)', 'pytest demo.py (clean: pass, changed: fail)',
                        'pytest -n 8 full suite with the change: only the 6 baseline failures'],
                'needs_to_manifest': 'see NOTES.md', 'checks_fired_at_import': res.get('checks_fired')}
        json.dump(meta, open(f'{dst}/meta.json', 'w'), indent=1)
    print(pid, tag, 'CONFIRMED' if ok else 'REJECTED', json.dumps({k: res.get(k) for k in ('demo_clean_pass', 'applies', 'demo_changed_fails', 'suite_tail', 'suite_new_failures')}), 'fired:', sorted(res.get('checks_fired', {})))
