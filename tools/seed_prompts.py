#!/usr/bin/env python3
"""write the prompt files for a round of seeding: tools/seed_prompts.py <round dir, e.g. /tmp/wt3> [Cxx ...]
Each prompt holds ONLY the property text, the task, how to run things, and a one-line list of what earlier rounds explored
(tools/explored.json) - nothing else from /verif."""
import json, os, sys
H = os.path.dirname(os.path.dirname(os.path.abspath(__file__)))
plain = '--plain' in sys.argv
args = [a for a in sys.argv[1:] if not a.startswith('--')]
root = args[0]
pids = args[1:] or [f'C{i:02d}' for i in range(1, 21)]
props = {json.loads(l)['id']: json.loads(l) for l in open(os.path.join(H, 'properties.jsonl'))}
explored = json.load(open(os.path.join(H, 'tools', 'explored.json')))
os.makedirs(root, exist_ok=True)
for pid in pids:
    p = props[pid]
    wt = f'{root}/{pid}'
    ex = '\n'.join(f'  - {e}' for e in explored.get(pid, []))
    outside = '' if plain else ('At least ONE of your two changes must live OUTSIDE the function(s) that obviously implement the property: in a helper, a utility, a parameter / loader class, a constructor or a data table that the property\'s code depends on (follow the call chain two or three levels down or up), so that the property breaks although its own code is untouched. ')
    text = f"""You are helping evaluate a verification effort for the open-source project oopt-gnpy (GNPy: a Python optical-network simulator: GSNR via Gaussian-noise/Raman models, amplifier auto-design, path computation, spectrum assignment).

You have your OWN scratch git worktree of the project at: {wt}   (work ONLY inside this directory; never touch /repo or /verif, never read /verif).

A semantic property of the project that should hold:

{pid}: {p['title']}

STATEMENT: {p['statement']}

QUANTIFIED OVER: {p['quantifier']['text']}

YOUR TASK: produce TWO different, independent source changes ("A" and "B") to the project (files under gnpy/ only; do not edit tests/) such that each change
  (1) BREAKS the property above (a real behavioural violation of the statement),
  (2) still imports/compiles and PASSES the project's existing test suite exactly as the unchanged tree does, and
  (3) needs something SPECIFIC to manifest - e.g. an unusual input, a particular configuration, a multi-step sequence of operations, a particular history, or two cooperating sites that each look fine alone - NOT something ordinary use or the shipped examples would expose at once.
Make A and B as different from each other as you can (different function / mechanism / clause of the property). Keep each change small and realistic (the kind of slip or "optimisation" a developer could plausibly commit): typically 1-10 changed lines. Do not add comments that announce the bug.

For each change also write a DEMONSTRATION: a small standalone pytest file (demo_A.py / demo_B.py, using only the public API of gnpy and files under gnpy/example-data or tests/data, building inputs in code where needed) that FAILS with the change applied and PASSES on the unchanged tree. The demo must assert the property's behaviour (not implementation details).


ALREADY EXPLORED (do NOT repeat these or close variants of them; earlier rounds produced them):
{ex}
In particular do NOT produce: another cache / memoisation of a result; another `x or default` / truthiness test on a number; another value carried from one loop iteration to the next; another dropped unit conversion; another `break` / `continue` / early-return slip in a loop; another statement moved under a logging / verbose guard; another in-place mutation of a shared list through an alias; another operand typo in compare_reqs.
Produce changes of a DIFFERENT nature: other functions / other clauses of the property. {outside}Prefer, where you can: (i) a change in the ORDER of two operations, or an operation moved across a branch / loop boundary, (ii) a boundary or off-by-one in an index, a slice, a range or a comparison that only matters at an edge, (iii) a wrong-but-plausible sibling (east/west, previous/next, min/max, first/last, input/output, per-channel/total) at ONE of several sites, (iv) a shallow copy / alias where a copy is needed (or state left on a shared object), (v) an exception path or an early return that skips an update.
IMPORTANT: never use `pkill` / `killall` or kill processes you did not start by PID (other jobs run the same commands on this machine). Never use `git stash` (the stash is shared between worktrees); use `git diff > file`, `git checkout -- gnpy`, `git apply file`.

HOW TO RUN THINGS
- Python: /venv/bin/python. ALWAYS run from the worktree root (cd {wt}) so that `import gnpy` resolves to the worktree copy (check: /venv/bin/python -c "import gnpy; print(gnpy.__file__)" must print a path under {wt}).
- Existing suite: cd {wt} && /venv/bin/python -m pytest -q -p no:cacheprovider -n 6 --timeout=900 --ignore=out
  On the UNCHANGED tree this gives 774 passed, 6 failed; these 6 failures are pre-existing and expected (ignore them, but no OTHER test may fail):
    tests/test_opensource_compliancy.py::test_commit_authors_in_author_rst
    tests/test_parser.py::test_auto_design_generation_fromjson[json_input0-False]
    tests/test_parser.py::test_auto_design_generation_fromxlsgainmode[xls_input0-expected_json_output0]
    tests/test_invocation.py::test_run_wrapper[gnpy-transmission-example]
    tests/test_invocation.py::test_run_wrapper[gnpy-path-request]
    tests/test_invocation.py::test_conversion_xls
  (The suite takes a few minutes with -n 6. There is no network; nothing can be installed.)
- Demo: cd {wt} && /venv/bin/python -m pytest -q -p no:cacheprovider demo_A.py

DELIVERABLES (all inside {wt}/out/):
  out/A.diff  out/demo_A.py  out/B.diff  out/demo_B.py  out/NOTES.md
- A.diff / B.diff: unified diffs against the unchanged tree (produce with `git diff -- gnpy > out/A.diff`), each applying cleanly on its own with `git apply` to a clean checkout. Build A, save it, `git checkout -- gnpy`, then build B.
- NOTES.md: for each change: which clause of the property it breaks, what exactly is needed for it to manifest, and the commands you ran with their results (suite result with the change, demo result with and without the change).
- Leave the worktree's tracked files clean at the end (git checkout -- gnpy), with only out/ added.
You MUST verify all three conditions yourself for both changes by actually running the suite and the demos. If after serious effort you can only produce one valid change, deliver that one and say so.

Your final reply to me should be SHORT (under 150 words): the paths of the deliverables and one sentence per change describing it.
"""
    open(f'{root}/{pid}.prompt.txt', 'w').write(text)
print('wrote', len(pids), 'prompts under', root)
