#!/usr/bin/env python3
"""tools/canon_show.py <module> <function or Class.method> : print the canonical form the rules see"""
import sys, ast
sys.path.insert(0, '/verif')
from gscan.model import Repo
import os
repo = Repo(os.environ.get('GSCAN_REPO', '/repo'))
m = repo.module(sys.argv[1])
nm = sys.argv[2]
if '.' in nm:
    c, f = nm.split('.')
    cls = m.classes[c]
    fn = cls.methods.get(f) or cls.getters.get(f)
else:
    fn = m.functions[nm]
node = fn.node
body = [b for b in node.body if not (isinstance(b, ast.Expr) and isinstance(b.value, ast.Constant))]
print(f'def {node.name}({ast.unparse(node.args)}):')
for b in body:
    for ln in ast.unparse(b).splitlines():
        print('    ' + ln)
