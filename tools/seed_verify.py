#!/usr/bin/env python3
"""tools/seed_verify.py <dir with X.diff + demo_X.py> <X> [--suite]
Confirms a candidate seeded change in a fresh scratch worktree of /repo (outside /repo and /verif):
 demo passes on the clean tree, fails with the change; optionally the full suite keeps its baseline result.
Then runs every vcheck against the changed tree (GSCAN_REPO) and prints which properties fire."""
import sys, os, subprocess, tempfile, shutil, json, re

src, tag = sys.argv[1], sys.argv[2]
suite = '--suite' in sys.argv
diff = os.path.join(src, f'{tag}.diff')
demo = os.path.join(src, f'demo_{tag}.py')
wt = tempfile.mkdtemp(prefix='seedwt_')
os.rmdir(wt)
BASE_FAIL = {'test_commit_authors_in_author_rst', 'test_auto_design_generation_fromjson[json_input0-False]',
             'test_auto_design_generation_fromxlsgainmode[xls_input0-expected_json_output0]',
             'test_run_wrapper[gnpy-transmission-example]', 'test_run_wrapper[gnpy-path-request]', 'test_conversion_xls'}
res = {'tag': tag, 'src': src}
def run(cmd, **kw):
    return subprocess.run(cmd, capture_output=True, text=True, cwd=wt, **kw)
try:
    subprocess.check_call(['git', '-C', '/repo', 'worktree', 'add', '-q', '--detach', wt, 'HEAD'])
    shutil.copy(demo, os.path.join(wt, f'demo_{tag}.py'))
    py = ['/venv/bin/python', '-m', 'pytest', '-q', '-p', 'no:cacheprovider', '-x', f'demo_{tag}.py']
    r = run(py); res['demo_clean_pass'] = r.returncode == 0
    if r.returncode != 0: res['demo_clean_out'] = r.stdout[-800:]
    a = run(['git', 'apply', diff]); res['applies'] = a.returncode == 0
    if a.returncode != 0: res['apply_err'] = a.stderr[-500:]
    r = run(py); res['demo_changed_fails'] = r.returncode != 0
    res['demo_changed_tail'] = r.stdout.strip().splitlines()[-1] if r.stdout.strip() else ''
    if suite:
        os.remove(os.path.join(wt, f'demo_{tag}.py'))
        r = run(['/venv/bin/python', '-m', 'pytest', '-q', '-p', 'no:cacheprovider', '-n', '8', '--timeout=900'])
        failed = set(re.findall(r'^FAILED \S+::(\S+)', r.stdout, re.M))
        failed = {f.split(' - ')[0] for f in failed}
        res['suite_tail'] = r.stdout.strip().splitlines()[-1]
        res['suite_new_failures'] = sorted(failed - BASE_FAIL)
    fired = {}
    out = tempfile.mkdtemp(prefix='seedout_')
    for i in range(1, 21):
        pid = f'C{i:02d}'
        if not os.path.exists(f'/verif/gscan/rules/{pid.lower()}.py'):
            continue
        r = subprocess.run(['/verif/vcheck', pid], capture_output=True, text=True,
                           env=dict(os.environ, GSCAN_REPO=wt, GSCAN_OUT=out))
        if r.returncode != 0:
            fired[pid] = {'exit': r.returncode, 'lines': [l for l in r.stdout.splitlines() if l.startswith('  ') or 'ANALYSIS-ERROR' in l][:6]}
    shutil.rmtree(out)
    res['checks_fired'] = fired
finally:
    subprocess.call(['git', '-C', '/repo', 'worktree', 'remove', '--force', wt])
print(json.dumps(res, indent=1))
