#!/usr/bin/env python3
"""tools/benign_check.py <dir with R*.diff> ... : apply each behaviour-preserving change to a scratch copy of /repo/gnpy and run
all 20 checks; print every check that is not silent (exit 1 = false violation, exit 2 = cannot analyse)."""
import glob, os, shutil, subprocess, sys, tempfile
from concurrent.futures import ThreadPoolExecutor
ROOT = '/verif'
SNAP = ROOT
PIDS = [f'C{i:02d}' for i in range(1, 21)]


def run(diff):
    d = tempfile.mkdtemp(prefix='benign_')
    out = []
    try:
        shutil.copytree('/repo/gnpy', os.path.join(d, 'gnpy'))
        r = subprocess.run(['patch', '-p1', '-s', '-i', diff], cwd=d, capture_output=True, text=True)
        if r.returncode != 0:
            return diff, [('patch', 'FAILED', (r.stdout + r.stderr)[-200:])]
        for pid in PIDS:
            r = subprocess.run([os.path.join(SNAP, 'vcheck'), pid], capture_output=True, text=True, env=dict(os.environ, GSCAN_REPO=d, GSCAN_OUT=d))
            if r.returncode != 0:
                lines = [ln for ln in r.stdout.splitlines() if '[R' in ln or 'ANALYSIS-ERROR' in ln]
                out.append((pid, r.returncode, ' || '.join(x.strip()[:230] for x in lines[:4])))
    finally:
        shutil.rmtree(d, ignore_errors=True)
    return diff, out


if __name__ == '__main__':
    # the checks run from a private snapshot of the machinery, so that editing /verif during a run does not mix versions
    SNAP = tempfile.mkdtemp(prefix='benign_snap_')
    shutil.copytree(os.path.join(ROOT, 'gscan'), os.path.join(SNAP, 'gscan'), ignore=shutil.ignore_patterns('__pycache__'))
    for fn in ('vcheck', 'known_findings.json', 'properties.jsonl'):
        if os.path.exists(os.path.join(ROOT, fn)):
            shutil.copy(os.path.join(ROOT, fn), SNAP)
    diffs = sorted(x for a in sys.argv[1:] for x in glob.glob(os.path.join(a, 'R*.diff')))
    with ThreadPoolExecutor(max_workers=14) as ex:
        res = list(ex.map(run, diffs))
    bad = 0
    for diff, out in res:
        if out:
            bad += 1
            print('##', diff)
            for o in out:
                print('   ', *o)
    print(f'{len(diffs)} changes, {bad} with a non-silent check')
    shutil.rmtree(SNAP, ignore_errors=True)
