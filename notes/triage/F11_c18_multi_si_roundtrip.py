"""F11: yang_to_legacy converts the power range of the first SI / Span entry only"""
import json, copy
from pathlib import Path
import gnpy
from gnpy.tools.convert_legacy_yang import legacy_to_yang, yang_to_legacy
from gnpy.tools.json_io import load_json, _equipment_from_json, DEFAULT_EXTRA_CONFIG
D = Path(gnpy.__file__).parent / 'example-data'
leg = load_json(D / 'eqpt_config_multiband.json')
print('SI entries:', [s.get('type_variety') for s in leg['SI']])
y = legacy_to_yang(copy.deepcopy(leg))
back = yang_to_legacy(copy.deepcopy(y))
for s in back['SI']:
    print(s.get('type_variety'), 'power_range_db' in s, 'power_range_dict_db' in s)
try:
    eq = _equipment_from_json(back, DEFAULT_EXTRA_CONFIG)
    for k, si in eq['SI'].items():
        print(k, si.power_range_db)
except Exception as e:
    print('load of converted-back doc:', type(e).__name__, e)
eq0 = _equipment_from_json(copy.deepcopy(leg), DEFAULT_EXTRA_CONFIG)
for k, si in eq0['SI'].items():
    print('legacy', k, si.power_range_db)
