import os; os.makedirs("/tmp/exp", exist_ok=True)  # scratch output only
import json, copy
from pathlib import Path
from gnpy.tools.json_io import load_json
from gnpy.tools.convert_legacy_yang import legacy_to_yang
from gnpy.core.parameters import SimParams
from gnpy.tools.cli_examples import load_common_data
sp = load_json(Path('/repo/gnpy/example-data/sim_params.json'))
print('legacy:', sp)
y = legacy_to_yang(sp)
json.dump(y, open('/tmp/exp/sim_yang.json','w'))
print('yang:', y)
ex = Path('/repo/gnpy/example-data')
load_common_data(ex/'eqpt_config.json', None, None, ex/'edfa_example_network.json', ex/'sim_params.json', None)
print('after legacy load: flag', SimParams().raman_params.flag, SimParams().nli_params.method)
load_common_data(ex/'eqpt_config.json', None, None, ex/'edfa_example_network.json', Path('/tmp/exp/sim_yang.json'), None)
print('after yang load: flag', SimParams().raman_params.flag, SimParams().nli_params.method)
