"""F12 (C17 Rp.presence): Multiband_amplifier.to_json exports an amplifier gain of exactly 0 dB as None (truthiness test),
while Edfa.to_json uses `is not None`.  Export -> reload then re-designs that band's gain.
run: cd /repo && /venv/bin/python /verif/notes/triage/F12.py"""
from pathlib import Path
from gnpy.tools.json_io import load_equipment, load_network, network_to_json, network_from_json
import gnpy.core.elements as el

root = Path('/repo/gnpy/example-data')
eqpt = load_equipment(root / 'eqpt_config_multiband.json')
net = load_network(root / 'multiband_example_network.json', eqpt)
mb = next(n for n in net.nodes() if isinstance(n, el.Multiband_amplifier))
for amp in mb.amplifiers.values():
    amp.effective_gain = 0.0
out = mb.to_json
print([a['operational']['gain_target'] for a in out['amplifiers']])
assert all(a['operational']['gain_target'] == 0.0 for a in out['amplifiers']), 'gain 0 dB exported as None'
print('ok: 0 dB gain exported as 0.0')
