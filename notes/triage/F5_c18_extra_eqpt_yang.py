import os; os.makedirs("/tmp/exp", exist_ok=True)  # scratch output only
import json, copy
from pathlib import Path
from gnpy.tools.json_io import load_json, load_equipments_and_configs
from gnpy.tools.convert_legacy_yang import legacy_to_yang
ex = Path('/repo/gnpy/example-data')
x = load_json(ex/'extra_eqpt_config.json')
y = legacy_to_yang(x)
json.dump(y, open('/tmp/exp/extra_yang.json','w'))
eq = load_equipments_and_configs(ex/'eqpt_config.json', [ex/'extra_eqpt_config.json'], [Path('/repo/tests/data/user_edfa_config.json')])
print('legacy extra ok:', len(eq['Transceiver']))
try:
    eq = load_equipments_and_configs(ex/'eqpt_config.json', [Path('/tmp/exp/extra_yang.json')], [Path('/repo/tests/data/user_edfa_config.json')])
    print('yang extra ok:', len(eq['Transceiver']))
except Exception as e:
    print('yang extra:', type(e).__name__, e)
