import json, copy
from pathlib import Path
from gnpy.tools.json_io import load_json, _equipment_from_json
from gnpy.tools.convert_legacy_yang import legacy_to_yang, yang_to_legacy
from gnpy.tools.default_edfa_config import DEFAULT_EXTRA_CONFIG
d = load_json(Path('/repo/gnpy/example-data/eqpt_config.json'))
d['RamanFiber'][0]['raman_efficiency'] = {'cr': [0.0, 1e-4, 2e-4], 'frequency_offset': [0.0, 1e12, 2e12]}
eqL = _equipment_from_json(copy.deepcopy(d), DEFAULT_EXTRA_CONFIG)
y = legacy_to_yang(copy.deepcopy(d))
print('yang:', y['gnpy-eqpt-config:equipment']['RamanFiber'][0])
back = yang_to_legacy(copy.deepcopy(y))
print('back:', back['RamanFiber'][0])
eqY = _equipment_from_json(copy.deepcopy(back), DEFAULT_EXTRA_CONFIG)
print('legacy obj attrs:', {k:v for k,v in eqL['RamanFiber']['SSMF'].__dict__.items()})
print('yang   obj attrs:', {k:v for k,v in eqY['RamanFiber']['SSMF'].__dict__.items()})
# idempotence
y2 = legacy_to_yang(copy.deepcopy(back))
print('idempotent y==y2', y==y2)
