import json, copy
from pathlib import Path
from gnpy.tools.json_io import load_equipment, load_json, network_from_json
from gnpy.tools.worker_utils import designed_network
from gnpy.topology.spectrum_assignment import build_oms_list, BitmapValue
from gnpy.core.parameters import SimParams
ex = Path('/repo/gnpy/example-data')
eq = load_equipment(ex/'eqpt_config_multiband.json')
net = network_from_json(load_json(ex/'multiband_example_network.json'), eq)
designed_network(eq, net)
try:
    oms = build_oms_list(net, eq)
    print('oms built', len(oms))
    for o in oms[:6]:
        bm=o.spectrum_bitmap
        print(o.oms_id, bm.n_min, bm.n_max, len(bm.bitmap), len(bm.freq_index), len(set(bm.freq_index)), sum(1 for b in bm.bitmap if b==BitmapValue.FREE))
except Exception as e:
    import traceback; traceback.print_exc()
