import json, copy, logging
from gnpy.tools.json_io import _equipment_from_json, load_json
from gnpy.tools.default_edfa_config import DEFAULT_EXTRA_CONFIG
from pathlib import Path
d = load_json(Path('/repo/tests/data/eqpt_config.json'))
trx = [t for t in d['Transceiver'] if 'other_name' in t]
print('shipped trx with other_name:', [(t['type_variety'], t['other_name']) for t in trx])
# craft one
t0 = copy.deepcopy(d['Transceiver'][0]); t0['type_variety']='main'; t0['other_name']=['aliasA','aliasB']
d['Transceiver'].append(t0)
eq = _equipment_from_json(d, DEFAULT_EXTRA_CONFIG)
for k in ('main','aliasA','aliasB'):
    print(k, '->', eq['Transceiver'][k].type_variety)
e0 = [e for e in d['Edfa'] if 'other_name' in e]
print('edfa with other_name', [(e['type_variety'], e['other_name']) for e in e0][:3])
for e in e0[:1]:
    for k in [e['type_variety']]+e['other_name']:
        print(k,'->',eq['Edfa'][k].type_variety)
