from gnpy.topology.spectrum_assignment import OMS, BitmapValue, pth_assign_spectrum
oms = OMS(oms_id=0, el_id_list=[], el_list=[])
oms.update_spectrum(191.3e12, 196.1e12)
oms.assign_spectrum(40, 4)   # pre-existing service
before = list(oms.spectrum_bitmap.bitmap)
class El:  # a line element of OMS 0
    oms_id = 0
class RQ: pass
rq = RQ(); rq.request_id='r1'; rq.N=[0, 40]; rq.M=[4, 4]; rq.path_bandwidth=200e9; rq.spacing=50e9; rq.bit_rate=100e9
pth_assign_spectrum([[El()]], [rq], [oms], [[]])
print('blocking:', getattr(rq,'blocking_reason',None), rq.N, rq.M)
print('slots changed by blocked request:', sum(1 for a,b in zip(before, oms.spectrum_bitmap.bitmap) if a!=b))
