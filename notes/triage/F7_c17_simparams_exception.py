import json, sys, copy
from pathlib import Path
from gnpy.tools.json_io import load_equipment, network_from_json, load_json
from gnpy.core.parameters import SimParams
from gnpy.core.network import build_network
from gnpy.tools.worker_utils import designed_network
import gnpy
D = Path(gnpy.__file__).parent/'example-data'
eq = load_equipment(D/'eqpt_config.json')
top = load_json(D/'raman_edfa_example_network.json')
for mod in sys.argv[1:]:
    t = copy.deepcopy(top)
    for e in t['elements']:
        if e['type']=='RamanFiber':
            exec(mod)
    SimParams.set_params({'raman_params': {'flag': True, 'method':'perturbative','order':1, 'result_spatial_resolution': 10e3, 'solver_spatial_resolution': 50}, 'nli_params': {'method':'ggn_spectrally_separated'}})
    before = (SimParams._shared_dict['raman_params'].to_json(), SimParams._shared_dict['nli_params'].to_json())
    try:
        net = network_from_json(t, eq)
        designed_network(eq, net, no_insert_edfas=False)
        print(mod, 'OK design')
    except Exception as ex:
        print(mod, 'EXC', type(ex).__name__, ex)
    after = (SimParams._shared_dict['raman_params'].to_json(), SimParams._shared_dict['nli_params'].to_json())
    print('  unchanged' if before==after else f'  CHANGED {before} -> {after}')
