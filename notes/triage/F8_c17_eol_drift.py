import json, copy
from pathlib import Path
from gnpy.tools.json_io import load_equipment, load_json, network_from_json, network_to_json, _equipment_from_json
from gnpy.tools.default_edfa_config import DEFAULT_EXTRA_CONFIG
from gnpy.tools.worker_utils import designed_network
ex = Path('/repo/gnpy/example-data')
eqj = load_json(ex/'eqpt_config.json')
eqj['Span'][0]['EOL'] = 1.5
topo = load_json(ex/'edfa_example_network.json')
def design(t):
    eq = _equipment_from_json(copy.deepcopy(eqj), DEFAULT_EXTRA_CONFIG)
    net = network_from_json(copy.deepcopy(t), eq)
    designed_network(eq, net)
    return network_to_json(net)
j1 = design(topo)
j2 = design(j1)
j3 = design(j2)
for a,b,c in zip(j1['elements'], j2['elements'], j3['elements']):
    if a != b or b != c:
        print(a['uid'], a.get('params') or a.get('operational'), '\n   ->', b.get('params') or b.get('operational'), '\n   ->', c.get('params') or c.get('operational'))
