import json, copy
from pathlib import Path
from gnpy.tools.json_io import load_equipment, load_json, network_from_json
from gnpy.tools.worker_utils import designed_network
ex = Path('/repo/gnpy/example-data')
eq = load_equipment(ex/'eqpt_config.json')
topo = load_json(ex/'meshTopologyExampleV2.json')
for el in topo['elements']:
    if el['type']=='Roadm':
        el.setdefault('params',{})['target_pch_out_db'] = 0
        break
net = network_from_json(topo, eq)
try:
    designed_network(eq, net)
    print('design ok')
except Exception as e:
    print(type(e).__name__, e)
