from gnpy.topology.spectrum_assignment import OMS, Bitmap, BitmapValue, align_grids, create_oms_bitmap, frequency_to_n, build_oms_list
import gnpy.topology.spectrum_assignment as sa
# insert_right
b = Bitmap(191.3e12, 192.0e12, sa.DEFAULT_GRID)
n_max0 = b.n_max
b.insert_right([BitmapValue.OCCUPIED]*3)
print('freq_index tail:', b.freq_index[-6:], 'n_max before', n_max0, 'after', b.n_max, 'unique?', len(set(b.freq_index))==len(b.freq_index))
b2 = Bitmap(191.3e12, 192.0e12, sa.DEFAULT_GRID)
n_min0=b2.n_min
b2.insert_left([BitmapValue.OCCUPIED]*3)
print('freq_index head:', b2.freq_index[:6], 'n_min before', n_min0, 'after', b2.n_min)
# align grids of two OMS of different extent
o1 = OMS(oms_id=0, el_id_list=[], el_list=[]); o1.update_spectrum(191.3e12, 196.1e12)
o2 = OMS(oms_id=1, el_id_list=[], el_list=[]); o2.update_spectrum(191.3e12, 195.0e12)
align_grids([o1,o2])
print(o1.spectrum_bitmap.n_max, o2.spectrum_bitmap.n_max, len(o1.spectrum_bitmap.bitmap), len(o2.spectrum_bitmap.bitmap), len(o2.spectrum_bitmap.freq_index))
# create_oms_bitmap with narrower OMS
class Amp: pass
from gnpy.core.elements import Edfa
from gnpy.tools.json_io import load_equipment
from pathlib import Path
eq = load_equipment(Path('/repo/tests/data/eqpt_config.json'))
from unittest.mock import patch
class FakeOms:
    el_list=[]
for cr in ([{'f_min':191.3e12,'f_max':196.1e12}], [{'f_min':191.3e12,'f_max':195.0e12}], [{'f_min':192.0e12,'f_max':196.1e12}], [{'f_min':186e12,'f_max':190e12},{'f_min':191.3e12,'f_max':196.1e12}]):
    with patch.object(sa, 'find_elements_common_range', lambda el, eq: cr):
        fmin, fmax = (186e12 if len(cr)>1 else 191.3e12), 196.1e12
        bm = create_oms_bitmap(FakeOms(), eq, fmin, fmax, sa.DEFAULT_GRID)
        exp = frequency_to_n(fmax)-frequency_to_n(fmin)+1
        print(cr, 'len', len(bm), 'expected by Bitmap', exp)
        try:
            Bitmap(fmin, fmax, sa.DEFAULT_GRID, bitmap=bm); print('  ok')
        except Exception as e: print('  ', type(e).__name__, e)
