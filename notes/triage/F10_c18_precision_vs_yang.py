import re, glob, sys
sys.path.insert(0,'/repo')
from gnpy.yang.precision_dict import PRECISION_DICT as P
# minimal YANG tokenizer/parser
def tokenize(s):
    toks=[]; i=0; n=len(s)
    while i<n:
        c=s[i]
        if c.isspace(): i+=1; continue
        if s.startswith('//',i): i=s.index('\n',i) if '\n' in s[i:] else n; continue
        if s.startswith('/*',i): i=s.index('*/',i)+2; continue
        if c in '{};': toks.append(c); i+=1; continue
        if c in '"\'':
            q=c; j=i+1; buf=[]
            while s[j]!=q:
                if s[j]=='\\' and q=='"': buf.append(s[j+1]); j+=2
                else: buf.append(s[j]); j+=1
            toks.append(('S',''.join(buf))); i=j+1
            # string concatenation with +
            continue
        j=i
        while j<n and not s[j].isspace() and s[j] not in '{};': j+=1
        toks.append(s[i:j]); i=j
    # merge "a" + "b"
    out=[]
    k=0
    while k<len(toks):
        t=toks[k]
        if t=='+' and out and isinstance(out[-1],tuple) and k+1<len(toks) and isinstance(toks[k+1],tuple):
            out[-1]=('S',out[-1][1]+toks[k+1][1]); k+=2; continue
        out.append(t); k+=1
    return out
def parse(toks, i=0):
    stmts=[]
    while i<len(toks) and toks[i]!='}':
        kw=toks[i]; i+=1
        arg=None
        if toks[i] not in ('{',';'):
            arg=toks[i]; arg=arg[1] if isinstance(arg,tuple) else arg; i+=1
        if toks[i]==';': stmts.append((kw,arg,[])); i+=1
        else:
            sub,i=parse(toks,i+1); stmts.append((kw,arg,sub)); i+=1
    return stmts,i
mods={}
for f in glob.glob('/repo/gnpy/yang/*.yang')+glob.glob('/repo/gnpy/yang/ext/*.yang'):
    st,_=parse(tokenize(open(f).read()))
    mods[f]=st
typedefs={}
def walk(stmts, fn, path=()):
    for kw,arg,sub in stmts:
        fn(kw,arg,sub,path)
        walk(sub,fn,path+((kw,arg),))
def collect_td(kw,arg,sub,path):
    if kw=='typedef': typedefs[arg]=sub
for m in mods.values(): walk(m,collect_td)
def type_prec(sub, depth=0):
    """return set of precisions for a leaf's type"""
    res=set()
    for kw,arg,s in sub:
        if kw=='type':
            base=arg.split(':')[-1]
            if base=='decimal64':
                fd=[a for k,a,_ in s if k=='fraction-digits']
                res.add(int(fd[0]) if fd else None)
            elif base in ('int8','int16','int32','uint8','uint16','uint32'): res.add(0)
            elif base in ('int64','uint64','string','boolean','enumeration','identityref','leafref','empty','bits','binary','instance-identifier'): res.add(-1)
            elif base=='union':
                res |= type_prec(s, depth+1)
            elif base in typedefs and depth<6:
                res |= type_prec(typedefs[base], depth+1)
            else: res.add(('?',base))
    return res
leaves={}
def collect_leaf(kw,arg,sub,path):
    if kw in ('leaf','leaf-list'):
        leaves.setdefault(arg,[]).append((type_prec(sub), path))
gn=[f for f in mods if '/ext/' not in f]
for f in gn: walk(mods[f], lambda kw,arg,sub,path,f=f: collect_leaf(kw,arg,sub,path+(('file',f.split('/')[-1]),)))
mism=0
for name, occ in sorted(leaves.items()):
    precs=set()
    for p,_ in occ: precs|=p
    d=P.get(name,'MISSING')
    if precs!={d}:
        mism+=1
        print(f'{name:35} dict={d!s:8} yang={precs} occurrences={len(occ)}')
print('leaves in gnpy yang:',len(leaves),'mismatching:',mism)
