"""F13 (C05): two lumped losses declared at the same position are applied as one.
RamanSolver._create_lumped_losses merges the z grid with numpy.unique(return_index=True) and keeps the loss of the FIRST entry
at each position; Fiber.loss (the design budget) counts every declared loss.
run: cd /repo && /venv/bin/python /verif/notes/triage/F13.py"""
from numpy import array, allclose
from gnpy.core.elements import Fiber
from gnpy.core.info import create_input_spectral_information
from gnpy.core.utils import watt2dbm
from gnpy.core.parameters import SimParams

SimParams.set_params({'raman_params': {'flag': False}, 'nli_params': {'method': 'gn_model_analytic', 'computed_channels': [1]}})
params = {'length': 80, 'length_units': 'km', 'loss_coef': 0.2, 'con_in': 0.5, 'con_out': 0.5, 'dispersion': 1.67e-05,
          'effective_area': 83e-12, 'pmd_coef': 1.265e-15,
          'lumped_losses': [{'position': 20, 'loss': 1.0}, {'position': 20, 'loss': 2.0}]}
fib = Fiber(uid='f', type_variety='SSMF', params=params)
si = create_input_spectral_information(f_min=191.3e12, f_max=191.6e12, roll_off=0.15, baud_rate=32e9, spacing=50e9,
                                       tx_osnr=40.0, tx_power=1e-3)
p_in = watt2dbm(si.pch.copy())
fib.ref_pch_in_dbm = 0.0
out = fib(si)
applied = (p_in - watt2dbm(out.pch))[0]
print('budget (Fiber.loss):', round(float(fib.loss), 3), 'dB ; applied to the channels:', round(float(applied), 3), 'dB')
assert abs(applied - fib.loss) < 0.05, 'a lumped loss was dropped'
print('ok')
