import ast
from vg import *
from vg2 import *
repo = Repo('/repo')
psi_def = repo.funcs['NliSolver._psi:method']
def role(r, tag):
    return subst_atoms(r, lambda a: Rat.atom(a.split('@')[0] + '@' + tag) if not a.startswith(('abs(', 'arcsinh(')) else None)
class EvalR(Eval2):
    """outer(x, ones(n)) -> cut role ; outer(ones(n), x) -> pump role"""
    def ev_call(self, c):
        if isinstance(c.func, ast.Name) and c.func.id == 'outer':
            a0, a1 = c.args
            is_ones = lambda n: isinstance(n, ast.Call) and isinstance(n.func, ast.Name) and n.func.id == 'ones'
            if is_ones(a1): return role(self.ev(a0), 'cut')
            if is_ones(a0): return role(self.ev(a1), 'pump')
        return super().ev_call(c)
ev = EvalR(repo)
# parameters: df is a matrix atom; 1-D arrays used bare in a 2-D context broadcast along the last (pump) axis
ev.env.update({'df': Rat.atom('df'), 'baud_rate': Rat.atom('B@pump'), 'beta2': Rat.atom('b2@pump'),
               'effective_length': Rat.atom('Leff'), 'asymptotic_length': Rat.atom('La'), 'pi': Rat.atom('pi')})
ev.run(psi_def.body)
psi = ev.ret
# bare 1-D leftovers -> pump role ; alpha-derived lengths role-erased
print('code psi =', psi)
# spec
sp = EvalR(repo)
sp.env.update({k: Rat.atom(v) for k, v in {'Bc': 'B@cut', 'Bp': 'B@pump', 'bc': 'b2@cut', 'bp': 'b2@pump', 'df': 'df', 'Leff': 'Leff', 'La': 'La', 'pi': 'pi'}.items()})
spec_src = '''
bbar = abs((bc + bp) / 2)
psi = (arcsinh(pi ** 2 * La * bbar * Bc * (df + Bp / 2)) - arcsinh(pi ** 2 * La * bbar * Bc * (df - Bp / 2))) / 2 * Leff ** 2 / (2 * pi * bbar * La)
'''
sp.run(ast.parse(spec_src).body)
print('spec psi =', sp.env['psi'])
print('EQUAL:', psi.eq(sp.env['psi']))
# mutant: swap cut/pump baud in spec to see it is distinguished
sp2 = EvalR(repo); sp2.env = dict(sp.env); sp2.env['Bc'], sp2.env['Bp'] = sp.env['Bp'], sp.env['Bc']
sp2.run(ast.parse(spec_src).body)
print('swapped roles equal? ', psi.eq(sp2.env['psi']))
