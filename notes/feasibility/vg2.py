"""adds gamma (if / ifexp) support on top of vg.py"""
import ast, copy
from vg import *
import vg
GAMMAS = {}
def gamma(cond, a, b):
    if isinstance(a, Rat) and isinstance(b, Rat) and a.eq(b): return a
    r = fn_atom('gamma', ('c', cond), a, b)
    (k, _), = r.n.t.items()
    GAMMAS[k[0][0]] = (cond, a, b)
    return r
def subst_atoms(r, f):
    """f(atomname)-> Rat or None"""
    def sp(poly):
        out = Rat.const(0)
        for k, c in poly.t.items():
            term = Rat.const(c)
            for a, e in k:
                rep = f(a)
                base = rep if rep is not None else Rat.atom(a)
                term = term * base.pow(e)
            out = out + term
        return out
    return sp(r.n) / sp(r.d)
def restrict(r, assume):
    """assume: {condtext: bool}; resolves gamma atoms (recursively)"""
    changed = True
    while changed:
        changed = False
        def f(a):
            nonlocal changed
            if a in GAMMAS and GAMMAS[a][0] in assume:
                changed = True
                c, x, y = GAMMAS[a]
                return x if assume[c] else y
            return None
        r = subst_atoms(r, f)
    return r
class Eval2(Eval):
    def ev(self, e):
        if isinstance(e, ast.IfExp):
            return gamma(ast.unparse(e.test), self.ev(e.body), self.ev(e.orelse))
        if isinstance(e, ast.Attribute):
            base = self.ev(e.value)
            if isinstance(base, Rat):      # attribute chain on a symbolic parameter -> atom
                return Rat.atom(ast.unparse(e))
        return super().ev(e)
    def ev_call(self, c):
        # keep keyword args in opaque atoms
        return super().ev_call(c)
    def call_fn(self, fdef, args, kw):
        sub = Eval2(self.repo, self.depth + 1); sub.store = self.store
        for p, a in zip([a.arg for a in fdef.args.args], args): sub.env[p] = a
        sub.run(fdef.body); self.calls += sub.calls
        return sub.ret
    def run(self, body):
        for i, st in enumerate(body):
            if isinstance(st, ast.If):
                cond = ast.unparse(st.test)
                a = Eval2(self.repo, self.depth); a.env = dict(self.env); a.store = dict(self.store)
                b = Eval2(self.repo, self.depth); b.env = dict(self.env); b.store = dict(self.store)
                a.run(st.body); b.run(st.orelse)
                for k in set(a.env) | set(b.env):
                    va, vb = a.env.get(k, self.env.get(k)), b.env.get(k, self.env.get(k))
                    if va is None or vb is None: continue
                    self.env[k] = gamma(cond, va, vb) if isinstance(va, Rat) and isinstance(vb, Rat) else va
                for k in set(a.store) | set(b.store):
                    va = a.store.get(k, Rat.atom(f'{k[0]}.{k[1]}')); vb = b.store.get(k, Rat.atom(f'{k[0]}.{k[1]}'))
                    self.store[k] = gamma(cond, va, vb)
                if a.ret is not None or b.ret is not None:
                    # arm(s) returned: remaining statements belong to the non-returning arm (simplified)
                    rest = Eval2(self.repo, self.depth); rest.env = dict(b.env if a.ret is not None else a.env); rest.store = dict(self.store)
                    rest.run(body[i + 1:])
                    ra = a.ret if a.ret is not None else rest.ret
                    rb = b.ret if b.ret is not None else rest.ret
                    self.ret = gamma(cond, ra, rb) if isinstance(ra, Rat) and isinstance(rb, Rat) else (ra, rb)
                    return
                continue
            super().run([st])
            if self.ret is not None: return
if __name__ == '__main__':
    repo = Repo('/repo')
    f = repo.funcs['gnpy.core.network.compute_gain_power_and_tilt_target']
    ev = Eval2(repo)
    for p in [a.arg for a in f.args.args]: ev.env[p] = Rat.atom(p)
    ev.env['node'] = Rat.atom('node')
    ev.run(f.body)
    gain, power, tilt, dp, voa, loss = ev.ret
    rel = gain - dp
    print('conds:', sorted({c for c, _, _ in GAMMAS.values()}))
    spec = loss + Rat.atom('deviation_db') - Rat.atom('prev_dp') + Rat.atom('prev_voa') + gamma('node.in_voa', Rat.atom('node.in_voa'), Rat.const(0))
    for pm in (True, False):
        r = restrict(rel, {'node.effective_gain is None or power_mode': pm})
        print('mode arm', pm, ': gain-dp == spec ?', r.eq(spec))
    print('power_target == pref_total_db + dp:', power.eq(Rat.atom('pref_total_db') + dp))
    print('dp (delta_p None arm):', restrict(dp, {'node.operational.delta_p is None': True, 'node.effective_gain is None or power_mode': True}))
