"""Probe: symbolic list-length domain on create_oms_bitmap (linear expressions over ints)."""
import ast, sys
from vg import Repo, Rat, Poly, fn_atom
from fractions import Fraction
repo = Repo(sys.argv[1] if len(sys.argv) > 1 else '/repo')
f = repo.funcs['gnpy.topology.spectrum_assignment.create_oms_bitmap']
ints = {}   # name -> Rat (linear)
lens = {}   # list var -> Rat
def ev_int(e):
    if isinstance(e, ast.Constant): return Rat.const(e.value)
    if isinstance(e, ast.Name): return ints.get(e.id, Rat.atom(e.id))
    if isinstance(e, ast.BinOp):
        a, b = ev_int(e.left), ev_int(e.right)
        return {ast.Add: a + b, ast.Sub: a - b, ast.Mult: a * b}[type(e.op)]
    if isinstance(e, ast.Call):   # frequency_to_n(x, grid) -> N(x)
        return fn_atom(ast.unparse(e.func), *[Rat.atom(ast.unparse(a)) for a in e.args[:1]])
    return Rat.atom(ast.unparse(e))
def ev_len(e):
    if isinstance(e, ast.Name): return lens[e.id]
    if isinstance(e, ast.BinOp) and isinstance(e.op, ast.Add): return ev_len(e.left) + ev_len(e.right)
    if isinstance(e, ast.BinOp) and isinstance(e.op, ast.Mult) and isinstance(e.left, ast.List): return ev_int(e.right) * Rat.const(len(e.left.elts))
    raise ValueError(ast.dump(e)[:80])
def run(body):
    for st in body:
        if isinstance(st, ast.Expr): continue
        if isinstance(st, ast.Assign) and isinstance(st.targets[0], ast.Name):
            t = st.targets[0].id
            try: lens[t] = ev_len(st.value); continue
            except (ValueError, KeyError): pass
            ints[t] = ev_int(st.value); continue
        if isinstance(st, ast.AugAssign): ints[st.target.id] = ev_int(ast.BinOp(left=st.target, op=st.op, right=st.value)); continue
        if isinstance(st, ast.While):
            # difference-invariant template: find int var v updated in the loop with  len' - len == v' - v
            pre_l, pre_i = dict(lens), dict(ints)
            # havoc loop-assigned ints into fresh symbols (pre-state of an arbitrary iteration)
            assigned = [n.targets[0].id for n in ast.walk(st) if isinstance(n, ast.Assign) and isinstance(n.targets[0], ast.Name)]
            for v in assigned:
                if v in ints: ints[v] = Rat.atom(v + '#k')
            for l in list(lens): lens[l] = Rat.atom(f'len_{l}#k')
            start_i, start_l = dict(ints), dict(lens)
            run(st.body)
            for l in lens:
                dlen = lens[l] - start_l[l]
                for v in assigned:
                    if v in start_i and v in ints and (ints[v] - start_i[v]).eq(dlen) and not dlen.eq(Rat.const(0)):
                        print(f'  loop invariant: len({l}) - {v} is constant')
                        # after the loop: len = pre_len - pre_v + v_final (v_final unknown symbol v#end)
                        ints[v] = Rat.atom(v + '#end')
                        lens[l] = pre_l[l] - pre_i[v] + ints[v]
            continue
        if isinstance(st, ast.Return): return ev_len(st.value)
run_ret = run(f.body)
total = run_ret
print('len(bitmap) =', total)
expected = fn_atom('frequency_to_n', Rat.atom('f_max')) - fn_atom('frequency_to_n', Rat.atom('f_min')) + Rat.const(1)
print('Bitmap expects  ', expected)
print('difference      ', total - expected)
