"""Prototype: gated value graph with rational normal form (design de-risking only)."""
import ast, sys, glob, os
from fractions import Fraction

# ---------------- polynomials over atoms -----------------
class Poly:
    __slots__ = ('t',)
    def __init__(self, t=None):
        self.t = {k: v for k, v in (t or {}).items() if v != 0}
    @staticmethod
    def const(c): return Poly({(): Fraction(c)})
    @staticmethod
    def atom(a): return Poly({((a, 1),): Fraction(1)})
    def __add__(self, o):
        t = dict(self.t)
        for k, v in o.t.items(): t[k] = t.get(k, 0) + v
        return Poly(t)
    def __neg__(self): return Poly({k: -v for k, v in self.t.items()})
    def __sub__(self, o): return self + (-o)
    def __mul__(self, o):
        t = {}
        for k1, v1 in self.t.items():
            for k2, v2 in o.t.items():
                d = dict(k1)
                for a, e in k2: d[a] = d.get(a, 0) + e
                k = tuple(sorted((a, e) for a, e in d.items() if e))
                t[k] = t.get(k, 0) + v1 * v2
        return Poly(t)
    def is_zero(self): return not self.t
    def is_const(self): return all(k == () for k in self.t)
    def constval(self): return self.t.get((), Fraction(0))
    def single(self): return len(self.t) == 1
    def key(self): return tuple(sorted(self.t.items()))
    def __repr__(self):
        if not self.t: return '0'
        out = []
        for k, v in sorted(self.t.items()):
            m = '*'.join(a if e == 1 else f'{a}^{e}' for a, e in k)
            out.append(f'{v}' if not m else (m if v == 1 else f'{v}*{m}'))
        return ' + '.join(out)

class Rat:
    """num/den with den != 0; monomial denominators are folded into negative exponents."""
    __slots__ = ('n', 'd')
    def __init__(self, n, d=None):
        d = d or Poly.const(1)
        if d.single():   # fold a monomial denominator into the numerator
            (k, c), = d.t.items()
            inv = Poly({tuple((a, -e) for a, e in k): 1 / c})
            n, d = n * inv, Poly.const(1)
        self.n, self.d = n, d
    @staticmethod
    def const(c): return Rat(Poly.const(c))
    @staticmethod
    def atom(a): return Rat(Poly.atom(a))
    def __add__(self, o): return Rat(self.n * o.d + o.n * self.d, self.d * o.d)
    def __neg__(self): return Rat(-self.n, self.d)
    def __sub__(self, o): return self + (-o)
    def __mul__(self, o): return Rat(self.n * o.n, self.d * o.d)
    def inv(self):
        if self.n.is_zero(): raise ZeroDivisionError
        return Rat(self.d, self.n)
    def __truediv__(self, o): return self * o.inv()
    def pow(self, k):
        if k < 0: return self.inv().pow(-k)
        r = Rat.const(1)
        for _ in range(k): r = r * self
        return r
    def eq(self, o): return (self.n * o.d - o.n * self.d).is_zero()
    def is_const(self): return self.d.is_const() and self.n.is_const()
    def constval(self): return self.n.constval() / self.d.constval()
    def key(self): return f'({self.n!r})/({self.d!r})' if not (self.d.is_const() and self.d.constval() == 1) else f'{self.n!r}'
    def __repr__(self): return self.key()

def fn_atom(name, *args):
    return Rat.atom(f'{name}(' + ','.join(a.key() if isinstance(a, Rat) else repr(a) for a in args) + ')')

# ---------------- lemmas -----------------
def lemma_abs(x):
    # |−x| = |x| : canonical sign = first monomial (sorted) positive
    if x.is_const(): return Rat.const(abs(x.constval()))
    lead = sorted(x.n.t.items())[0][1] * (1 if x.d.is_const() and x.d.constval() > 0 else 1)
    if lead < 0: x = -x
    return fn_atom('abs', x)
def lemma_min(a, b): return (a + b - lemma_abs(a - b)) * Rat.const(Fraction(1, 2))
def lemma_max(a, b): return (a + b + lemma_abs(a - b)) * Rat.const(Fraction(1, 2))
def lemma_log10(x):
    # log10 of a single monomial (possibly with negative exponents): sum k_i log10(a_i); log10(exp10(u)) = u
    if x.d.is_const() and x.n.single():
        (k, c), = x.n.t.items()
        c = c / x.d.constval()
        res = Rat.const(0)
        if c != 1:
            import math
            lc = math.log10(c)
            res = Rat.const(Fraction(round(lc))) if abs(lc - round(lc)) < 1e-12 else fn_atom('log10', Rat.const(c))
        for a, e in k:
            if a.startswith('exp10(') and a in EXP10_ARGS:
                res = res + EXP10_ARGS[a] * Rat.const(e)
            else:
                res = res + fn_atom('log10', Rat.atom(a)) * Rat.const(e)
        return res
    return fn_atom('log10', x)
EXP10_ARGS = {}
def lemma_exp10(u):
    if u.is_const() and u.constval().denominator == 1: return Rat.const(Fraction(10) ** int(u.constval()))
    r = fn_atom('exp10', u)
    (k, _), = r.n.t.items()
    EXP10_ARGS[k[0][0]] = u
    return r

# ---------------- program model (just enough) -----------------
class Repo:
    def __init__(self, root):
        self.funcs = {}      # qualname -> FunctionDef
        self.classes = {}    # name -> ClassDef
        for f in glob.glob(os.path.join(root, 'gnpy', '**', '*.py'), recursive=True):
            mod = os.path.relpath(f, root)[:-3].replace('/', '.')
            tree = ast.parse(open(f).read())
            for n in tree.body:
                if isinstance(n, ast.FunctionDef): self.funcs[f'{mod}.{n.name}'] = n; self.funcs.setdefault(n.name, n)
                if isinstance(n, ast.ClassDef):
                    self.classes[n.name] = n
                    for m in n.body:
                        if isinstance(m, ast.FunctionDef):
                            kind = 'method'
                            for d in m.decorator_list:
                                if isinstance(d, ast.Name) and d.id == 'property': kind = 'getter'
                                if isinstance(d, ast.Attribute) and d.attr == 'setter': kind = 'setter'
                            self.funcs[f'{n.name}.{m.name}:{kind}'] = m

class Unknown(Exception): pass

class Obj:
    """a symbolic object: fields are locations in the store keyed by (name, field)"""
    def __init__(self, name, cls=None): self.name, self.cls = name, cls

INLINE = {'lin2db', 'db2lin', 'watt2dbm', 'dbm2watt', 'psd2powerdbm', 'snr_sum', 'calculate_absolute_min_or_zero'}
IDENT = {'array', 'asarray'}

class Eval:
    def __init__(self, repo, depth=0):
        self.repo, self.depth = repo, depth
        self.env = {}       # local name -> value
        self.store = {}     # (objname, field) -> Rat
        self.ret = None
        self.calls = []     # observed calls (name, args)
    def field(self, obj, f):
        k = (obj.name, f)
        if k not in self.store: self.store[k] = Rat.atom(f'{obj.name}.{f}')
        return self.store[k]
    # ---- expressions
    def ev(self, e):
        if isinstance(e, ast.Constant):
            if isinstance(e.value, (int, float)) and not isinstance(e.value, bool): return Rat.const(Fraction(e.value))
            return ('const', e.value)
        if isinstance(e, ast.Name):
            if e.id in self.env: return self.env[e.id]
            return Rat.atom(e.id)
        if isinstance(e, ast.UnaryOp) and isinstance(e.op, ast.USub): return -self.ev(e.operand)
        if isinstance(e, ast.BinOp):
            a, b = self.ev(e.left), self.ev(e.right)
            if isinstance(e.op, ast.Add): return a + b
            if isinstance(e.op, ast.Sub): return a - b
            if isinstance(e.op, ast.Mult): return a * b
            if isinstance(e.op, ast.Div): return a / b
            if isinstance(e.op, ast.Pow):
                if b.is_const() and b.constval().denominator == 1: return a.pow(int(b.constval()))
                if a.is_const() and a.constval() == 10: return lemma_exp10(b)
                return fn_atom('pow', a, b)
            raise Unknown(ast.dump(e.op))
        if isinstance(e, ast.Attribute):
            base = self.ev(e.value)
            if isinstance(base, Obj):
                g = self.repo.funcs.get(f'{base.cls}.{e.attr}:getter') if base.cls else None
                if g is not None: return self.call_fn(g, [base], {})
                return self.field(base, e.attr)
            if isinstance(base, Rat): return fn_atom('attr', base, e.attr)
            raise Unknown(ast.dump(e))
        if isinstance(e, ast.Call): return self.ev_call(e)
        if isinstance(e, ast.Subscript):
            return fn_atom('sub', self.ev(e.value), ast.unparse(e.slice))
        if isinstance(e, ast.Tuple): return tuple(self.ev(x) for x in e.elts)
        raise Unknown(ast.dump(e)[:80])
    def ev_call(self, c):
        f = c.func
        args = [self.ev(a) for a in c.args]
        if isinstance(f, ast.Name):
            n = f.id
            if n in IDENT: return args[0]
            if n == 'abs': return lemma_abs(args[0])
            if n == 'log10': return lemma_log10(args[0])
            if n in ('min', 'minimum') and len(args) == 2: return lemma_min(*args)
            if n in ('max', 'maximum') and len(args) == 2: return lemma_max(*args)
            if n in INLINE and n in self.repo.funcs and self.depth < 4:
                return self.call_fn(self.repo.funcs[n], args, {})
            return fn_atom(n, *args)
        if isinstance(f, ast.Attribute):
            base = self.ev(f.value)
            if isinstance(base, Obj) and base.cls:
                m = self.repo.funcs.get(f'{base.cls}.{f.attr}:method')
                if m is not None and self.depth < 4:
                    return self.call_fn(m, [base] + args, {})
            self.calls.append((ast.unparse(f), args))
            return fn_atom(ast.unparse(f), *args)
        raise Unknown(ast.dump(f))
    def call_fn(self, fdef, args, kw):
        sub = Eval(self.repo, self.depth + 1)
        sub.store = self.store            # shared heap
        params = [a.arg for a in fdef.args.args]
        for p, a in zip(params, args): sub.env[p] = a
        sub.run(fdef.body)
        self.calls += sub.calls
        return sub.ret
    # ---- statements
    def assign(self, tgt, val):
        if isinstance(tgt, ast.Name): self.env[tgt.id] = val
        elif isinstance(tgt, ast.Attribute):
            base = self.ev(tgt.value)
            if isinstance(base, Obj):
                s = self.repo.funcs.get(f'{base.cls}.{tgt.attr}:setter') if base.cls else None
                if s is not None: self.call_fn(s, [base, val], {})
                else: self.store[(base.name, tgt.attr)] = val
            else: raise Unknown('store on non-object')
        else: raise Unknown(ast.dump(tgt)[:60])
    def run(self, body):
        for st in body:
            if isinstance(st, ast.Expr):
                if isinstance(st.value, ast.Constant): continue   # docstring
                self.ev(st.value); continue
            if isinstance(st, ast.Assign):
                v = self.ev(st.value)
                for t in st.targets: self.assign(t, v)
                continue
            if isinstance(st, ast.AugAssign):
                cur = self.ev(st.target)
                v = self.ev(ast.BinOp(left=st.target, op=st.op, right=st.value))
                self.assign(st.target, v); continue
            if isinstance(st, ast.Return):
                self.ret = self.ev(st.value) if st.value else None; return
            raise Unknown(type(st).__name__)

if __name__ == '__main__':
    repo = Repo(sys.argv[1] if len(sys.argv) > 1 else '/repo')
    SI = 'SpectralInformation'
    def fresh():
        ev = Eval(repo); si = Obj('si', SI); ev.env['self'] = si; return ev, si
    # ---- C01 step obligations
    for meth, arg in (('add_ase', 'ase'), ('add_nli', 'nli')):
        ev, si = fresh(); ev.env[arg] = Rat.atom(arg)
        ev.run(repo.funcs[f'{SI}.{meth}:method'].body)
        S, A, N, p = (ev.store.get(('si', f), Rat.atom(f'si.{f}')) for f in ('_signal_ratio', '_ase_ratio', '_nli_ratio', '_pch'))
        print(meth, '\n  S\' =', S, '\n  A\' =', A, '\n  N\' =', N, '\n  p\' =', p)
        tot = S + A + N
        # substitute A = 1 - S - N  (invariant hypothesis)
        s0, n0 = Rat.atom('si._signal_ratio'), Rat.atom('si._nli_ratio')
        def subst(r):
            def sp(poly):
                out = Rat.const(0)
                for k, c in poly.t.items():
                    term = Rat.const(c)
                    for a, e in k:
                        base = (Rat.const(1) - s0 - n0) if a == 'si._ase_ratio' else Rat.atom(a)
                        term = term * base.pow(e)
                    out = out + term
                return out
            return sp(r.n) / sp(r.d)
        print('  sum conserved under S+A+N=1:', subst(tot).eq(Rat.const(1)))
    # ---- C01 identity
    ev, si = fresh()
    g = ev.ev(ast.parse('self.gsnr', mode='eval').body); a = ev.ev(ast.parse('self.snr_lin', mode='eval').body); n = ev.ev(ast.parse('self.snr_nli', mode='eval').body)
    print('1/gsnr == 1/snr_lin + 1/snr_nli :', g.inv().eq(a.inv() + n.inv()))
    # ---- dB lemma sanity: pch_dbm after two attenuations
    ev, si = fresh(); ev.env['L'] = Rat.atom('L'); ev.env['D'] = Rat.atom('D')
    ev.run(ast.parse('x0 = self.pch_dbm\nself.apply_attenuation_db(L)\nself.apply_attenuation_db(D)\nx1 = self.pch_dbm').body)
    print('pch_dbm drop == L + D :', (ev.env['x0'] - ev.env['x1']).eq(Rat.atom('L') + Rat.atom('D')), '|', ev.env['x1'])
