import ast, sys
from vg import *
repo = Repo('/repo')
OPAQUE = {'get_impairment', 'get_per_degree_ref_power', 'get_per_degree_power'}
# make selected Roadm methods opaque: remove them from registry
for m in OPAQUE: repo.funcs.pop(f'Roadm.{m}:method', None)
ev = Eval(repo)
roadm = Obj('self', 'Roadm'); si = Obj('si', 'SpectralInformation')
ev.env.update({'self': roadm, 'spectral_info': si, 'degree': Rat.atom('degree'), 'from_degree': Rat.atom('from_degree')})
body = repo.funcs['Roadm.propagate:method'].body
try:
    ev.run(body)
except Unknown as e:
    print('UNKNOWN', e)
out = ev.store[('self', 'pch_out_dbm')]
loss = ev.store[('self', 'loss_pch_db')]
print('pch_out_dbm =', out)
# spec: min(T + offset, in_dbm - maxloss)
L = [a for n, a in ev.calls if n == 'self.get_impairment' and a and a[0] == ('const', 'roadm-maxloss')]
print('calls:', [n for n, _ in ev.calls])
T = fn_atom('self.get_per_degree_power', Rat.atom('degree'))
