#!/usr/bin/env python3
"""(re)generate MANIFEST.json from the per-property table below; run after adding or removing a check."""
import json
import os

HERE = os.path.dirname(os.path.abspath(__file__))
BASE = json.load(open('/root/.vp/BASELINE.json'))['cmd'] if os.path.exists('/root/.vp/BASELINE.json') else \
    'cd /repo && /venv/bin/python -m pytest -ra -q -p no:cacheprovider --timeout=900 --continue-on-collection-errors'

# pid -> (category, level text, level note, technique, design ref)
CHECKS = {
    'C01': ('proof',
            'Inductive-invariant proof that signal+ASE+NLI shares sum to 1 per channel and that 1/GSNR = 1/OSNR + '
            '1/SNR_NLI, quantified over every store in gnpy/, every constructor site and every mutator of '
            'SpectralInformation; the [0,1] bound of each share is not decided.',
            'Trusts numpy element-wise semantics, real instead of floating-point arithmetic, and the value-graph '
            'engine; shares in [0,1] need run-time signs and are not claimed.',
            'ownership scan + value-graph (rational normal form) invariant proof over the SpectralInformation API',
            'DESIGN.md 4 C01'),
    'C02': ('other',
            'Per element class, the set of SpectralInformation mutators its __call__ can reach (effect sets over the '
            'whole-package call graph): passive elements only attenuate, a plain fibre never adds ASE or gain, an '
            'amplifier never adds NLI, solvers mutate nothing; value-graph identities show which ratio each noise '
            'update moves and that it is non-increasing for a non-negative injected term; a sign domain shows amplifier '
            'ASE > 0 and GN-analytic eta >= 0 for every dispersion sign and channel layout.',
            'Sign of Raman spontaneous-scattering ASE and of the GGN integrals is not decided; physical positivity of '
            'frequency, baud rate, alpha is assumed; relies on C01.',
            'effect-set (call-graph reachability) analysis + value-graph identities + sign abstract domain',
            'DESIGN.md 4 C02'),
    'C03': ('other',
            'Role-aware value graph (numpy broadcasting roles cut/pump) of _psi, _gn_analytic and the analytic arm of '
            'compute_nli equals the published GN closed form incl. exact SPM/XPM weights; NLI is sum_p P_c P_p^2 eta, '
            'homogeneous of degree 3 in power with eta independent of power; fibre alpha/beta2/gamma definitions; all '
            'per-channel arrays permuted by one argsort. Scaling laws are theorems of that formula.',
            'GGN methods (numerical integration) and numerical agreement with stored data are not decided; real '
            'arithmetic; one alpha (role erased) as in the paper.',
            'translation-validation style value graph with rational normal form and broadcasting roles + degree domain',
            'DESIGN.md 4 C03'),
    'C04': ('other',
            'Value graphs of noise_profile, interpol_params, _nf/_calc_nf and the loader\'s estimate_nf_model against the '
            'documented formulas (ASE = h f B NF; effective gain = min(set gain, p_max - TOTAL input dBm) stored before '
            'NF and gain profile are computed; padding and NF per amplifier family; two-coil acceptance tests at '
            'g1a_max/g1a_min on every return); call order in propagate; type_def exhaustiveness loader vs model; band '
            'demux in __call__; the last refinement step of the gain profile is a secant step toward the effective gain.',
            'Numeric result of the DGT/ripple iteration beyond its last step and OpenROADM polynomial values are not decided.',
            'value graph with dB/linear lemmas + CFG ordering + table exhaustiveness',
            'DESIGN.md 4 C04'),
    'C06': ('other',
            'Value graph of Roadm.propagate in the dB domain proves pch_out = min(target + offset, input - maxloss) '
            'for the egress degree and that both attenuations are >= 0 by form; policy<->carrier-width pairing and '
            'per-degree precedence at all resolution sites; one policy vocabulary at 5 sites and rejection of two '
            'policies; design-time population of per-degree tables; presence of numeric targets tested with is-not-None; '
            'the crossing keeps no state between calls.',
            'Impairment profile values and consistency of per-degree dicts with the topology are data and not decided.',
            'value graph (dB/linear lemmas, min/max via |x|) + decision-list/table agreement + persistent-state dataflow',
            'DESIGN.md 4 C06'),
    'C05': ('other',
            'Value graph of Fiber.propagate / RamanFiber.propagate: the ordered power-changing calls and their arguments '
            'are exactly input connector + padding, the solver loss profile at the span end, output connector, once each '
            'and identical in both classes; Fiber.loss is the sum of the same five budget terms; the Raman-off solver path '
            'is exp(-alpha z) x lumped losses; every writer of CD/latency is additive and of PMD/PDL quadrature in the old '
            'value (writers enumerated over gnpy/), fibre PMD, CD proportional to length, latency a function of length only.',
            'Nothing about Raman solver numerics (low-power limit, method agreement, pumps) is decided.',
            'value graph + call-sequence (typestate) check + writer enumeration',
            'DESIGN.md 4 C05'),
    'C07': ('other',
            'One permutation for all 16 per-channel arrays and both constructor rejections evaluated on the sorted arrays '
            '(value graph); field-by-field mapping at every mux/demux constructor site; the recursive mux folds the whole '
            'list; the pre-propagation filter dominates the first element call in both propagation functions and is built '
            'from the pairwise band intersection over all amplifiers with whole-value duplicate removal; the multiband '
            'dispatch demuxes on each own band, collects each output and muxes all; carrier lists built in one iteration '
            'order; in-band test on slot edges, bounds included.',
            'Disjointness of the bands of one multiband element is data and not decided.',
            'value graph + CFG dominance (filter once) + structural field/loop mapping checks',
            'DESIGN.md 4 C07'),
    'C08': ('other',
            'Structural obligations of auto-design: each removed edge is re-linked through the one new amplifier on the '
            'same paths (values from the evaluator\'s call records), split_fiber chains prev -> spans -> next; every '
            'add_edge weight is (source length if the source is a fibre else 0.01) for the source of that very edge; '
            'definite assignment of the designed operating point on every non-raising exit of set_one_amplifier; '
            'connector defaults and the exact padding formula; every return of calculate_new_length keeps L*n = length and '
            'the longer candidate is guarded by the maximum span length; order and coverage of the passes; every ROADM and '
            'transceiver OMS is designed with a dispatch on all amplifier kinds.',
            'Uniqueness of generated names over the whole network, reachability and padding over arbitrary fused chains '
            'are topology-dependent and not decided.',
            'value graph call records (graph surgery typestate) + definite-assignment over all exits + CFG ordering',
            'DESIGN.md 4 C08'),
    'C09': ('other',
            'Gated value graphs of compute_gain_power_and_tilt_target (all 16 mode/offset/VOA arms), target_power, '
            'set_one_amplifier (state before and after the VOA step, per arm) and set_amplifier_voa compared with the '
            'documented design rule: budget relation gain - dp, slope rule rounded then clamped, saturation reduction on '
            'TOTAL design power in both modes, VOA optimisation added to gain and offset alike, and the chaining of '
            '(dp, voa) along the OMS walk.',
            'That propagating the design comb reproduces these powers is a composition with C04-C06 plus noise and is not '
            'decided; round2float, span_loss, select_edfa uninterpreted here.',
            'gated value graph (SSA with gamma nodes) + rational normal form with min/max lemmas + structural chaining check',
            'DESIGN.md 4 C09'),
    'C10': ('other',
            'Decision-list extraction and sibling agreement over amplifier selection: precedence of restriction sources with '
            'previous-ROADM/booster and next-ROADM/preamp pairing; the band-cover comparison (same model, same band, f_min <= '
            'and f_max >=) at every site; minimum-NF choice over the filtered list; Raman eligibility over the whole '
            'per-frequency loss array (value graph); capability score of both candidate lists as normal forms and the chain '
            'of filters followed through local definitions.',
            'That the chosen model can deliver when several fall-backs interact over arbitrary libraries is data dependent and '
            'not decided.',
            'decision-list and sibling-site agreement + value graph of the capability score',
            'DESIGN.md 4 C10'),
    'C11': ('other',
            'Necessary structural conditions of routing: both searches rank by the edge attribute that every add_edge sets '
            'to the length of its source fibre (per-edge value check); the exception-handler / outcome table of the '
            'constrained search (no path, unsatisfiable include list with and without STRICT hops, first passing path of the '
            'ordered generator); blocking-reason vocabulary; in-step editing of the parallel route lists and no deletion by a '
            'snapshot index; shape of ispart / find_reversed_path / explicit_path.',
            'Optimality and loop-freedom are networkx\'s (trusted); completeness of ispart/explicit_path for every topology is '
            'not decided.',
            'handler/outcome table extraction + per-call value check of edge weights + parallel-list edit pairing',
            'DESIGN.md 4 C11'),
    'C12': ('other',
            'Structural legs of the soundness argument of the disjoint-path search: both directions are tested against every '
            'path of a partial combination (loop nesting, per-combination reset, no early exit) and the extension is guarded '
            'by the accumulated test; candidate sets only shrink afterwards; an empty set raises DisjunctionError; cut-off 80; '
            'isdisjoint compares consecutive pairs; groups are de-duplicated on set equality only.',
            'Completeness (a disjoint solution is found whenever one exists) and consistency across overlapping groups are '
            'not decided.',
            'loop-structure / guard-dominance invariant argument over the AST and CFG',
            'DESIGN.md 4 C12'),
    'C13': ('other',
            'The three feasibility verdicts are extracted from the value graph of the planning functions and compared on '
            'metric (round(min_ch(snr_01nm - total_penalty), 2) of the propagated path\'s receiver), threshold (mode OSNR '
            '+ system margin), orientation and consequence; update_snr is a function of the raw figures and its arguments '
            'only, its four outputs tied by exact identities to one added-noise term, each supplied OSNR added once; the '
            'OSNR list in the mode loop is append/remove balanced on the flow graph; penalties are rebuilt on every call '
            'with infinite penalty outside the table; exploration order baud rate then bit rate descending.',
            'The numeric values are not decided; round() is uninterpreted; numpy interp semantics trusted.',
            'value-graph condition extraction + def-use (no self-dependence) + CFG typestate on the OSNR list',
            'DESIGN.md 4 C13'),
    'C16': ('other',
            'Non-interference argument decided structurally: every propagation reachable from planning() runs on a deep '
            'copy; propagation and all element __call__ closures write no global/class/library state; the per-element '
            'state surviving a propagation and read by the next equals a frozen reasoned table (Edfa.effective_gain); '
            'redesign only under the flag; shared spectrum state only reaches spectrum assignment after propagation; no '
            'side-effecting per-request call is skipped through a cross-request memo table.',
            'deepcopy semantics and the enumerated ways of writing state are trusted; aggregation/disjunction couple '
            'requests by design.',
            'effect summaries over the call graph + persistent-state (upward-exposed read / write) dataflow + def-use + CFG dominance',
            'DESIGN.md 4 C16'),
    'C14': ('other',
            'Decides the structural obligations behind "no double booking / blocked request changes nothing": the '
            'scratch OMS never aliases a real bitmap (list-freshness dataflow on every path), spectrum is committed '
            'only on the pass side of the feasibility guard (CFG dominance), blocked exits clear N/M with a '
            'NO_SPECTRUM-family reason, the same (N,M) pairs go to every OMS of path+reverse path, slot arithmetic '
            'and bound guards of assign_spectrum (value graph, integer-normalised comparisons), first-fit dispatch.',
            'Does not re-prove non-overlap from list semantics or minimality of the chosen slot; Python list '
            'copy/alias semantics and name-based call resolution inside the module are trusted.',
            'freshness (alias) dataflow + CFG dominance/must-pass-through + value-graph slot arithmetic',
            'DESIGN.md 4 C14'),
    'C15': ('other',
            'Abstract interpretation in a symbolic list-length / contiguous-run domain (loop handled by an '
            'automatically found difference invariant): the per-OMS map has exactly the length and index range its '
            'container demands for every band layout, usable runs sit exactly on the common bands, grid alignment '
            'keeps slot indices unique and contiguous; converter pair is inverse; OMS walk records every element.',
            'Assumes non-negative repeat counts and ordered bands; "exactly one OMS per element" needs the chain '
            'shape of the designed graph and is not decided.',
            'symbolic list-length and contiguous-run abstract interpretation + value graph + CFG ordering',
            'DESIGN.md 4 C15'),
    'C17': ('other',
            'Pairing on the flow graph (with exceptional edges) of every design-time caller of SimParams.set_params: '
            'both parameter groups are saved before the override and restored on every exit; settings classes export '
            'exactly their constructor parameters; each in-place increment of an exported element field in the design '
            'code must be a fix-point (the EOL margin on con_out is not: known finding, reported as KNOWN-FINDING); every '
            'key an element exports under params/operational is read by its parameter class or loader.',
            'Equality up to rounding of whole networks is not decided.',
            'CFG pairing/typestate with exceptional edges + export/constructor table agreement + guarded-increment rule',
            'DESIGN.md 4 C17'),
    'C18': ('other',
            'Table/sibling agreement over source and YANG models: converter/inverse pairing per document kind, twin '
            'key vocabulary and entry domain, written-back keys consumed by the loaders, PRECISION_DICT against all '
            '172 leaf names of gnpy-*.yang, every JSON read on the load path goes through load_gnpy_json, alias '
            'loops build a per-alias entry. Value-level round-trip equality is not decided.',
            'YANG parsed structurally (typedef/union resolved, no augments); "consumed" = key in a reading position '
            'in the loader class.',
            'table / sibling-implementation agreement + YANG schema cross-check + def-use on loader paths',
            'DESIGN.md 4 C18'),
    'C19': ('other',
            'Table agreement between what the planner computed and what the response/CSV state: the 11 metric entries '
            '(constant, receiver attribute of the last element of the given path, aggregate, rounding), direction of the '
            'two metric blocks, the blocking-reason dispatch with labels exactly for unblocked requests and transponder '
            'type/mode from the request, reader/writer agreement of metric strings and column alignment in jsontocsv, the '
            'pass flag (>= required OSNR incl. margin), aggregation bookkeeping, and per-request ownership of the reported '
            'element objects (deep copies).',
            'That the request object holds the selected mode is C13\'s flow and not re-decided here.',
            'table / reader-writer agreement over dict literals and column tuples + def-use of reported objects',
            'DESIGN.md 4 C19'),
    'C20': ('other',
            'Table and sibling agreement over the spreadsheet converters: four header tables against the row classes with '
            'east/west twins; the east and west element builders compared as ASTs under east<->west renaming and reading '
            'only their own side; empty-cell filter (0 is a value) and the west-defaults rule per row class; unit '
            'conversions, naming and synchronisation vectors of service rows; every collected error list reaches a '
            'NetworkTopologyError; an empty row is skipped, it does not end the sheet.',
            'Wiring for arbitrary degree mixes and name correction against the converted topology are not decided.',
            'AST mirror comparison of sibling functions + table agreement + row-loop structure',
            'DESIGN.md 4 C20'),
}

# generic analyses shared by many rule sets (gscan/memo.py, presence.py, carried.py, typedomain.py, fieldkey.py), all run on
# the canonicalised program model (gscan/canon.py)
_MP = ' + memoisation-soundness (key covers reads) and optional-numeric presence (is-None vs truthiness) analyses'
COMMON_TECH = {pid: _MP for pid in ('C01', 'C02', 'C03', 'C04', 'C05', 'C06', 'C07', 'C08', 'C09', 'C10', 'C11', 'C12', 'C13',
                                    'C14', 'C15', 'C16', 'C19')}
COMMON_TECH['C17'] = ' + optional-numeric presence analysis'
COMMON_TECH['C16'] += ' + must-definition dataflow for loop-carried locals'
COMMON_TECH['C19'] += ' + must-definition dataflow for loop-carried locals'
COMMON_TECH['C08'] += ' + finite-domain truth table of isinstance conditions over the element classes'
COMMON_TECH['C11'] += ' + finite-domain truth table of isinstance conditions over the element classes'
for _p in ('C04', 'C05', 'C06'):
    COMMON_TECH[_p] += ' + constructor field/key agreement table'

for _p in list(CHECKS) if isinstance(CHECKS, dict) else []:
    COMMON_TECH[_p] = COMMON_TECH.get(_p, '') + (' ; all rules run on a canonicalised program model (negation normal form, guard clauses vs nesting, loops vs '
                                               'comprehensions, helper inlining against a frozen table of the reference functions, temporaries '
                                               'written out by reaching definitions + purity summaries)')
COMMON_TECH['C08'] += ' + decision-table equivalence of calculate_new_length'
COMMON_TECH['C15'] = COMMON_TECH.get('C15', '') + ' + decision-table equivalence of find_common_range'
COMMON_TECH['C20'] = COMMON_TECH.get('C20', '') + ' + finite case analysis of the east / west equipment builders'
COMMON_TECH['C10'] += ' + truth-table equivalence of the permitted-set filters'

NOT_APPLICABLE = {}
for i in range(1, 21):
    pid = f'C{i:02d}'
    if pid not in CHECKS and not os.path.exists(os.path.join(HERE, 'gscan', 'rules', f'{pid.lower()}.py')):
        NOT_APPLICABLE[pid] = 'static rule set for this property is not built yet in this snapshot (see DESIGN.md 4)'


def main():
    man = {
        'version': 1,
        'setup_cmd': 'true',
        'hooks': {
            'guard': 'GNPY_VERIF',
            'enable': 'none needed: the checks are static analyses of the working tree, no instrumentation is '
                      'compiled in or switched on',
            'baseline_off_cmd': BASE.replace(' --junitxml=<file>', ''),
            'source_commits': [],
            'add_only': True,
        },
        'engines': [{
            'name': 'gscan',
            'path': 'gscan/',
            'serves_properties': sorted(CHECKS),
            'kind_free_text': 'repository-specific static analyser (pure-stdlib ast): program model + call resolution, '
                              'canonicalising front end, effect summaries, statement CFG/typestate, def-use, gated value graph '
                              'with rational normal form, memoisation / presence / loop-carried dataflow analyses, finite-domain '
                              'evaluation, table/YANG agreement',
        }],
        'checks': [],
        'not_applicable': [{'property_id': k, 'reason': v} for k, v in sorted(NOT_APPLICABLE.items())],
        'notes': 'All checks are static: they read /repo/gnpy (and gnpy/yang, docs) on every run, execute nothing '
                 'from it, exit 0/1/2 (2 = cannot analyse, never a pass). Known findings: known_findings.json.',
    }
    for pid, (cat, text, note, tech, ref) in sorted(CHECKS.items()):
        man['checks'].append({
            'property_id': pid,
            'quick_cmd': f'./vcheck {pid} --tier quick',
            'thorough_cmd': f'./vcheck {pid} --tier thorough',
            'evidence_file': f'/verif/evidence/{pid}.json',
            'replay_cmd_template': './vcheck replay {path}',
            'engine': 'gscan',
            'level_claimed': {'category': cat, 'text': text, 'design_ref': ref},
            'level_note': note,
            'technique': tech + COMMON_TECH.get(pid, ''),
        })
    with open(os.path.join(HERE, 'MANIFEST.json'), 'w') as fh:
        json.dump(man, fh, indent=1)
    print('MANIFEST.json:', len(man['checks']), 'checks,', len(man['not_applicable']), 'not applicable')


if __name__ == '__main__':
    main()
