"""Rational normal form over structured atoms (DESIGN 2.5, Appendix B).

Poly : dict monomial -> Fraction, monomial = sorted tuple of (atom_key, int exponent)
Rat  : num/den of Poly; equality by cross multiplication to the zero polynomial.
Atom : interned structured leaf (symbol, entry-state field, opaque/interpreted function application, gamma).

No solver, no search: this is value numbering with an algebraic normal form.
"""
from fractions import Fraction
import math

REG = {}          # atom key -> Atom


class Atom:
    __slots__ = ('kind', 'name', 'args', 'key')

    def __init__(self, kind, name, args, key):
        self.kind, self.name, self.args, self.key = kind, name, args, key

    def __repr__(self):
        return self.key


def vkey(v):
    """canonical text of an atom argument"""
    if isinstance(v, Rat):
        return v.key()
    if isinstance(v, (tuple, list)):
        return '[' + ','.join(vkey(x) for x in v) + ']'
    if hasattr(v, 'vkey'):
        return v.vkey()
    return repr(v)


def mk_atom(kind, name, args=()):
    args = tuple(args)
    key = name if kind in ('sym', 'fld') else f'{name}(' + ','.join(vkey(a) for a in args) + ')'
    a = REG.get(key)
    if a is None:
        a = REG[key] = Atom(kind, name, args, key)
    return a


class Poly:
    __slots__ = ('t',)

    def __init__(self, t=None):
        self.t = {k: v for k, v in (t or {}).items() if v != 0}

    @staticmethod
    def const(c):
        return Poly({(): Fraction(c)})

    @staticmethod
    def atom(key, e=1):
        return Poly({((key, e),): Fraction(1)})

    def __add__(self, o):
        t = dict(self.t)
        for k, v in o.t.items():
            t[k] = t.get(k, 0) + v
        return Poly(t)

    def __neg__(self):
        return Poly({k: -v for k, v in self.t.items()})

    def __sub__(self, o):
        return self + (-o)

    def __mul__(self, o):
        t = {}
        for k1, v1 in self.t.items():
            for k2, v2 in o.t.items():
                k = mono_mul(k1, k2)
                t[k] = t.get(k, 0) + v1 * v2
        return Poly(t)

    def scale(self, c):
        return Poly({k: v * c for k, v in self.t.items()})

    def is_zero(self):
        return not self.t

    def is_const(self):
        return all(k == () for k in self.t)

    def constval(self):
        return self.t.get((), Fraction(0))

    def single(self):
        return len(self.t) == 1

    def atoms(self):
        return {a for k in self.t for a, _ in k}

    def lead(self):
        k = max(self.t, key=mono_order)
        return k, self.t[k]

    def key(self):
        if not self.t:
            return '0'
        out = []
        for k in sorted(self.t, key=mono_order):
            v = self.t[k]
            m = '*'.join(a if e == 1 else f'{a}^{e}' for a, e in k)
            out.append(f'{v}' if not m else (m if v == 1 else f'{v}*{m}'))
        return ' + '.join(out)

    __repr__ = key


def mono_order(k):
    return (sum(abs(e) for _, e in k), k)


def mono_mul(k1, k2):
    if not k1:
        return k2
    if not k2:
        return k1
    d = dict(k1)
    for a, e in k2:
        d[a] = d.get(a, 0) + e
    return tuple(sorted((a, e) for a, e in d.items() if e))


def poly_divide_exact(a, b):
    """a / b if b divides a exactly (multivariate, lex leading term), else None"""
    if b.is_zero():
        return None
    q = Poly()
    r = a
    lk, lc = b.lead()
    guard = 0
    while not r.is_zero():
        guard += 1
        if guard > 200:
            return None
        rk, rc = r.lead()
        # monomial division rk / lk must have no negative exponents beyond those in rk
        d = dict(rk)
        ok = True
        for at, e in lk:
            if e > 0 and d.get(at, 0) < e:
                ok = False
                break
            d[at] = d.get(at, 0) - e
        if not ok:
            return None
        mk = tuple(sorted((at, e) for at, e in d.items() if e))
        term = Poly({mk: rc / lc})
        q = q + term
        r = r - term * b
    return q


class Rat:
    __slots__ = ('n', 'd')

    def __init__(self, n, d=None):
        if d is None:
            d = Poly.const(1)
        if d.is_zero():
            raise ZeroDivisionError('symbolic division by the zero polynomial')
        if d.single():       # fold a monomial denominator into the numerator
            (k, c), = d.t.items()
            if k or c != 1:
                inv = Poly({tuple((a, -e) for a, e in k): 1 / c})
                n, d = n * inv, Poly.const(1)
        elif n.is_zero():
            d = Poly.const(1)
        else:
            q = poly_divide_exact(n, d) if len(n.t) >= len(d.t) else None
            if q is not None:
                n, d = q, Poly.const(1)
            else:
                # normalise leading coefficient of the denominator to 1
                _, c = d.lead()
                if c != 1:
                    n, d = n.scale(1 / c), d.scale(1 / c)
        self.n, self.d = simplify_poly(n), simplify_poly(d)

    # constructors
    @staticmethod
    def const(c):
        return Rat(Poly.const(c))

    @staticmethod
    def of(atom):
        return Rat(Poly.atom(atom.key))

    @staticmethod
    def sym(name):
        return Rat.of(mk_atom('sym', name))

    # algebra
    def __add__(self, o):
        if self.d.is_const() and o.d.is_const() and self.d.constval() == 1 and o.d.constval() == 1:
            return Rat(self.n + o.n)
        if self.d.t == o.d.t:
            return Rat(self.n + o.n, self.d)
        return Rat(self.n * o.d + o.n * self.d, self.d * o.d)

    def __neg__(self):
        return Rat(-self.n, self.d)

    def __sub__(self, o):
        return self + (-o)

    def __mul__(self, o):
        return Rat(self.n * o.n, self.d * o.d)

    def inv(self):
        if self.n.is_zero():
            raise ZeroDivisionError('symbolic 1/0')
        return Rat(self.d, self.n)

    def __truediv__(self, o):
        return self * o.inv()

    def pow(self, k):
        if k < 0:
            return self.inv().pow(-k)
        r = Rat.const(1)
        for _ in range(k):
            r = r * self
        return r

    # queries
    def eq(self, o):
        return (self.n * o.d - o.n * self.d).is_zero()

    def is_zero(self):
        return self.n.is_zero()

    def is_const(self):
        return self.d.is_const() and self.n.is_const()

    def constval(self):
        return self.n.constval() / self.d.constval()

    def is_poly(self):
        return self.d.is_const()

    def atoms(self):
        return self.n.atoms() | self.d.atoms()

    def single_atom(self):
        """the Atom if this value is exactly one atom (coefficient 1, exponent 1) else None"""
        if self.d.is_const() and self.d.constval() == 1 and self.n.single():
            (k, c), = self.n.t.items()
            if c == 1 and len(k) == 1 and k[0][1] == 1:
                return REG[k[0][0]]
        return None

    def key(self):
        if self.d.is_const() and self.d.constval() == 1:
            return self.n.key()
        return f'({self.n.key()})/({self.d.key()})'

    __repr__ = key

    def all_atoms(self):
        """transitive closure of atoms, descending into atom arguments"""
        seen = {}

        def walk(v):
            if isinstance(v, Rat):
                for k in v.atoms():
                    if k not in seen:
                        a = REG[k]
                        seen[k] = a
                        for x in a.args:
                            walk(x)
            elif isinstance(v, (tuple, list)):
                for x in v:
                    walk(x)
        walk(self)
        return seen


def simplify_poly(p):
    """sqrt(a)^(2k) -> a^k   (only when a is a polynomial: keeps the result a Poly by re-multiplying)"""
    need = False
    for k in p.t:
        for a, e in k:
            if a.startswith('sqrt(') and abs(e) >= 2:
                need = True
    if not need:
        return p
    out = Poly()
    for k, c in p.t.items():
        term = Poly({(): c})
        rest = []
        for a, e in k:
            at = REG[a]
            if at.kind == 'fn' and at.name == 'sqrt' and abs(e) >= 2 and e > 0 and at.args[0].is_poly():
                arg = at.args[0]
                half, rem = divmod(e, 2)
                pw = arg.n.scale(1 / arg.d.constval())
                for _ in range(half):
                    term = term * pw
                if rem:
                    rest.append((a, 1))
            else:
                rest.append((a, e))
        term = term * Poly({tuple(sorted(rest)): Fraction(1)})
        out = out + term
    return out


# ----------------------------------------------------------------------------- lemmas
def fn(name, *args):
    return Rat.of(mk_atom('fn', name, args))


def C(c):
    return Rat.const(Fraction(c))


def lem_abs(x):
    """|c| folded; |-x| = |x| by canonical sign of the leading numerator monomial; |k*x| = |k|*|x|"""
    if x.is_const():
        return Rat.const(abs(x.constval()))
    if x.is_poly():
        _, c = x.n.lead()
        c = c / x.d.constval()
        x = Rat(x.n.scale(1 / (c * x.d.constval())))     # leading coefficient 1
        return Rat.const(abs(c)) * fn('abs', x)
    _, c = x.n.lead()
    if c < 0:
        x = -x
    return fn('abs', x)


def lem_min(a, b):
    if a.is_const() and b.is_const():
        return a if a.constval() <= b.constval() else b
    return (a + b - lem_abs(a - b)) * C(Fraction(1, 2))


def lem_max(a, b):
    if a.is_const() and b.is_const():
        return a if a.constval() >= b.constval() else b
    return (a + b + lem_abs(a - b)) * C(Fraction(1, 2))


_EXPLOG = {'exp10': ('log10', 10.0), 'exp': ('log', math.e)}
_LOGEXP = {'log10': ('exp10', 10.0), 'log': ('exp', math.e)}


def lem_exp(u, which='exp10'):
    """exp of a polynomial is split over its terms: exp(c + k*m + ...) = exp(c) * exp(m)^k ... with
    integer k pulled out and the sign canonicalised; anything else is an atom."""
    base = _EXPLOG[which][1]
    if not u.is_poly():
        return fn(which, u)
    dc = u.d.constval()
    res = C(1)
    for k, c in sorted(u.n.t.items(), key=lambda kv: mono_order(kv[0])):
        c = c / dc
        if k == ():
            if which == 'exp10' and c.denominator == 1 and abs(c) < 40:
                res = res * Rat.const(Fraction(10) ** int(c))
            elif c < 0:
                res = res * fn(which, Rat.const(-c)).pow(-1)       # exp(-c) = exp(c)^-1 (canonical sign)
            else:
                res = res * fn(which, Rat.const(c))
            continue
        e = 1
        if c.denominator == 1:
            e, c = int(c), Fraction(1)
        elif which == 'exp10' and c.denominator in (5, 10) and abs(c * 10) <= 6:
            e, c = int(c * 10), Fraction(1, 10)          # dB idiom: exp10(2x/10) = exp10(x/10)^2
        elif c < 0:
            e, c = -1, -c
        # exp(log(x)) = x
        if c == 1 and len(k) == 1 and k[0][1] == 1:
            at = REG[k[0][0]]
            if at.kind == 'fn' and at.name == _EXPLOG[which][0] and isinstance(at.args[0], Rat):
                res = res * at.args[0].pow(e)
                continue
        res = res * fn(which, Rat(Poly({k: c}))).pow(e)
    return res


def lem_log(x, which='log10'):
    """log of a single monomial: sum of exponents * log(atom); log(exp(u)) = u; log10(10^k) = k"""
    expn, base = _LOGEXP[which]
    if x.d.is_const() and x.n.single():
        (k, c), = x.n.t.items()
        c = c / x.d.constval()
        if c <= 0:
            return fn(which, x)
        res = C(0)
        if c != 1:
            lc = math.log(float(c), base)
            if abs(lc - round(lc)) < 1e-12 and which == 'log10':
                res = C(round(lc))
            else:
                res = fn(which, Rat.const(c))
        for a, e in k:
            at = REG[a]
            if at.kind == 'fn' and at.name == expn:
                res = res + at.args[0] * C(e)
            else:
                res = res + fn(which, Rat.of(at)) * C(e)
        return res
    return fn(which, x)


def lem_odd(name, x):
    """odd function (asinh, sinh, tanh, ...): f(-x) = -f(x) by canonical sign of the leading numerator monomial"""
    if x.is_zero():
        return C(0)
    _, c = x.n.lead()
    dl = x.d.lead()[1] if not x.d.is_const() else x.d.constval()
    if (c < 0) != (dl < 0):
        return -fn(name, -x)
    return fn(name, x)


def lem_cut(x):
    """row (cut-channel) role of a per-channel quantity: outer(x, ones(n))[c, p] = x[c].  Distributes over the
    algebra, so it is applied atom by atom; constants are unaffected."""
    def f(a):
        if a.kind == 'fn' and a.name == 'cut':
            return Rat.of(a)
        if a.kind == 'sym' and (a.name.endswith('#scalar') or a.name == 'pi'):
            return Rat.of(a)
        return fn('cut', Rat.of(a))
    return subst_shallow(x, f)


def subst_shallow(v, f):
    """apply f to the top-level atoms of v only (no descent into atom arguments)"""
    def sp(poly):
        out = C(0)
        for k, c in poly.t.items():
            term = Rat.const(c)
            for a, e in k:
                term = term * f(REG[a]).pow(e)
            out = out + term
        return out
    if v.d.is_const():
        return sp(v.n) * Rat.const(1 / v.d.constval())
    return sp(v.n) / sp(v.d)


def lem_sqrt(x):
    if x.is_const():
        v = x.constval()
        r = Fraction(math.isqrt(v.numerator), math.isqrt(v.denominator)) if v >= 0 else None
        if r is not None and r * r == v:
            return Rat.const(r)
    return fn('sqrt', x)


def lem_pow(a, b):
    if b.is_const():
        v = b.constval()
        if v.denominator == 1 and abs(v) <= 12:
            return a.pow(int(v))
        if v == Fraction(1, 2):
            return lem_sqrt(a)
    if a.is_const() and a.constval() == 10:
        return lem_exp(b, 'exp10')
    return fn('pow', a, b)


def gamma(cond, a, b):
    """gated merge; cond is a canonical condition text"""
    if isinstance(a, Rat) and isinstance(b, Rat) and a.eq(b):
        return a
    return Rat.of(mk_atom('gamma', 'gamma', (cond, a, b)))


# ----------------------------------------------------------------------------- substitution
def subst(v, f):
    """rebuild v with f(Atom)->Rat|None applied to every atom, recursing into atom arguments
    (arguments are rebuilt through the lemma constructors so normal forms are re-established)."""
    if isinstance(v, tuple):
        return tuple(subst(x, f) for x in v)
    if isinstance(v, list):
        return [subst(x, f) for x in v]
    if not isinstance(v, Rat):
        return v
    cache = {}

    def atom_val(key):
        if key in cache:
            return cache[key]
        a = REG[key]
        r = f(a)
        if r is None:
            if a.args:
                nargs = tuple(subst(x, f) for x in a.args)
                if any(vkey(x) != vkey(y) for x, y in zip(nargs, a.args)):
                    r = rebuild(a, nargs)
            if r is None:
                r = Rat.of(a)
        cache[key] = r
        return r

    def sp(poly):
        out = C(0)
        for k, c in poly.t.items():
            term = Rat.const(c)
            for a, e in k:
                term = term * atom_val(a).pow(e)
            out = out + term
        return out
    if v.d.is_const():
        return sp(v.n) * Rat.const(1 / v.d.constval())
    return sp(v.n) / sp(v.d)


def rebuild(a, nargs):
    if a.kind == 'gamma':
        return gamma(nargs[0], nargs[1], nargs[2])
    if a.kind == 'fn':
        n = a.name
        if n == 'abs':
            return lem_abs(nargs[0])
        if n in _EXPLOG:
            return lem_exp(nargs[0], n)
        if n in _LOGEXP:
            return lem_log(nargs[0], n)
        if n == 'sqrt':
            return lem_sqrt(nargs[0])
        if n in ('asinh',):
            return lem_odd(n, nargs[0])
        if n == 'cut' and isinstance(nargs[0], Rat):
            return lem_cut(nargs[0])
        if n == 'pow':
            return lem_pow(nargs[0], nargs[1])
    return Rat.of(mk_atom(a.kind, a.name, nargs))


def restrict(v, assume):
    """resolve gamma atoms whose condition text is in assume {cond: bool} (recursively)"""
    for _ in range(20):
        hit = [False]

        def f(a):
            if a.kind == 'gamma' and a.args[0] in assume:
                hit[0] = True
                return a.args[1] if assume[a.args[0]] else a.args[2]
            return None
        v = subst(v, f)
        if not hit[0]:
            break
    return v


def gamma_conds(v):
    out = set()
    if isinstance(v, (tuple, list)):
        for x in v:
            out |= gamma_conds(x)
        return out
    if isinstance(v, Rat):
        for a in v.all_atoms().values():
            if a.kind == 'gamma':
                out.add(a.args[0])
    return out
