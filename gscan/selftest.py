"""Checker self-validation (DESIGN 3.4, thorough tier only).

For the property under test: a list of MUTANTS (one instance of one rule broken; the check must report a VIOLATION)
and a list of REFACTORS (behaviour-preserving edits; the check must stay silent).  Every variant is a textual edit
applied to a scratch copy of the working tree under a fresh mkdtemp outside /repo and /verif, removed afterwards.
The outcome is recorded in the evidence and never changes the verdict on the real tree.  A variant whose anchor text
is no longer in the tree is skipped and reported as such.
"""
import os
import shutil
import subprocess
import tempfile
import sys
from concurrent.futures import ThreadPoolExecutor

HERE = os.path.dirname(os.path.dirname(os.path.abspath(__file__)))
SA = 'gnpy/topology/spectrum_assignment.py'
EL = 'gnpy/core/elements.py'
NW = 'gnpy/core/network.py'
INFO = 'gnpy/core/info.py'
SU = 'gnpy/core/science_utils.py'
RQ = 'gnpy/topology/request.py'
JIO = 'gnpy/tools/json_io.py'
YCU = 'gnpy/tools/yang_convert_utils.py'
CLY = 'gnpy/tools/convert_legacy_yang.py'
CV = 'gnpy/tools/convert.py'
SS = 'gnpy/tools/service_sheet.py'
UT = 'gnpy/core/utils.py'
PA = 'gnpy/core/parameters.py'
WU = 'gnpy/tools/worker_utils.py'

M, R = 'mutants', 'refactors'
VARIANTS = {
 'C01': {M: [
    (INFO, "        self._nli_ratio *= self.pch / pch\n", "", 'NLI share not rescaled when ASE is added'),
    (INFO, "nli_ratio=spectrum._nli_ratio[select]", "nli_ratio=spectrum._ase_ratio[select]", 'demux maps nli from ase'),
    (INFO, "self._signal_ratio / (self._ase_ratio + self._nli_ratio)", "self._signal_ratio / (self._ase_ratio + 2 * self._nli_ratio)", 'gsnr formula'),
    (EL, "self.raw_snr = spectral_info.gsnr_db", "self.raw_snr = spectral_info.snr_lin_db", 'receiver records the wrong figure'),
    (INFO, "        self._baud_rate = baud_rate[indices]", "        self._baud_rate = baud_rate", 'one array left unsorted'),
    (EL, "        spectral_info.apply_attenuation_db(self.loss)\n", "        spectral_info.apply_attenuation_db(self.loss)\n        spectral_info._nli_ratio = spectral_info._nli_ratio * 0.99\n", 'foreign store to a share'),
    (INFO, "muxed_spectral_information(input_si_list[1:])", "muxed_spectral_information(input_si_list[-1:])", 'mux drops middle bands'),
  ], R: [
    (INFO, "        pch = self.pch + ase\n        self._signal_ratio *= self.pch / pch", "        pch = self.pch + ase\n        total = pch\n        self._signal_ratio = self._signal_ratio * self.pch / total", 'temporary + explicit multiply'),
    (INFO, "        nli_ratio = nli / self.pch\n", "        nli_ratio = nli * (1 / self.pch)\n", 'reciprocal multiply'),
    (INFO, "        return lin2db(self.gsnr)", "        g = self.gsnr\n        return lin2db(g)", 'hoisted temporary'),
  ]},
 'C02': {M: [
    (EL, "        spectral_info.apply_attenuation_db(self.loss)\n", "        spectral_info.apply_attenuation_db(self.loss)\n        spectral_info.apply_gain_db(0.0)\n", 'passive element reaches a gain'),
    (SU, "        psi *= effective_length ** 2 / (2 * pi * abs(beta2) * asymptotic_length)", "        psi *= effective_length ** 2 / (2 * pi * beta2 * asymptotic_length)", '|beta2| dropped in the scale'),
    (EL, "        ase = h * spectral_info.baud_rate * spectral_info.frequency * db2lin(self.nf)  # W", "        ase = h * spectral_info.baud_rate * spectral_info.frequency * (db2lin(self.nf) - 1)  # W", 'ASE not positive by form'),
    (SU, " * cr[:, i] * (df > 0) * integral", " * cr[:, i] * integral", 'Raman ASE mask dropped'),
  ], R: [
    (EL, "        ase = h * spectral_info.baud_rate * spectral_info.frequency * db2lin(self.nf)  # W", "        ase = db2lin(self.nf) * spectral_info.frequency * spectral_info.baud_rate * h  # W", 'commuted factors'),
  ]},
 'C03': {M: [
    (SU, "    XPM_WEIGHT = 2 * (16.0 / 27.0)", "    XPM_WEIGHT = 2 * (16.0 / 27.0) * 1.001", 'XPM weight'),
    (SU, "        pump_baud_rate = baud_rate\n        pump_beta", "        pump_baud_rate = cut_baud_rate\n        pump_beta", 'pump baud rate replaced by cut'),
    (SU, "            nli_matrix = cut_power * pump_power ** 2 * eta", "            nli_matrix = cut_power ** 2 * pump_power * eta", 'P_c^2 P_p'),
    (SU, "psi / (cut_baud_rate * pump_baud_rate ** 2)", "psi / (pump_baud_rate * cut_baud_rate ** 2)", 'cut/pump swap in eta'),
    (SU, "        beta2 = (cut_beta + pump_beta) / 2\n", "        beta2 = cut_beta\n", 'beta2 of the cut channel only'),
  ], R: [
    (SU, "        psi *= effective_length ** 2 / (2 * pi * abs(beta2) * asymptotic_length)", "        scale = effective_length * effective_length / (asymptotic_length * abs(beta2) * pi * 2)\n        psi = psi * scale", 'hoisted scale'),
    (SU, "        right_extreme = df + pump_baud_rate / 2\n", "        right_extreme = pump_baud_rate / 2 + df\n", 'commuted sum'),
  ]},
 'C04': {M: [
    (EL, "            nf_avg = lin2db(db2lin(nf1_avg) + db2lin(nf2_avg - g1))", "            nf_avg = lin2db(db2lin(nf1_avg) + db2lin(nf2_avg - g2))", 'second stage referred through the wrong gain'),
    (EL, "                                    self.params.booster_gain_flatmax,\n                                    g2)", "                                    self.params.booster_gain_flatmax,\n                                    g1)", 'booster evaluated at the preamp gain'),
    (EL, "            nf2_avg, pad = self._nf(self.params.booster_type_def,\n                                    self.params.booster_nf_model,", "            nf2_avg, pad = self._nf(self.params.booster_type_def,\n                                    self.params.preamp_nf_model,", 'booster uses the preamp NF model'),
    (EL, "        self.pin_db = watt2dbm(spectral_info.ptot)", "        self.pin_db = watt2dbm(max(spectral_info.pch))", 'clamp on the strongest channel'),
    (EL, "            g1a = gain_target - nf_model.delta_p - dg", "            g1a = gain_target - nf_model.delta_p + dg", 'sign of dg'),
    (SU, "    g1a_max = gain_max - delta_p\n    nf2", "    g1a_max = gain_max\n    nf2", 'loader coil model'),
    (EL, "ase = h * spectral_info.baud_rate * spectral_info.frequency", "ase = h * spectral_info.slot_width * spectral_info.frequency", 'ASE bandwidth'),
    (EL, "            self.params.p_max - self.pin_db\n        )", "            max(self.params.p_max - self.pin_db, 0)\n        )", 'clamp floored at 0'),
    (EL, "        spectral_info.apply_gain_db(self.gprofile - self.out_voa)", "        spectral_info.apply_gain_db(self.gprofile)", 'output VOA ignored'),
  ], R: [
    (EL, "            nf_avg = lin2db(db2lin(nf1_avg) + db2lin(nf2_avg - g1))", "            nf_avg = lin2db(db2lin(nf1_avg) + db2lin(nf2_avg) / db2lin(g1))", 'Friis written as a quotient'),
    (EL, "        self.effective_gain = min(\n            self.effective_gain,\n            self.params.p_max - self.pin_db\n        )", "        headroom = self.params.p_max - self.pin_db\n        self.effective_gain = min(headroom, self.effective_gain)", 'hoisted headroom'),
    (EL, "        pad = max(gain_min - gain_target, 0)\n        gain_target += pad", "        pad = max(0, gain_min - gain_target)\n        gain_target = gain_target + pad", 'commuted max, explicit add'),
  ]},
 'C05': {M: [
    (SU, "        z, inverse = unique(concatenate((z_lumped_losses, z)), return_inverse=True)\n        # losses located at the same position are cumulated\n        merged_losses = ones(z.size)\n        for i, lumped_loss in zip(inverse, lumped_losses):\n            merged_losses[i] *= lumped_loss\n        return z, merged_losses", "        z, unique_indices = unique(concatenate((z_lumped_losses, z)), return_index=True)\n        return z, lumped_losses[unique_indices]", 'F13 reverted: first lumped loss per position only'),
    (EL, "    @property\n    def pmd(self):\n        \"\"\"differential group delay (PMD) [s]\"\"\"", "    @__import__('functools').cached_property\n    def pmd(self):\n        \"\"\"differential group delay (PMD) [s]\"\"\"", 'span PMD cached although the length can change (split_fiber)'),
    (EL, "        beta2 = -((c / frequency) ** 2 * dispersion) / (2 * pi * c)", "        beta2 = -((c / frequency) ** 2 * dispersion) / (2 * pi)", 'beta2 conversion loses a factor c'),
    (EL, "                dispersion = (frequency / self.params.f_dispersion_ref) ** 2 * self.params.dispersion", "                dispersion = (frequency / self.params.f_dispersion_ref) * self.params.dispersion", 'dispersion scaled linearly with frequency'),
    (EL, "        return dispersion * length\n", "        return dispersion * length ** 2 / 80000\n", 'CD not proportional to length'),
    (EL, "        beta = beta2 + 2 * pi * beta3 * (freq - ref_f)", "        beta = beta2 + 2 * pi * beta3 * freq", 'third-order term does not vanish at the reference'),
    (EL, "        attenuation_in_db = self.params.con_in + self.params.att_in\n        spectral_info.apply_attenuation_db(attenuation_in_db)\n\n        # Raman pumps", "        attenuation_in_db = self.params.con_in\n        spectral_info.apply_attenuation_db(attenuation_in_db)\n\n        # Raman pumps", 'padding not applied in RamanFiber'),
    (EL, "        spectral_info.latency += self.params.latency", "        spectral_info.latency = self.params.latency", 'latency overwritten'),
    (EL, "        spectral_info.pdl = sqrt(spectral_info.pdl ** 2 + self.params.pdl ** 2)", "        spectral_info.pdl = spectral_info.pdl + self.params.pdl", 'PDL added linearly'),
    (EL, "            self.params.con_in + self.params.con_out + self.params.att_in + sum(lin2db(1 / self.lumped_losses))", "            self.params.con_in + self.params.con_out + sum(lin2db(1 / self.lumped_losses))", 'loss budget misses padding'),
  ], R: [
    (EL, "        dispersion = -beta * 2 * pi * ref_f**2 / c\n        return dispersion * length", "        per_metre = -2 * pi * beta * ref_f * ref_f / c\n        return length * per_metre", 'CD: renamed temporary, commuted'),
    (EL, "        attenuation_out_db = self.params.con_out\n        spectral_info.apply_attenuation_db(attenuation_out_db)\n        self.pch_out_dbm = spectral_info.pch_dbm\n        self.propagated_labels = spectral_info.label\n\n    def __call__", "        spectral_info.apply_attenuation_db(self.params.con_out)\n        self.pch_out_dbm = spectral_info.pch_dbm\n        self.propagated_labels = spectral_info.label\n\n    def __call__", 'inlined temporary'),
  ]},
 'C06': {M: [
    (NW, "            if roadm.params.target_pch_out_db is not None:\n                roadm.per_degree_pch_out_dbm", "            if roadm.params.target_pch_out_db:\n                roadm.per_degree_pch_out_dbm", 'truthiness test on a numeric target'),
    (EL, "        new_target = target_power_per_channel - correction", "        new_target = target_power_per_channel", 'correction dropped'),
    (EL, "            return psd2powerdbm(self.per_degree_pch_psw[degree], spectral_info.slot_width)", "            return psd2powerdbm(self.per_degree_pch_psw[degree], spectral_info.baud_rate)", 'psw scaled by baud rate'),
    (EL, "        per_degree_pch = self.get_per_degree_power(degree, spectral_info=spectral_info)", "        per_degree_pch = self.get_per_degree_power(from_degree, spectral_info=spectral_info)", 'target of the ingress degree'),
  ], R: [
    (EL, "        delta_power = net_input_pch_dbm - new_target\n", "        delta_power = -(new_target - net_input_pch_dbm)\n", 'negated difference'),
  ]},
 'C07': {M: [
    (INFO, "        exceed = self._baud_rate > self._slot_width", "        exceed = baud_rate > self._slot_width", 'unsorted baud rate in the rejection'),
    (EL, "                si = amp(si)\n                out_si.append(si)", "                amp(si)\n                out_si.append(si)", 'input collected instead of output'),
    (INFO, "(frequency - slot_width / 2 >= band['f_min'])", "(frequency >= band['f_min'])", 'centre frequency instead of slot edge'),
    (UT, "        if amp not in unique_amp_bands:\n            unique_amp_bands.append(amp)", "        if amp[0] not in [u[0] for u in unique_amp_bands]:\n            unique_amp_bands.append(amp)", 'partial-key de-duplication'),
  ], R: [
    (RQ, "    si = filter_si(path, equipment, si)\n    roadm_osnr = []", "    roadm_osnr = []\n    si = filter_si(path, equipment, si)", 'reordered independent statements'),
  ]},
 'C08': {M: [
    (NW, "first_fiber.params.att_in = first_fiber.params.att_in + padding - this_span_loss", "first_fiber.params.att_in = padding - this_span_loss", 'padding overwrites att_in'),
    (NW, "    elif length2 - target_length <= target_length - length1 and length2 <= bounds.stop:", "    elif length2 - target_length <= target_length - length1:", 'longer candidate unguarded'),
    (NW, "        network.add_edge(roadm, amp, weight=0.01)\n        network.add_edge(amp, next_node, weight=0.01)", "        network.add_edge(roadm, amp, weight=0.01)", 'booster not linked to the next node'),
    (NW, "        network.add_edge(fiber, amp, weight=fiber.params.length)", "        network.add_edge(fiber, amp, weight=0.01)", 'fibre edge without its length'),
  ], R: [
    (NW, "    node.effective_gain = gain_target\n    node.tilt_target = _tilt_target", "    node.tilt_target = _tilt_target\n    node.effective_gain = gain_target", 'reordered stores'),
  ]},
 'C09': {M: [
    (NW, "        gain_target = node_loss + deviation_db + dp - prev_dp + prev_voa + in_voa", "        gain_target = node_loss + deviation_db + dp - prev_dp - prev_voa + in_voa", 'sign of prev_voa'),
    (NW, "            amp.delta_p = amp.delta_p + voa\n", "", 'VOA not added to delta_p'),
    (NW, "            power_reduction = min(0, p_max - (pref_total_db + dp))", "            power_reduction = min(0, p_max - (pref_ch_db + dp))", 'saturation on per-channel power'),
    (NW, "        dp = max(dp_range[0], dp)\n        dp = min(dp_range[1], dp)", "        dp = max(dp_range[0], dp)", 'upper clamp dropped'),
    (NW, "    gain += sum(estimate_raman_gain(n, equipment, input_power) for n in next_node_generator(network, node))\n", "", 'Raman gain of the successors dropped'),
    (NW, "    loss += sum(n.loss for n in prev_node_generator(network, node))\n    loss += sum(n.loss for n in next_node_generator(network, node))", "    loss += sum(n.loss for n in next_node_generator(network, node))\n    loss += sum(n.loss for n in next_node_generator(network, node))", 'successors counted twice, predecessors never'),
  ], R: [
    (NW, "    gain = estimate_raman_gain(node, equipment, input_power)\n    gain += sum(estimate_raman_gain(n, equipment, input_power) for n in prev_node_generator(network, node))\n    gain += sum(estimate_raman_gain(n, equipment, input_power) for n in next_node_generator(network, node))\n    return loss - gain", "    loss -= estimate_raman_gain(node, equipment, input_power)\n    loss -= sum(estimate_raman_gain(n, equipment, input_power) for n in next_node_generator(network, node))\n    loss -= sum(estimate_raman_gain(n, equipment, input_power) for n in prev_node_generator(network, node))\n    return loss", 'span_loss: gains subtracted in place, other order'),
    (NW, "    power_target = pref_total_db + dp\n", "    power_target = dp + pref_total_db\n", 'commuted sum'),
    (NW, "        dp = max(dp_range[0], dp)\n        dp = min(dp_range[1], dp)", "        dp = min(dp_range[1], max(dp_range[0], dp))", 'nested clamp'),
  ]},
 'C10': {M: [
    (NW, "a.f_min <= band['f_min'] and a.f_max >= band['f_max'])", "a.f_min <= band['f_min'] and a.f_max >= band['f_min'])", 'upper edge unchecked'),
    (NW, "    selected_edfa = min(acceptable_power_list, key=attrgetter('nf'))", "    selected_edfa = acceptable_power_list[0]", 'first instead of quietest'),
    (NW, "        gain_min=gain_target - edfa.gain_min,", "        gain_min=gain_target + 3 - edfa.gain_min,", 'Raman gets the EDFA allowance'),
    (NW, "    elif isinstance(prev_node, elements.Roadm) and prev_node.restrictions['booster_variety_list']:\n        # implementation of restrictions on roadm boosters\n        restrictions = prev_node.restrictions['booster_variety_list']", "    elif isinstance(prev_node, elements.Roadm) and prev_node.restrictions['preamp_variety_list']:\n        # implementation of restrictions on roadm boosters\n        restrictions = prev_node.restrictions['preamp_variety_list']", 'booster/preamp lists swapped'),
  ], R: [
    (NW, "    acceptable_power_list = [x for x in acceptable_gain_min_list if x.power > 0]", "    acceptable_power_list = [amp for amp in acceptable_gain_min_list if amp.power > 0]", 'renamed comprehension variable'),
  ]},
 'C11': {M: [
    (RQ, "                    pathreq.loose_list.pop(pathreq.nodes_list.index(n_id))", "                    pathreq.loose_list.pop(i)", 'snapshot index'),
    (RQ, "        if 'STRICT' not in req.loose_list[:-1]:", "        if 'STRICT' not in req.loose_list[:-1] or True:", 'STRICT ignored'),
    (RQ, "        path_generator = shortest_simple_paths(network, source, destination, weight='weight')", "        path_generator = shortest_simple_paths(network, source, destination)", 'hop count instead of length'),
    (RQ, "        req.blocking_reason = 'NO_PATH'\n", "        req.blocking_reason = 'NO_ROUTE'\n", 'unknown blocking reason'),
  ], R: [
    (RQ, "    trx = [n for n in network if isinstance(n, Transceiver)]\n    source = next(el for el in trx if el.uid == req.source)", "    trx = [node for node in network if isinstance(node, Transceiver)]\n    source = next(el for el in trx if el.uid == req.source)", 'renamed comprehension variable'),
  ]},
 'C12': {M: [
    (RQ, "                        all_disjoint += isdisjoint(pth1, pth) + isdisjoint(pth1_reversed, pth)", "                        all_disjoint += isdisjoint(pth1, pth)", 'reverse direction not tested'),
    (RQ, "                    if all_disjoint == 0:\n                        temp2.append(pth1)\n                        temp.append(temp2)", "                    temp2.append(pth1)\n                    temp.append(temp2)", 'extension unguarded'),
    (RQ, "            if set(elem.disjunctions_req) == set(dis_elem.disjunctions_req) and \\", "            if set(elem.disjunctions_req) <= set(dis_elem.disjunctions_req) and \\", 'subset instead of equality'),
    (RQ, "                                              cutoff=80))", "                                              cutoff=8))", 'cut-off'),
  ], R: [
    (RQ, "                    temp2 = cndt.copy()\n                    all_disjoint = 0", "                    all_disjoint = 0\n                    temp2 = cndt.copy()", 'reordered independent statements'),
  ]},
 'C13': {M: [
    (EL, "        self.snr = snr_sum(self.raw_snr, self.baud_rate, snr_added)", "        self.snr = snr_sum(self.snr, self.baud_rate, snr_added)", 'accumulating update'),
    (RQ, "                    del roadm_osnr[-1]\n", "", 'transmitter OSNR left in the list'),
    (RQ, "                if round(snr01nm_with_penalty[min_ind], 2) < pathreq.OSNR + equipment['SI']['default'].sys_margins:\n                    msg = f'\\tWarning! Request {pathreq.request_id} computed path from' \\\n                        + f' {pathreq.source} to", "                if round(snr01nm_with_penalty[min_ind], 2) < pathreq.OSNR:\n                    msg = f'\\tWarning! Request {pathreq.request_id} computed path from' \\\n                        + f' {pathreq.source} to", 'margin dropped from the verdict'),
    (EL, "                      left=float('inf'), right=float('inf'))", "                      left=float('inf'))", 'no penalty beyond the table'),
    (JIO, "                    imp_penalties.sort(key=lambda i: i[impairment])\n", "", 'penalty rows not sorted'),
    (JIO, "                    if all(p[impairment] > 0 for p in imp_penalties):", "                    if any(p[impairment] > 0 for p in imp_penalties):", 'lower boundary added when any boundary is positive'),
    (JIO, "                        'penalty_value': [p['penalty_value'] for p in imp_penalties]", "                        'penalty_value': [p['penalty_value'] for p in penalties if impairment in p]", 'penalties read from the unsorted rows'),
  ], R: [
    (JIO, "                    if all(p[impairment] > 0 for p in imp_penalties):", "                    if all([row[impairment] > 0 for row in imp_penalties]):", 'list comprehension, renamed variable'),
    (EL, "        snr_added = -lin2db(snr_added)\n", "        snr_added = lin2db(1 / snr_added)\n", 'log of the reciprocal'),
  ]},
 'C14': {M: [
    (SA, "    bitmap = list(spectrum.bitmap)", "    bitmap = spectrum.bitmap", 'scratch aliases the real bitmap'),
    (SA, "            if remaining_slots_to_serve > 0:", "            if remaining_slots_to_serve > 0 and not rq.M:", 'guard weakened'),
    (SA, "    stopn = nvalue + mvalue - 1", "    stopn = nvalue + mvalue", 'slot range off by one'),
    (SA, "        if startn <= self.spectrum_bitmap.n_min:", "        if startn < self.spectrum_bitmap.n_min:", 'bound strictness'),
    (SA, "            path_oms = build_path_oms_id_list(pth + rpth)", "            path_oms = build_path_oms_id_list(pth)", 'reverse path ignored'),
    (SA, "        return candidates[0]", "        return candidates[-1]", 'first fit returns the last'),
    (SA, "freq_index[i], freq_index[i] + 2 * requested_m - 1)", "freq_index[i], freq_index[i] + 2 * requested_m)", 'granted stop one past the tested window'),
    (SA, "        if (freq_availability[i - requested_m:i + requested_m] == [BitmapValue.FREE] * (2 * requested_m)", "        if (freq_availability[i - requested_m:i + requested_m - 1] == [BitmapValue.FREE] * (2 * requested_m - 1)", 'fixed N: last slot untested'),
    (SA, "           and freq_index[center_i + i - 1] <= freq_index_max", "           and freq_index[center_i + i - 2] <= freq_index_max", 'probe: upper guard band one slot short'),
    (SA, "    return i - per_channel_m", "    return i", 'probe returns the width that failed'),
    (SA, "                      and freq_index[i] >= freq_index_min\n", "", 'free search: lower guard band unchecked'),
    (SA, "            available_slots = determine_slot_numbers(test_oms, n, m, m)", "            available_slots = determine_slot_numbers(test_oms, n, m, per_channel_m)", 'fixed slot probed partially'),
  ], R: [
    (SA, "def frequency_to_n(", "@__import__('functools').lru_cache(maxsize=None)\ndef frequency_to_n(", 'pure helper under lru_cache: a sound memo'),
    (SA, "                      if freq_availability[i:i + 2 * requested_m] == [BitmapValue.FREE] * (2 * requested_m)\n                      and freq_index[i] >= freq_index_min\n                      and freq_index[i + 2 * requested_m - 1] <= freq_index_max]", "                      if freq_index[i] >= freq_index_min\n                      and freq_index_max >= freq_index[2 * requested_m + i - 1]\n                      and [BitmapValue.FREE] * (requested_m * 2) == freq_availability[i:i + requested_m * 2]]", 'conjuncts reordered, comparisons flipped'),
    (SA, "        if startn <= self.spectrum_bitmap.n_min:", "        if startn - 1 < self.spectrum_bitmap.n_min:", 'equivalent integer comparison'),
    (SA, "    bitmap = list(spectrum.bitmap)", "    bitmap = spectrum.bitmap.copy()", 'copy idiom'),
    (SA, "    bitmap = list(spectrum.bitmap)", "    bitmap = spectrum.bitmap[:]", 'copy idiom'),
  ]},
 'C15': {M: [
    (SA, "    n_max = frequency_to_n(f_max, grid)\n    common_range", "    n_max = frequency_to_n(f_max, grid) - 1\n    common_range", 'map one slot short'),
    (SA, "list(range(self.n_max + 1, self.n_max + len(newbitmap) + 1))", "list(range(self.n_max, self.n_max + len(newbitmap)))", 'duplicate index'),
    (SA, "            + [BitmapValue.UNUSABLE] * (band_n_min - band0_n_max - 1) \\", "            + [BitmapValue.UNUSABLE] * (band_n_min - band0_n_max) \\", 'gap off by one'),
    (SA, "    return 193.1e12 + nvalue * grid", "    return 193.0e12 + nvalue * grid", 'grid anchor'),
    (SA, "                    nd_out.oms = oms\n", "", 'element left without its OMS'),
    (SA, "        if (n_max - this_o.spectrum_bitmap.n_max) > 0:", "        elif (n_max - this_o.spectrum_bitmap.n_max) > 0:", 'right pad skipped after a left pad'),
  ], R: [
    (SA, "def frequency_to_n(", "@__import__('functools').lru_cache(maxsize=None)\ndef frequency_to_n(", 'pure helper under lru_cache: a sound memo'),
    (SA, "    bitmap = bitmap + [BitmapValue.UNUSABLE] * (n_max - band0_n_max)\n    return bitmap", "    tail = [BitmapValue.UNUSABLE] * (n_max - band0_n_max)\n    return bitmap + tail", 'hoisted tail'),
  ]},
 'C16': {M: [
    (RQ, "                rev_p = deepcopy(reversed_path)", "                rev_p = list(reversed_path)", 'shallow copy of the reverse path'),
    (RQ, "        total_path = deepcopy(pathlist[i])", "        total_path = pathlist[i]", 'no copy'),
    (EL, "        self.pch_out_dbm = spectral_info.pch_dbm\n\n        # Update the loss per channel and the labels", "        self.pch_out_dbm = spectral_info.pch_dbm\n        self.params.pmd = self.params.pmd + 0\n        Roadm.last_seen = self.uid\n\n        # Update the loss per channel and the labels", 'class attribute written during propagation'),
  ], R: [
    (RQ, "        total_path = deepcopy(pathlist[i])\n        msg = msg +", "        chosen = pathlist[i]\n        total_path = deepcopy(chosen)\n        msg = msg +", 'temporary before the copy'),
  ]},
 'C17': {M: [
    (EL, "'gain_target': round(amp.effective_gain, 6) if amp.effective_gain is not None else None,", "'gain_target': round(amp.effective_gain, 6) if amp.effective_gain else None,", 'F12 reverted: 0 dB gain exported as None'),
    (NW, "        try:\n            stimulated_raman_scattering = RamanSolver.calculate_stimulated_raman_scattering(spectral_info, node)\n        finally:\n            SimParams.set_params(save_sim_params)", "        stimulated_raman_scattering = RamanSolver.calculate_stimulated_raman_scattering(spectral_info, node)\n        SimParams.set_params(save_sim_params)", 'restore only on the normal path'),
    (PA, '                "order": self.order,\n', '', 'exported settings incomplete'),
    (EL, "                'out_voa': self.out_voa,\n                'in_voa': self.in_voa", "                'out_voa': self.operational.out_voa,\n                'in_voa': self.in_voa", 'exports the input VOA, not the designed one'),
    (NW, "    return dp, voa\n\n\ndef get_node_restrictions", "    return dp, node.out_voa\n\n\ndef get_node_restrictions", 'hands the optimised VOA on'),
  ], R: [
    (NW, "        save_sim_params = {\"raman_params\": SimParams._shared_dict['raman_params'].to_json(),\n                           \"nli_params\": SimParams._shared_dict['nli_params'].to_json()}", "        save_sim_params = {\"nli_params\": SimParams._shared_dict['nli_params'].to_json(),\n                           \"raman_params\": SimParams._shared_dict['raman_params'].to_json()}", 'reordered keys'),
  ]},
 'C18': {M: [
    (JIO, "                        entry_without_other_name['type_variety'] = other_name\n                        equipment[key][other_name] = Transceiver(", "                        entry['type_variety'] = other_name\n                        equipment[key][other_name] = Transceiver(", 'alias name set on the source entry'),
    ('gnpy/tools/cli_examples.py', "sim_params = load_gnpy_json(simulation_filename)", "sim_params = load_json(simulation_filename)", 'raw load of a user document'),
    ('gnpy/yang/precision_dict.py', '"pmd": 16,', '"pmd": 15,', 'precision below the YANG declaration'),
    (CLY, "        json_data = convert_back_raman_coef(json_data)\n        json_data = remove_namespace_context(json_data, \"gnpy-network-topology:\")\n    elif TOPO_NMSP in json_data:", "        json_data = remove_namespace_context(json_data, \"gnpy-network-topology:\")\n    elif TOPO_NMSP in json_data:", 'inverse converter dropped in one arm'),
    (YCU, "                    new_targets.extend([{DEGREE_KEY: degree, equalization_type: target}\n                                        for degree, target in targets.items()])", "                    new_targets = [{DEGREE_KEY: degree, equalization_type: target}\n                                   for degree, target in targets.items()]", 'accumulator overwritten'),
    (YCU, "    for si in json_data.get('SI', []):\n        if 'power_range_dict_db' in si:", "    for si in json_data.get('SI', [])[:1]:\n        if 'power_range_dict_db' in si:", 'only the first SI converted back'),
  ], R: [
    ('gnpy/yang/precision_dict.py', '"pmd": 16,\n    "pdl": 2,', '"pdl": 2,\n    "pmd": 16,', 'reordered entries'),
  ]},
 'C19': {M: [
    (RQ, "            values[pass_field] = rsnr_min >= minosnr if rsnr_min != '' else rsnr >= minosnr", "            values[pass_field] = rsnr_min > minosnr if rsnr_min != '' else rsnr > minosnr", 'strict pass flag'),
    (RQ, "                'z-a-path-metric': path_metric(self.reversed_computed_path, self.path_request),", "                'z-a-path-metric': path_metric(self.computed_path, self.path_request),", 'forward metrics reported for the reverse direction'),
    (RQ, "                    'accumulative-value': round(min(pth[-1].snr_01nm), 2)", "                    'accumulative-value': round(min(pth[-1].snr), 2)", 'lower SNR from the wrong figure'),
    (RQ, "    output_snr_min = read_property(path_metric, LOWER_SNR_STRING)\n    output_snr_max = read_property(path_metric, UPPER_SNR_STRING)", "    output_snr_min = read_property(path_metric, UPPER_SNR_STRING)\n    output_snr_max = read_property(path_metric, LOWER_SNR_STRING)", 'min/max columns swapped'),
  ], R: [
  ]},
 'C20': {M: [
    (CV, "class Link:", "class Link:\n    pass\n\n\nclass _Unused:", None),
    (SS, "        if not is_type_cell_empty(row[0], is_xlsx):\n            # Check required", "        if is_type_cell_empty(row[0], is_xlsx):\n            break\n        if True:\n            # Check required", 'empty row ends the sheet'),
    (CV, "                   'loss_coef': fiber.west_lineic,", "                   'loss_coef': fiber.east_lineic,", 'west fibre reads the east loss'),
    (SS, "            self.power = db2lin(request_param.power) * 1e-3", "            self.power = db2lin(request_param.power)", 'dBm treated as dBW'),
    (CV, "            'Con_out': 'west_con_out',", "            'Con_out': 'west_con_in',", 'header maps two columns to one attribute'),
  ], R: [
  ]},
}
# the placeholder mutant of C20 above is not meaningful: drop entries whose note is None
for _p in VARIANTS.values():
    _p[M] = [v for v in _p[M] if v[3] is not None]


def _run_variant(pid, root, kind, idx, variant):
    rel, old, new, note = variant
    src = os.path.join(root, rel)
    if not os.path.exists(src):
        return {'kind': kind, 'note': note, 'result': 'skipped (file missing)'}
    with open(src, encoding='utf-8') as fh:
        text = fh.read()
    if text.count(old) < 1:
        return {'kind': kind, 'note': note, 'result': 'skipped (anchor text not found)'}
    d = tempfile.mkdtemp(prefix='gscan_selftest_')
    try:
        shutil.copytree(os.path.join(root, 'gnpy'), os.path.join(d, 'gnpy'))
        if os.path.isdir(os.path.join(root, 'docs')):
            shutil.copytree(os.path.join(root, 'docs'), os.path.join(d, 'docs'))
        with open(os.path.join(d, rel), 'w', encoding='utf-8') as fh:
            fh.write(text.replace(old, new, 1))
        env = dict(os.environ, GSCAN_REPO=d, GSCAN_OUT=d, GSCAN_NO_SELFTEST='1', PYTHONDONTWRITEBYTECODE='1')
        r = subprocess.run([sys.executable, '-m', 'gscan.cli', pid, '--tier', 'quick'], cwd=HERE, env=env, capture_output=True, text=True)
        import re
        rules = sorted(set(re.findall(r'\[(R[\w.\-]+)\]', r.stdout)))
        if kind == M:
            ok = r.returncode == 1
        else:
            ok = r.returncode == 0
        return {'kind': kind, 'note': note, 'file': rel, 'exit': r.returncode, 'rules_fired': rules,
                'result': 'as expected' if ok else ('MISSED' if kind == M else 'FALSE ALARM')}
    finally:
        shutil.rmtree(d, ignore_errors=True)


# seeded changes (written by independent sub-agents, /verif/seeded/<pid>-<x>/patch.diff) that the static rules do not
# reach, with the reason (see DESIGN.md 6)
SEED_NOT_REACHED = {
    'C05-B': 'numerical behaviour of the Raman solver grid (interpolation at the fibre end): not a structural property',
    'C03-A5': 'beta2 rewritten into an algebraically identical expression that overflows int64 for integer-typed frequencies: the value '
              'graph works over the reals (DESIGN.md 9: floating point / machine integers are ignored)',
    'C01-B6': 'a float-promoting outer(ones, x) replaced by x itself: identical over the reals, integer-typed baud rates then overflow '
              'int64 when squared (machine integers are ignored, as for C03-A5)',
}


def _run_seed(pid, root, sdir):
    name = os.path.basename(sdir)
    d = tempfile.mkdtemp(prefix='gscan_selftest_')
    try:
        shutil.copytree(os.path.join(root, 'gnpy'), os.path.join(d, 'gnpy'))
        r = subprocess.run(['patch', '-p1', '-s', '-i', os.path.join(sdir, 'patch.diff')], cwd=d, capture_output=True, text=True)
        if r.returncode != 0:
            return {'kind': 'seed', 'note': name, 'result': 'skipped (patch does not apply to this tree)'}
        env = dict(os.environ, GSCAN_REPO=d, GSCAN_OUT=d, GSCAN_NO_SELFTEST='1', PYTHONDONTWRITEBYTECODE='1')
        r = subprocess.run([sys.executable, '-m', 'gscan.cli', pid, '--tier', 'quick'], cwd=HERE, env=env, capture_output=True, text=True)
        import re
        rules = sorted(set(re.findall(r'\[(R[\w.\-]+)\]', r.stdout)))
        if name in SEED_NOT_REACHED:
            res = 'not reached (documented)' if r.returncode == 0 else 'as expected'
        else:
            res = 'as expected' if r.returncode == 1 else 'MISSED'
        return {'kind': 'seed', 'note': name, 'exit': r.returncode, 'rules_fired': rules, 'result': res}
    finally:
        shutil.rmtree(d, ignore_errors=True)


def _run_global(pid, root, mode):
    """whole-tree behaviour-preserving rewrite (gscan/battery.py): every file re-printed from its AST, every local variable
    of every function renamed, every line shifted - the check must stay silent"""
    from . import battery
    d = tempfile.mkdtemp(prefix='gscan_selftest_')
    try:
        battery.make(mode, d, root)
        env = dict(os.environ, GSCAN_REPO=d, GSCAN_OUT=d, GSCAN_NO_SELFTEST='1', PYTHONDONTWRITEBYTECODE='1')
        r = subprocess.run([sys.executable, '-m', 'gscan.cli', pid, '--tier', 'quick'], cwd=HERE, env=env, capture_output=True, text=True)
        import re
        rules = sorted(set(re.findall(r'\[(R[\w.\-]+)\]', r.stdout)))
        return {'kind': R, 'note': f'whole tree: {mode}', 'exit': r.returncode, 'rules_fired': rules,
                'result': 'as expected' if r.returncode == 0 else 'FALSE ALARM'}
    finally:
        shutil.rmtree(d, ignore_errors=True)


def run(pid, root, seed=0):
    table = VARIANTS.get(pid, {M: [], R: []})
    jobs = [(M, i, v) for i, v in enumerate(table.get(M, []))] + [(R, i, v) for i, v in enumerate(table.get(R, []))]
    import glob
    seeds = sorted(glob.glob(os.path.join(HERE, 'seeded', f'{pid}-*')))
    seeds = [s_ for s_ in seeds if os.path.exists(os.path.join(s_, 'patch.diff'))]
    with ThreadPoolExecutor(max_workers=min(16, max(1, len(jobs) + len(seeds) + 3))) as ex:
        from .battery import MODES
        fut = [ex.submit(_run_variant, pid, root, *j) for j in jobs] + [ex.submit(_run_seed, pid, root, s_) for s_ in seeds] + \
            [ex.submit(_run_global, pid, root, m_) for m_ in MODES]
        res = [f_.result() for f_ in fut]
    sd = [r for r in res if r['kind'] == 'seed']
    mut = [r for r in res if r['kind'] == M]
    ref = [r for r in res if r['kind'] == R]
    return {
        'mutants': len(mut), 'killed': sum(1 for r in mut if r['result'] == 'as expected'),
        'refactors': len(ref), 'silent': sum(1 for r in ref if r['result'] == 'as expected'),
        'seeded_changes': len(sd), 'seeded_caught': sum(1 for r in sd if r['result'] == 'as expected'),
        'seeded_not_reached': [r['note'] for r in sd if r['result'].startswith('not reached')],
        'skipped': sum(1 for r in res if r['result'].startswith('skipped')),
        'details': res,
    }


if __name__ == '__main__':
    import json
    pids = sys.argv[1:] or sorted(VARIANTS)
    root = os.environ.get('GSCAN_REPO', '/repo')
    bad = 0
    for pid in pids:
        out = run(pid, root)
        print(pid, {k: out[k] for k in ('mutants', 'killed', 'refactors', 'silent', 'seeded_changes', 'seeded_caught', 'skipped')})
        for r in out['details']:
            if r['result'] not in ('as expected', 'not reached (documented)'):
                bad += 1
                print('   ', r['kind'], '|', r['note'], '|', r['result'], '|', r.get('exit'), r.get('rules_fired'))
    sys.exit(1 if bad else 0)
