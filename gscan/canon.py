"""Canonicalising front end: behaviour-preserving surface variations are removed when the program model is built, so that
every rule sees one shape (source positions are kept for the reports).

  two-armed if      `if not c: A else: B`        ->  `if c: B else: A`          (no elif chains)
  comparisons       `a > b`, `a >= b`            ->  `b < a`, `b <= a`          (single operator)
  return temps      `t = e; return t`            ->  `return e`                 (t used nowhere else)
  calls             f(a, y=c, x=b)               ->  f(a, b, c)                 (callee resolved in the package; the
                                                                                   parameter names are kept on the node)
"""
import ast
import os


def _negate(e):
    """negation in normal form: comparisons flipped, De Morgan, double negation removed"""
    if isinstance(e, ast.UnaryOp) and isinstance(e.op, ast.Not):
        return e.operand
    if isinstance(e, ast.BoolOp):
        op = ast.Or() if isinstance(e.op, ast.And) else ast.And()
        return ast.copy_location(ast.BoolOp(op=op, values=[_negate(v) for v in e.values]), e)
    if isinstance(e, ast.Compare) and len(e.ops) == 1:
        flip = {ast.Eq: ast.NotEq, ast.NotEq: ast.Eq, ast.In: ast.NotIn, ast.NotIn: ast.In, ast.Is: ast.IsNot, ast.IsNot: ast.Is,
                ast.Lt: ast.GtE, ast.GtE: ast.Lt, ast.Gt: ast.LtE, ast.LtE: ast.Gt}
        # ordering comparisons are NOT flipped (NaN / array semantics): keep `not (a < b)`
        if type(e.ops[0]) in (ast.Eq, ast.NotEq, ast.In, ast.NotIn, ast.Is, ast.IsNot):
            return ast.copy_location(ast.Compare(left=e.left, ops=[flip[type(e.ops[0])]()], comparators=e.comparators), e)
    return ast.copy_location(ast.UnaryOp(op=ast.Not(), operand=e), e)


class NNF(ast.NodeTransformer):
    """`not (a or b)` -> `not a and not b`; `not a == b` -> `a != b`; `not x in y` -> `x not in y`; `not not x` -> `x` (in tests)"""
    def visit_UnaryOp(self, n):
        self.generic_visit(n)
        if isinstance(n.op, ast.Not) and isinstance(n.operand, (ast.BoolOp, ast.UnaryOp)):
            if isinstance(n.operand, ast.UnaryOp) and not isinstance(n.operand.op, ast.Not):
                return n
            return self.visit(_negate(n.operand)) if isinstance(n.operand, ast.BoolOp) else n.operand.operand
        if isinstance(n.op, ast.Not) and isinstance(n.operand, ast.Compare) and len(n.operand.ops) == 1 and \
                isinstance(n.operand.ops[0], (ast.Eq, ast.NotEq, ast.In, ast.NotIn, ast.Is, ast.IsNot)):
            return _negate(n.operand)
        return n


def _flip_ok(e):
    """evaluating e before or after the other operand makes no difference: names, constants, attribute / subscript chains and
    arithmetic over them (no calls)"""
    return not any(isinstance(x, (ast.Call, ast.NamedExpr, ast.Await, ast.Yield, ast.YieldFrom)) for x in ast.walk(e))


def _truth_test(e):
    """an expression that yields True / False and has no effect: isinstance / hasattr tests, identity and membership comparisons of
    names, and their combinations"""
    if isinstance(e, ast.Call) and isinstance(e.func, ast.Name) and e.func.id in ('isinstance', 'hasattr', 'callable', 'issubclass'):
        return all(isinstance(a, (ast.Name, ast.Attribute, ast.Subscript, ast.Tuple, ast.Constant)) for a in e.args)
    if isinstance(e, ast.UnaryOp) and isinstance(e.op, ast.Not):
        return _truth_test(e.operand)
    if isinstance(e, ast.BoolOp):
        return all(_truth_test(v) for v in e.values)
    if isinstance(e, ast.Compare) and len(e.ops) == 1 and isinstance(e.ops[0], (ast.Is, ast.IsNot)):
        return True
    return False


def _polarity(e):
    """(number of negative literals, disjunction at top level)"""
    def negs(x):
        if isinstance(x, ast.BoolOp):
            return sum(negs(v) for v in x.values)
        if isinstance(x, ast.UnaryOp) and isinstance(x.op, ast.Not):
            return 1
        if isinstance(x, ast.Compare) and len(x.ops) == 1 and isinstance(x.ops[0], (ast.NotEq, ast.NotIn, ast.IsNot)):
            return 1
        return 0
    return (negs(e), 1 if isinstance(e, ast.BoolOp) and isinstance(e.op, ast.Or) else 0)


class Shape(ast.NodeTransformer):
    """two-armed `if` / conditional expressions get the polarity with fewer negative literals (tie: a conjunction at top level)"""
    def _swap(self, test):
        nt = NNF().visit(_negate(test))
        return nt if _polarity(nt) < _polarity(test) else None

    def visit_If(self, n):
        self.generic_visit(n)
        if n.orelse and not (len(n.orelse) == 1 and isinstance(n.orelse[0], ast.If)) and not (len(n.body) == 1 and isinstance(n.body[0], ast.If)):
            nt = self._swap(n.test)
            if nt is not None:
                new = ast.copy_location(ast.If(test=nt, body=n.orelse, orelse=n.body), n)
                new._swapped = True
                return new
        return n

    def visit_IfExp(self, n):
        self.generic_visit(n)
        nt = self._swap(n.test)
        if nt is not None:
            return ast.copy_location(ast.IfExp(test=nt, body=n.orelse, orelse=n.body), n)
        return n

    def visit_BinOp(self, n):
        self.generic_visit(n)
        # `p | q` / `p & q` on two truth values without effects (isinstance tests, comparisons) is `p or q` / `p and q`
        if isinstance(n.op, (ast.BitOr, ast.BitAnd)) and _truth_test(n.left) and _truth_test(n.right):
            op = ast.Or() if isinstance(n.op, ast.BitOr) else ast.And()
            vals = []
            for v in (n.left, n.right):
                vals += v.values if isinstance(v, ast.BoolOp) and type(v.op) is type(op) else [v]
            return ast.copy_location(ast.BoolOp(op=op, values=vals), n)
        return n

    def visit_JoinedStr(self, n):
        self.generic_visit(n)
        # an f-string whose parts are all literal strings (left behind when a loop constant was written in) is that string
        parts = []
        for v in n.values:
            if isinstance(v, ast.Constant) and isinstance(v.value, str):
                parts.append(v.value)
            elif isinstance(v, ast.FormattedValue) and isinstance(v.value, ast.Constant) and isinstance(v.value.value, str) and \
                    v.conversion == -1 and v.format_spec is None:
                parts.append(v.value.value)
            else:
                return n
        return ast.copy_location(ast.Constant(value=''.join(parts)), n)

    def visit_Call(self, n):
        self.generic_visit(n)
        # getattr(x, 'name') with a literal identifier and no default is the attribute access x.name
        # list(<list display or list comprehension>) is that (fresh) list
        if isinstance(n.func, ast.Name) and n.func.id == 'list' and len(n.args) == 1 and not n.keywords and \
                isinstance(n.args[0], (ast.ListComp, ast.List)):
            return n.args[0]
        if isinstance(n.func, ast.Name) and n.func.id == 'getattr' and len(n.args) == 2 and not n.keywords and \
                isinstance(n.args[1], ast.Constant) and isinstance(n.args[1].value, str) and n.args[1].value.isidentifier():
            return ast.copy_location(ast.Attribute(value=n.args[0], attr=n.args[1].value, ctx=ast.Load()), n)
        return n

    def visit_Compare(self, n):
        self.generic_visit(n)
        if len(n.ops) == 1 and isinstance(n.ops[0], (ast.Gt, ast.GtE)) and \
                (_flip_ok(n.left) or _flip_ok(n.comparators[0])):
            # (the operands change places: at least one of them must be unable to notice - a name, a constant, an attribute chain)
            op = ast.Lt() if isinstance(n.ops[0], ast.Gt) else ast.LtE()
            return ast.copy_location(ast.Compare(left=n.comparators[0], ops=[op], comparators=[n.left]), n)
        return n


def inline_return_temps(tree):
    """`t = e` immediately followed by `return t` -> `return e` (t used nowhere else in the function than in such pairs)"""
    for fn in [n for n in ast.walk(tree) if isinstance(n, (ast.FunctionDef, ast.AsyncFunctionDef))]:
        uses = {}
        for n in ast.walk(fn):
            if isinstance(n, ast.Name):
                uses[n.id] = uses.get(n.id, 0) + 1

        def blocks():
            for node in ast.walk(fn):
                for fld in ('body', 'orelse', 'finalbody'):
                    blk = getattr(node, fld, None)
                    if isinstance(blk, list) and len(blk) >= 2 and isinstance(blk[0], ast.stmt):
                        yield blk

        def is_pair(a, r):
            return isinstance(a, ast.Assign) and len(a.targets) == 1 and isinstance(a.targets[0], ast.Name) and \
                isinstance(r, ast.Return) and isinstance(r.value, ast.Name) and r.value.id == a.targets[0].id
        pairs = {}
        for blk in blocks():
            for a, r in zip(blk, blk[1:]):
                if is_pair(a, r):
                    pairs[a.targets[0].id] = pairs.get(a.targets[0].id, 0) + 1
        ok = {t for t, k in pairs.items() if uses.get(t, 0) == 2 * k}
        if not ok:
            continue
        for blk in list(blocks()):
            i = 0
            while i < len(blk) - 1:
                a, r = blk[i], blk[i + 1]
                if is_pair(a, r) and a.targets[0].id in ok:
                    new = ast.copy_location(ast.Return(value=a.value), a)
                    new._inlined_temp = a.targets[0].id
                    blk[i:i + 2] = [new]
                else:
                    i += 1
    return tree


# ------------------------------------------------------------------------------------------------ structure
TERMINATORS = (ast.Return, ast.Raise, ast.Continue, ast.Break)


def _terminates(stmts):
    return bool(stmts) and isinstance(stmts[-1], TERMINATORS)


def _blocks(root):
    for node in ast.walk(root):
        for fld in ('body', 'orelse', 'finalbody'):
            blk = getattr(node, fld, None)
            if isinstance(blk, list) and blk and isinstance(blk[0], ast.stmt):
                yield node, fld, blk
        if isinstance(node, ast.Try):
            for h in node.handlers:
                yield h, 'body', h.body


def structure(tree):
    """(1) `if c: ..terminator  else: B` -> `if c: ..terminator` ; B     (else after return / raise / continue / break is dropped;
           `if c: B else: ..terminator` is first turned round)
       (2) in tail position of a loop body: `if c: continue` ; REST  ->  `if not c: REST`   (guard clauses become nesting)
       (3) `if p: (if q: S)` without else on either -> `if p and q: S`
       (4) `if c: A..return/raise` ; REST..return/raise  ->  `if not c: REST` ; A   when `not c` has the better polarity"""
    def and_values(t):
        return list(t.values) if isinstance(t, ast.BoolOp) and isinstance(t.op, ast.And) else [t]

    def block(blk, loop_tail, elif_arm=False):
        i = 0
        while i < len(blk):
            st = blk[i]
            last = i == len(blk) - 1
            if isinstance(st, ast.If):
                if st.orelse and _terminates(st.orelse) and not _terminates(st.body) and not elif_arm and \
                        not (len(st.orelse) == 1 and isinstance(st.orelse[0], ast.If)):     # (1b) the terminating arm becomes the guard
                    st.test, st.body, st.orelse = NNF().visit(_negate(st.test)), st.orelse, st.body
                if st.orelse and _terminates(st.body):                                   # (1)
                    tail = st.orelse
                    st.orelse = []
                    blk[i + 1:i + 1] = tail
                    last = i == len(blk) - 1
                if not st.orelse and st.body and isinstance(st.body[-1], (ast.Return, ast.Raise)) and not last and \
                        isinstance(blk[-1], (ast.Return, ast.Raise)):                            # (4)
                    nt = NNF().visit(_negate(st.test))
                    if _polarity(nt) < _polarity(st.test):
                        rest = blk[i + 1:]
                        new = ast.copy_location(ast.If(test=nt, body=rest, orelse=[]), st)
                        tail = st.body
                        del blk[i:]
                        blk.append(new)
                        blk.extend(tail)
                        st = new
                        last = False
                if loop_tail and not st.orelse and len(st.body) == 1 and isinstance(st.body[0], ast.Continue) and not last:   # (2)
                    rest = blk[i + 1:]
                    new = ast.copy_location(ast.If(test=_negate(st.test), body=rest, orelse=[]), st)
                    del blk[i:]
                    blk.append(new)
                    st = new
                    last = True
                block(st.body, loop_tail and last)
                if st.orelse:
                    block(st.orelse, loop_tail and last, elif_arm=len(st.orelse) == 1 and isinstance(st.orelse[0], ast.If))
                while not st.orelse and len(st.body) == 1 and isinstance(st.body[0], ast.If) and not st.body[0].orelse:     # (3)
                    inner = st.body[0]
                    st.test = ast.copy_location(ast.BoolOp(op=ast.And(), values=and_values(st.test) + and_values(inner.test)), st.test)
                    st.body = inner.body
            elif isinstance(st, (ast.For, ast.While, ast.AsyncFor)):
                block(st.body, True)
                if st.orelse:
                    block(st.orelse, False)
            elif isinstance(st, (ast.With, ast.AsyncWith)):
                block(st.body, False)
            elif isinstance(st, ast.Try):
                block(st.body, False)
                for h in st.handlers:
                    block(h.body, False)
                block(st.orelse, False) if st.orelse else None
                block(st.finalbody, False) if st.finalbody else None
            elif isinstance(st, (ast.FunctionDef, ast.AsyncFunctionDef, ast.ClassDef)):
                block(st.body, False)
            i += 1
    block(tree.body, False)
    return tree


def defaults_to_else(tree):
    """x = D ; if c1: x = A  elif c2: x = B     ->    if c1: x = A  elif c2: x = B  else: x = D
    (D a constant, an empty literal or a name; every arm assigns x at its top level; x is read nowhere in the chain)"""
    def pure_default(e):
        return isinstance(e, (ast.Constant, ast.Name)) or (isinstance(e, (ast.List, ast.Tuple, ast.Set)) and not e.elts) or \
            (isinstance(e, ast.Dict) and not e.keys)

    def arms(st):
        out = []
        while True:
            out.append(st.body)
            if len(st.orelse) == 1 and isinstance(st.orelse[0], ast.If):
                st = st.orelse[0]
            else:
                return out, st
    props = {f.name for f in ast.walk(tree) if isinstance(f, (ast.FunctionDef, ast.AsyncFunctionDef)) and f.decorator_list}

    def key(t):
        # a plain local, or self.<attr> where <attr> is an ordinary attribute (no property / setter of that name in the module)
        if isinstance(t, ast.Name):
            return t.id
        if isinstance(t, ast.Attribute) and isinstance(t.value, ast.Name) and t.value.id == 'self' and t.attr not in props:
            return f'self.{t.attr}'
        return None

    def reads(root, x):
        for y in ast.walk(root):
            if isinstance(y, ast.Name) and y.id == x and isinstance(y.ctx, ast.Load) and '.' not in x:
                return True
            if isinstance(y, ast.Attribute) and isinstance(y.ctx, ast.Load) and key(y) == x:
                return True
        return False
    def self_free(root):
        # nothing in the chain can observe the attribute between the default store and the override: only pure builtins are called,
        # none of them on / with self
        for y in ast.walk(root):
            if isinstance(y, ast.Call):
                if not effect_free(ast.Call(func=y.func, args=[], keywords=[])):
                    return False
                parts = list(y.args) + [k.value for k in y.keywords] + ([y.func.value] if isinstance(y.func, ast.Attribute) else [])
                if any(isinstance(z, ast.Name) and z.id == 'self' for p_ in parts for z in ast.walk(p_)):
                    return False
        return True
    for node, fld, blk in list(_blocks(tree)):
        i = 0
        while i < len(blk) - 1:
            a, st = blk[i], blk[i + 1]
            if isinstance(a, ast.Assign) and len(a.targets) == 1 and key(a.targets[0]) and pure_default(a.value) and \
                    isinstance(st, ast.If):
                x = key(a.targets[0])
                bodies, last = arms(st)
                if not last.orelse and \
                        all(any(isinstance(s, ast.Assign) and len(s.targets) == 1 and key(s.targets[0]) == x
                                for s in b) for b in bodies) and \
                        not reads(st, x) and not (x.startswith('self.') and not self_free(st)) and \
                        not (isinstance(a.value, ast.Name) and any(isinstance(y, ast.Name) and y.id == a.value.id and isinstance(y.ctx, ast.Store)
                                                                   for y in ast.walk(st))):
                    last.orelse = [a]
                    a._default_moved = True
                    del blk[i]
                    continue
            i += 1
    return tree


def split_tuple_assign(tree):
    """a, b = (x, y)  ->  a = x ; b = y   when no target is read by a later value (so the order of the stores does not matter);
    x = x is dropped"""
    for node, fld, blk in list(_blocks(tree)):
        i = 0
        while i < len(blk):
            st = blk[i]
            if isinstance(st, ast.Assign) and len(st.targets) == 1 and isinstance(st.targets[0], (ast.Tuple, ast.List)) and \
                    isinstance(st.value, (ast.Tuple, ast.List)) and len(st.targets[0].elts) == len(st.value.elts) and \
                    all(isinstance(t, ast.Name) for t in st.targets[0].elts) and \
                    not any(isinstance(v, ast.Starred) for v in st.value.elts):
                ts = [t.id for t in st.targets[0].elts]
                vals = st.value.elts
                ok = all(not any(isinstance(y, ast.Name) and y.id in ts[:j] for y in ast.walk(vals[j])) for j in range(len(vals)))
                if ok and len(set(ts)) == len(ts):
                    new = [ast.copy_location(ast.Assign(targets=[ast.Name(id=t, ctx=ast.Store())], value=v), st) for t, v in zip(ts, vals)]
                    blk[i:i + 1] = new
                    continue
            if isinstance(st, ast.Assign) and len(st.targets) == 1 and isinstance(st.targets[0], ast.Name) and \
                    isinstance(st.value, ast.Name) and st.value.id == st.targets[0].id and len(blk) > 1:
                del blk[i]
                continue
            i += 1
    return tree


def coalesce_generated(tree):
    """y = E(x) ; ... y ... ; x = y     ->     x = E(x) ; ... x ...        for a name y the helper inliner generated (it exists
    nowhere else), when x occurs between y's first definition and the copy only inside that first definition's right-hand side: x's
    old value is dead from there on and the copy overwrites it, so y can live in x"""
    for fn in [n for n in ast.walk(tree) if isinstance(n, (ast.FunctionDef, ast.AsyncFunctionDef))]:
        gen = {x.id for x in ast.walk(fn) if isinstance(x, ast.Name) and '__' in x.id and not x.id.startswith('__')}
        if not gen:
            continue
        for blk in _own_blocks(fn):
            i = 0
            while i < len(blk):
                st = blk[i]
                if isinstance(st, ast.Assign) and len(st.targets) == 1 and isinstance(st.targets[0], ast.Name) and \
                        isinstance(st.value, ast.Name) and st.value.id in gen and st.targets[0].id != st.value.id:
                    x, y = st.targets[0].id, st.value.id
                    first = next((j for j in range(i) if any(isinstance(n, ast.Name) and n.id == y for n in ast.walk(blk[j]))), None)
                    total_y = sum(1 for n in ast.walk(fn) if isinstance(n, ast.Name) and n.id == y)
                    in_region = sum(1 for s_ in blk[first:i + 1] for n in ast.walk(s_) if isinstance(n, ast.Name) and n.id == y) \
                        if first is not None else 0
                    f0 = blk[first] if first is not None else None
                    ok = first is not None and total_y == in_region and isinstance(f0, ast.Assign) and len(f0.targets) == 1 and \
                        isinstance(f0.targets[0], ast.Name) and f0.targets[0].id == y
                    if ok:
                        x_in = sum(1 for s_ in blk[first:i] for n in ast.walk(s_) if isinstance(n, ast.Name) and n.id == x)
                        x_rhs = sum(1 for n in ast.walk(f0.value) if isinstance(n, ast.Name) and n.id == x)
                        ok = x_in == x_rhs and not any(isinstance(n, (ast.FunctionDef, ast.Lambda, ast.Try)) for s_ in blk[first:i]
                                                       for n in ast.walk(s_))
                    if ok:
                        for s_ in blk[first:i]:
                            for n in ast.walk(s_):
                                if isinstance(n, ast.Name) and n.id == y:
                                    n.id = x
                        del blk[i]
                        continue
                i += 1
    return tree


def ifexp_to_statement(tree):
    """t = A if c else B   ->   if c: t = A  else: t = B      (t a plain name or an attribute / constant-subscript chain of names, so
    that evaluating the target after the test instead of after the value changes nothing);  `t = x or d` with x a reference is first
    read as `t = x if x else d`. The arms then take part in the structural normal forms like any other two-armed if."""
    import copy

    def simple_target(t):
        return _reference_expr(t) and not isinstance(t, ast.Constant)

    def do(blk):
        i = 0
        while i < len(blk):
            st = blk[i]
            if isinstance(st, ast.Assign) and len(st.targets) == 1 and simple_target(st.targets[0]):
                v = st.value
                if isinstance(v, ast.BoolOp) and isinstance(v.op, ast.Or) and len(v.values) == 2 and _reference_expr(v.values[0]) and \
                        not isinstance(v.values[0], ast.Constant):
                    v = ast.copy_location(ast.IfExp(test=v.values[0], body=copy.deepcopy(v.values[0]), orelse=v.values[1]), v)
                if isinstance(v, ast.IfExp):
                    a = ast.copy_location(ast.Assign(targets=[copy.deepcopy(st.targets[0])], value=v.body), st)
                    b = ast.copy_location(ast.Assign(targets=[copy.deepcopy(st.targets[0])], value=v.orelse), st)
                    new = ast.copy_location(ast.If(test=v.test, body=[a], orelse=[b]), st)
                    new._from_ifexp = True
                    blk[i] = new
                    do(new.body)          # nested conditional expressions in the arms
                    do(new.orelse)
            elif isinstance(st, ast.Return) and isinstance(st.value, ast.IfExp):
                # return A if c else B   ->   if c: return A  else: return B
                v = st.value
                a = ast.copy_location(ast.Return(value=v.body), st)
                b = ast.copy_location(ast.Return(value=v.orelse), st)
                new = ast.copy_location(ast.If(test=v.test, body=[a], orelse=[b]), st)
                new._from_ifexp = True
                blk[i] = new
                do(new.body)
                do(new.orelse)
            i += 1
    for node, fld, blk in list(_blocks(tree)):
        do(blk)
    return tree


def fold_constant_tests(tree):
    """`if <constant> is [not] None:` / `if <constant>:` (left behind when a helper is inlined with a literal argument) is replaced by
    the arm that runs"""
    def known(t):
        if isinstance(t, ast.Constant):
            return bool(t.value)
        if isinstance(t, ast.Compare) and len(t.ops) == 1 and isinstance(t.left, ast.Constant) and isinstance(t.comparators[0], ast.Constant) \
                and isinstance(t.ops[0], (ast.Is, ast.IsNot)) and (t.left.value is None or t.comparators[0].value is None):
            same = t.left.value is None and t.comparators[0].value is None
            return same if isinstance(t.ops[0], ast.Is) else not same
        if isinstance(t, ast.UnaryOp) and isinstance(t.op, ast.Not):
            k = known(t.operand)
            return None if k is None else not k
        return None
    for node, fld, blk in list(_blocks(tree)):
        i = 0
        while i < len(blk):
            st = blk[i]
            if isinstance(st, ast.If):
                k = known(st.test)
                if k is not None:
                    arm = st.body if k else st.orelse
                    blk[i:i + 1] = arm if (arm or len(blk) > 1) else [ast.copy_location(ast.Pass(), st)]
                    continue
            i += 1
    return tree


def unroll_constant_loops(tree):
    """for a, b in <tuple of constant tuples>: BODY   ->   BODY[a, b := c1] ; BODY[a, b := c2] ; ...
    when the iterable is a tuple / list literal (or a module-level name bound once to a tuple) of at most 16 constants / tuples of constants, the
    body neither exits the loop early nor rebinds the loop variables, and the loop variables are not used after the loop;
    then  setattr(x, 'name', v)  with a literal identifier is the store  x.name = v."""
    import copy
    consts = {}
    for n in tree.body:
        if isinstance(n, ast.Assign) and len(n.targets) == 1 and isinstance(n.targets[0], ast.Name) and isinstance(n.value, ast.Tuple):
            consts[n.targets[0].id] = None if n.targets[0].id in consts else n.value
    for n in ast.walk(tree):
        if isinstance(n, ast.Name) and isinstance(n.ctx, (ast.Store, ast.Del)) and n.id in consts and \
                not any(isinstance(t, ast.Assign) and t.targets[0] is n for t in tree.body):
            consts[n.id] = None          # rebound somewhere else

    def const_elt(x):
        return isinstance(x, ast.Constant) or (isinstance(x, ast.Tuple) and all(isinstance(y, ast.Constant) for y in x.elts))

    def ref_elt(x):
        # a row of constants and references (names, attribute chains): written into the body instead of being read up front
        return isinstance(x, ast.Tuple) and len(x.elts) > 1 and all(_reference_expr(y) for y in x.elts) and \
            not all(isinstance(y, ast.Constant) for y in x.elts)

    def quiet_body(body, tv, rows=()):
        # the body cannot change what the references of the rows evaluate to: tests, effect-free calls, stores into a subscript of a
        # plain local, and stores into attributes (also setattr with the loop constant as name) that no row reads
        read_attrs = {y.attr for r in rows for y in ast.walk(r) if isinstance(y, ast.Attribute)}
        row_names = {c.value for r in rows for c in (r.elts if isinstance(r, ast.Tuple) else [r]) if isinstance(c, ast.Constant) and isinstance(c.value, str)}
        for b in body:
            for x in ast.walk(b):
                if isinstance(x, ast.Call) and isinstance(x.func, ast.Name) and x.func.id == 'setattr' and len(x.args) == 3 and \
                        isinstance(x.args[1], ast.Name) and x.args[1].id in tv and not (row_names & read_attrs):
                    continue
                if isinstance(x, ast.Call) and not effect_free(ast.Call(func=x.func, args=[], keywords=[])):
                    return False
                if isinstance(x, (ast.Attribute,)) and isinstance(x.ctx, (ast.Store, ast.Del)):
                    if x.attr in read_attrs:
                        return False
                    continue
                if isinstance(x, ast.Name) and isinstance(x.ctx, (ast.Store, ast.Del)):
                    return False
                if isinstance(x, ast.Subscript) and isinstance(x.ctx, (ast.Store, ast.Del)) and not isinstance(x.value, ast.Name):
                    return False
                if isinstance(x, (ast.AugAssign, ast.Delete, ast.With, ast.Try, ast.While, ast.For)):
                    return False
        return True

    class Sub(ast.NodeTransformer):
        def __init__(self, m):
            self.m = m

        def visit_Name(self, n):
            if n.id in self.m and isinstance(n.ctx, ast.Load):
                return ast.copy_location(copy.deepcopy(self.m[n.id]), n)
            return n
    for fn in [x for x in ast.walk(tree) if isinstance(x, (ast.FunctionDef, ast.AsyncFunctionDef))]:
        for blk in _own_blocks(fn):
            i = 0
            while i < len(blk):
                st = blk[i]
                if isinstance(st, ast.For) and not st.orelse:
                    it = st.iter
                    if isinstance(it, ast.Name) and consts.get(it.id) is not None and \
                            not any(isinstance(x, ast.Name) and x.id == it.id and isinstance(x.ctx, ast.Store) for x in ast.walk(fn)):
                        it = consts[it.id]
                    if isinstance(it, ast.Name) and i > 0:
                        # a table held in a local defined just before the loop and used nowhere else
                        prev = blk[i - 1]
                        if isinstance(prev, ast.Assign) and len(prev.targets) == 1 and isinstance(prev.targets[0], ast.Name) and \
                                prev.targets[0].id == it.id and isinstance(prev.value, (ast.Tuple, ast.List)) and \
                                sum(1 for x in ast.walk(fn) if isinstance(x, ast.Name) and x.id == it.id) == 2:
                            it = prev.value
                            local_table = True
                        else:
                            local_table = False
                    else:
                        local_table = False
                    tv = [st.target.id] if isinstance(st.target, ast.Name) else \
                        ([e.id for e in st.target.elts] if isinstance(st.target, ast.Tuple) and all(isinstance(e, ast.Name) for e in st.target.elts) else None)
                    if isinstance(it, (ast.Tuple, ast.List)) and 0 < len(it.elts) <= 16 and tv is not None and \
                            (all(const_elt(x) for x in it.elts) or (all(ref_elt(x) or const_elt(x) for x in it.elts) and quiet_body(st.body, tv, it.elts))) and \
                            not any(isinstance(x, (ast.Break, ast.Continue, ast.FunctionDef, ast.Lambda)) for b in st.body for x in ast.walk(b)) and \
                            not any(isinstance(x, ast.Name) and x.id in tv and isinstance(x.ctx, (ast.Store, ast.Del)) for b in st.body for x in ast.walk(b)) and \
                            sum(1 for x in ast.walk(fn) if isinstance(x, ast.Name) and x.id in tv) == \
                            sum(1 for x in ast.walk(st) if isinstance(x, ast.Name) and x.id in tv) and \
                            all((isinstance(x, ast.Constant) and len(tv) == 1) or
                                (isinstance(x, ast.Tuple) and len(x.elts) == len(tv) and len(tv) > 1) for x in it.elts):
                        new = []
                        for x in it.elts:
                            vals = [x] if isinstance(x, ast.Constant) else list(x.elts)
                            for b in st.body:
                                new.append(Sub(dict(zip(tv, vals))).visit(copy.deepcopy(b)))
                        if local_table:
                            blk[i - 1:i + 1] = new
                            i -= 1
                        else:
                            blk[i:i + 1] = new
                        continue
                i += 1
    # all(f(x) for x in <literal tuple of constants>)  ->  f(c1) and f(c2) and ...   (any -> or): same tests in the same order
    for fn in [x for x in ast.walk(tree) if isinstance(x, (ast.FunctionDef, ast.AsyncFunctionDef))]:
        tables = {}
        for n in ast.walk(fn):
            if isinstance(n, ast.Assign) and len(n.targets) == 1 and isinstance(n.targets[0], ast.Name) and \
                    isinstance(n.value, (ast.Tuple, ast.List)) and all(isinstance(e, ast.Constant) for e in n.value.elts):
                nm = n.targets[0].id
                if sum(1 for x in ast.walk(fn) if isinstance(x, ast.Name) and x.id == nm) == 2:
                    tables[nm] = n

        class Q(ast.NodeTransformer):
            used = set()

            def visit_Call(self, n):
                self.generic_visit(n)
                if isinstance(n.func, ast.Name) and n.func.id in ('all', 'any') and len(n.args) == 1 and not n.keywords and \
                        isinstance(n.args[0], (ast.GeneratorExp, ast.ListComp)) and len(n.args[0].generators) == 1:
                    g = n.args[0].generators[0]
                    it = g.iter
                    nm = None
                    if isinstance(it, ast.Name) and it.id in tables:
                        nm, it = it.id, tables[it.id].value
                    elif isinstance(it, ast.Name) and consts.get(it.id) is not None:
                        it = consts[it.id]
                    if isinstance(it, (ast.Tuple, ast.List)) and 0 < len(it.elts) <= 24 and all(isinstance(e, ast.Constant) for e in it.elts) \
                            and not g.ifs and isinstance(g.target, ast.Name) and not g.is_async:
                        vals = [Sub({g.target.id: e}).visit(copy.deepcopy(n.args[0].elt)) for e in it.elts]
                        if nm:
                            Q.used.add(nm)
                        op = ast.And() if n.func.id == 'all' else ast.Or()
                        return ast.copy_location(ast.BoolOp(op=op, values=vals) if len(vals) > 1 else vals[0], n)
                return n
        Q.used = set()
        Q().visit(fn)
        if Q.used:
            for node_ in ast.walk(fn):
                for fld_ in ('body', 'orelse', 'finalbody'):
                    b_ = getattr(node_, fld_, None)
                    if isinstance(b_, list):
                        for nm in Q.used:
                            if tables[nm] in b_ and len(b_) > 1:
                                b_.remove(tables[nm])
    # setattr with a literal name
    for node, fld, blk in list(_blocks(tree)):
        for i, st in enumerate(blk):
            if isinstance(st, ast.Expr) and isinstance(st.value, ast.Call) and isinstance(st.value.func, ast.Name) and \
                    st.value.func.id == 'setattr' and len(st.value.args) == 3 and not st.value.keywords and \
                    isinstance(st.value.args[1], ast.Constant) and isinstance(st.value.args[1].value, str) and \
                    st.value.args[1].value.isidentifier() and isinstance(st.value.args[0], ast.Name):
                tgt = ast.Attribute(value=st.value.args[0], attr=st.value.args[1].value, ctx=ast.Store())
                blk[i] = ast.copy_location(ast.Assign(targets=[ast.copy_location(tgt, st)], value=st.value.args[2]), st)
    return tree


def _leaks(tree, lp):
    """a loop variable of lp is read outside the loop (a comprehension would not leave it bound): any Load of one of its target
    names outside lp that is not inside another loop / comprehension binding the same name itself"""
    tv = {x.id for x in ast.walk(lp.target) if isinstance(x, ast.Name)}
    inside = {id(x) for x in ast.walk(lp)}
    owner = None
    for fn in ast.walk(tree):
        if isinstance(fn, (ast.FunctionDef, ast.AsyncFunctionDef)) and any(x is lp for x in ast.walk(fn)):
            owner = fn                  # the innermost one is visited last on the way down; any enclosing one is conservative enough
    scope = owner if owner is not None else tree
    rebinding = set()
    for n in ast.walk(scope):
        if isinstance(n, (ast.For, ast.AsyncFor)) and n is not lp and tv & {x.id for x in ast.walk(n.target) if isinstance(x, ast.Name)}:
            rebinding |= {id(x) for x in ast.walk(n)}
        if isinstance(n, (ast.ListComp, ast.SetComp, ast.DictComp, ast.GeneratorExp)) and \
                tv & {x.id for g in n.generators for x in ast.walk(g.target) if isinstance(x, ast.Name)}:
            rebinding |= {id(x) for x in ast.walk(n)}
    for n in ast.walk(scope):
        if isinstance(n, ast.Name) and n.id in tv and isinstance(n.ctx, ast.Load) and id(n) not in inside and id(n) not in rebinding:
            return True
    return False


def literal_dict_locals(tree):
    """a local dict written as a literal (or as a dict comprehension over a literal tuple of constant keys) whose entries are
    effect-free, and which is only ever used as  d['k'] (read), d.pop('k') (as a whole right-hand side) and f(.., **d), is dissolved:
    each use becomes the entry's expression, `**d` the remaining entries as keywords. The entries build fresh values, so reading an
    entry twice gives two equal values where the source shared one - only for entries that are list / dict displays or
    comprehensions, which nothing can observe through the dict any more."""
    import copy

    class Sub(ast.NodeTransformer):
        def __init__(self, m):
            self.m = m

        def visit_Name(self, n):
            if n.id in self.m and isinstance(n.ctx, ast.Load):
                return ast.copy_location(copy.deepcopy(self.m[n.id]), n)
            return n
    for fn in [x for x in ast.walk(tree) if isinstance(x, (ast.FunctionDef, ast.AsyncFunctionDef))]:
        for blk in _own_blocks(fn):
            i = 0
            while i < len(blk):
                st = blk[i]
                i += 1
                if not (isinstance(st, ast.Assign) and len(st.targets) == 1 and isinstance(st.targets[0], ast.Name)):
                    continue
                d = st.targets[0].id
                v = st.value
                if isinstance(v, ast.DictComp) and len(v.generators) == 1 and not v.generators[0].ifs and \
                        isinstance(v.generators[0].target, ast.Name) and isinstance(v.generators[0].iter, (ast.Tuple, ast.List)) and \
                        all(isinstance(e, ast.Constant) and isinstance(e.value, str) for e in v.generators[0].iter.elts) and \
                        isinstance(v.key, ast.Name) and v.key.id == v.generators[0].target.id:
                    t = v.generators[0].target.id
                    v = ast.Dict(keys=[copy.deepcopy(e) for e in v.generators[0].iter.elts],
                                 values=[Sub({t: e}).visit(copy.deepcopy(v.value)) for e in v.generators[0].iter.elts])
                if not (isinstance(v, ast.Dict) and v.keys and all(isinstance(k, ast.Constant) and isinstance(k.value, str) for k in v.keys)):
                    continue
                if not all(effect_free(x) and isinstance(x, (ast.ListComp, ast.List, ast.Dict, ast.DictComp, ast.Constant, ast.Tuple)) for x in v.values):
                    continue
                if sum(1 for x in ast.walk(fn) if isinstance(x, ast.Name) and x.id == d and isinstance(x.ctx, ast.Store)) != 1:
                    continue
                # every use, in order, must be one of the three forms, in the statements that follow in this block
                uses = [x for x in ast.walk(fn) if isinstance(x, ast.Name) and x.id == d and isinstance(x.ctx, ast.Load)]
                entries = {k.value: val for k, val in zip(v.keys, v.values)}
                plan = []
                ok = True
                seen = 0
                for j in range(i, len(blk)):
                    s2 = blk[j]
                    here = [x for x in ast.walk(s2) if isinstance(x, ast.Name) and x.id == d and isinstance(x.ctx, ast.Load)]
                    if not here:
                        if not _effect_free_stmt(s2):
                            # an effect between the literal and a later use: the entries would be evaluated after it
                            if seen < len(uses):
                                ok = False
                                break
                        continue
                    seen += len(here)
                    if len(here) != 1:
                        ok = False
                        break
                    u = here[0]
                    # pop as a whole right-hand side
                    if isinstance(s2, ast.Assign) and isinstance(s2.value, ast.Call) and isinstance(s2.value.func, ast.Attribute) and \
                            s2.value.func.value is u and s2.value.func.attr == 'pop' and len(s2.value.args) == 1 and \
                            isinstance(s2.value.args[0], ast.Constant) and s2.value.args[0].value in entries:
                        plan.append(('pop', s2, s2.value.args[0].value))
                        continue
                    subs = [x for x in ast.walk(s2) if isinstance(x, ast.Subscript) and x.value is u and isinstance(x.ctx, ast.Load) and
                            isinstance(x.slice, ast.Constant)]
                    if subs:
                        plan.append(('get', s2, subs[0]))
                        continue
                    stars = [c for c in ast.walk(s2) if isinstance(c, ast.Call) and any(k.arg is None and k.value is u for k in c.keywords)]
                    if stars and isinstance(s2, (ast.Return, ast.Assign, ast.Expr)) and s2.value is stars[0]:
                        plan.append(('star', s2, stars[0]))
                        continue
                    ok = False
                    break
                if not ok or seen != len(uses) or not plan:
                    continue
                live = dict(entries)
                for kind, s2, x in plan:
                    if kind == 'pop':
                        if x not in live:
                            ok = False
                            break
                        s2.value = copy.deepcopy(live.pop(x))
                    elif kind == 'get':
                        if x.slice.value not in live:
                            ok = False
                            break
                        new = copy.deepcopy(live[x.slice.value])
                        for par in ast.walk(s2):
                            for f_, val in ast.iter_fields(par):
                                if val is x:
                                    setattr(par, f_, new)
                                elif isinstance(val, list) and any(y is x for y in val):
                                    setattr(par, f_, [new if y is x else y for y in val])
                    else:
                        call = x
                        call.keywords = [k for k in call.keywords if not (k.arg is None and isinstance(k.value, ast.Name) and k.value.id == d)] + \
                            [ast.keyword(arg=k_, value=copy.deepcopy(val)) for k_, val in live.items()]
                if ok:
                    blk.remove(st)
                    i -= 1
    return tree


def loops_to_comprehensions(tree):
    """X = [] ; for T in IT: [if C:] X.append(E)   ->   X = [E for T in IT if C]      (X not used in IT / C / E, nothing between
       the two statements mentions X);  D = {} ; for T in IT: [if C:] D[K] = V  ->  D = {K: V for T in IT if C}"""
    def mentions(node, name):
        return any(isinstance(x, ast.Name) and x.id == name for x in ast.walk(node))
    for node, fld, blk in list(_blocks(tree)):
        i = 0
        while i < len(blk):
            st = blk[i]
            if isinstance(st, ast.Assign) and len(st.targets) == 1 and isinstance(st.targets[0], ast.Name) and (
                    (isinstance(st.value, (ast.List, ast.Dict)) and not (st.value.elts if isinstance(st.value, ast.List) else st.value.keys)) or
                    (isinstance(st.value, ast.Call) and isinstance(st.value.func, ast.Name) and st.value.func.id in ('list', 'dict') and
                     not st.value.args and not st.value.keywords)):
                x = st.targets[0].id
                is_list = isinstance(st.value, ast.List) or (isinstance(st.value, ast.Call) and st.value.func.id == 'list')
                j = i + 1
                while j < len(blk) and not mentions(blk[j], x):
                    j += 1
                lp = blk[j] if j < len(blk) else None
                if isinstance(lp, ast.For) and not lp.orelse and len(lp.body) == 1:
                    b = lp.body[0]
                    cond = None
                    if isinstance(b, ast.If) and not b.orelse and len(b.body) == 1:
                        cond, b = b.test, b.body[0]
                    comp = None
                    if is_list and isinstance(b, ast.Expr) and isinstance(b.value, ast.Call) and isinstance(b.value.func, ast.Attribute) and \
                            b.value.func.attr == 'append' and isinstance(b.value.func.value, ast.Name) and b.value.func.value.id == x and \
                            len(b.value.args) == 1 and not mentions(b.value.args[0], x):
                        comp = ast.ListComp(elt=b.value.args[0], generators=[ast.comprehension(target=lp.target, iter=lp.iter,
                                                                                                 ifs=[cond] if cond is not None else [], is_async=0)])
                    elif (not is_list) and isinstance(b, ast.Assign) and len(b.targets) == 1 and isinstance(b.targets[0], ast.Subscript) and \
                            isinstance(b.targets[0].value, ast.Name) and b.targets[0].value.id == x and not mentions(b.value, x) and \
                            not mentions(b.targets[0].slice, x):
                        comp = ast.DictComp(key=b.targets[0].slice, value=b.value,
                                            generators=[ast.comprehension(target=lp.target, iter=lp.iter,
                                                                          ifs=[cond] if cond is not None else [], is_async=0)])
                    if comp is not None and not mentions(lp.iter, x) and not (cond is not None and mentions(cond, x)) and \
                            not _leaks(tree, lp):
                        new = ast.copy_location(ast.Assign(targets=[ast.Name(id=x, ctx=ast.Store())], value=ast.copy_location(comp, lp)), lp)
                        new._from_loop = True
                        blk[j] = new
                        del blk[i]
                        continue
            i += 1
    return tree


def merge_dict_stores(tree):
    """d = {..} ; d['k1'] = v1 ; d['k2'] = v2   ->   d = {.., 'k1': v1, 'k2': v2}   (constant keys, directly following stores whose
    values do not read d)"""
    for node, fld, blk in list(_blocks(tree)):
        i = 0
        while i < len(blk) - 1:
            st = blk[i]
            if isinstance(st, ast.Assign) and len(st.targets) == 1 and isinstance(st.targets[0], ast.Name) and isinstance(st.value, ast.Dict) and \
                    all(k is not None for k in st.value.keys):
                d = st.targets[0].id
                j = i + 1
                while j < len(blk):
                    nx = blk[j]
                    if isinstance(nx, ast.Assign) and len(nx.targets) == 1 and isinstance(nx.targets[0], ast.Subscript) and \
                            isinstance(nx.targets[0].value, ast.Name) and nx.targets[0].value.id == d and \
                            isinstance(nx.targets[0].slice, ast.Constant) and \
                            not any(isinstance(x, ast.Name) and x.id == d for x in ast.walk(nx.value)) and \
                            not any(isinstance(k, ast.Constant) and k.value == nx.targets[0].slice.value for k in st.value.keys):
                        st.value.keys.append(nx.targets[0].slice)
                        st.value.values.append(nx.value)
                        del blk[j]
                    else:
                        break
            i += 1
    return tree


def shape(tree, modname=None):
    tree = unroll_constant_loops(tree)
    tree = ifexp_to_statement(tree)
    tree = defaults_to_else(tree)
    tree = NNF().visit(tree)
    tree = Shape().visit(tree)
    if modname is not None:
        from .inline import inline_helpers
        tree._inlined_helpers = inline_helpers(tree, modname)
        if tree._inlined_helpers:
            # the spliced bodies bring their own returns-turned-assignments: same normal forms again
            tree = fold_constant_tests(tree)
            tree = split_tuple_assign(tree)
            tree = coalesce_generated(tree)
            tree = ifexp_to_statement(tree)
            tree = defaults_to_else(tree)
            tree = NNF().visit(tree)
            tree = Shape().visit(tree)
    tree = split_tuple_assign(tree)
    tree = structure(tree)
    tree = NNF().visit(tree)             # the nesting step creates new `not` tests
    tree = loops_to_comprehensions(tree)
    tree = merge_dict_stores(tree)
    tree = literal_dict_locals(tree)
    tree = Shape().visit(tree)          # getattr / f-strings over the constants written in
    return ast.fix_missing_locations(tree)


def shape_temps(tree):
    """second phase, after the purity of the package's own functions is known (purity()): temporaries"""
    if os.environ.get('GSCAN_NO_TEMPS') != '1':
        tree = inline_temps(tree)
    return ast.fix_missing_locations(inline_return_temps(tree))


MUTATORS = {'append', 'extend', 'insert', 'remove', 'pop', 'clear', 'sort', 'reverse', 'update', 'add', 'discard', 'setdefault', 'popitem',
            'write', 'writelines', 'close', 'send', 'put', 'fill', 'resize', 'itemset', 'seek', 'read', 'readline', 'next', '__next__'}
REPO_PURE_FUNCS = set()
REPO_PURE_METHODS = set()


def purity(trees):
    """names of the package's own functions / methods that are PURE, to a least fixed point: no store into an attribute or a
    subscript (except `self.x = ..` in `__init__`), no global / nonlocal / del / yield, and every call goes to a pure builtin, a pure
    method name, or a name all of whose definitions in the package are pure. Used by the temporaries pass to move a read across a
    call. A name is only trusted when EVERY function (method) of that name in the package is pure."""
    funcs, methods, classes = {}, {}, {}
    for t in trees:
        for n in ast.walk(t):
            if isinstance(n, ast.ClassDef):
                classes.setdefault(n.name, []).append(n)
                for m in n.body:
                    if isinstance(m, (ast.FunctionDef, ast.AsyncFunctionDef)):
                        m._is_method = True
                        methods.setdefault(m.name, []).append(m)
        for n in ast.walk(t):
            if isinstance(n, (ast.FunctionDef, ast.AsyncFunctionDef)) and not getattr(n, '_is_method', False):
                funcs.setdefault(n.name, []).append(n)

    def local_ok(fn, pure_f, pure_m):
        is_init = fn.name == '__init__' and getattr(fn, '_is_method', False)
        selfname = fn.args.args[0].arg if fn.args.args else None
        for x in ast.walk(fn):
            if isinstance(x, (ast.Global, ast.Nonlocal, ast.Delete, ast.Yield, ast.YieldFrom, ast.Await, ast.AsyncFunctionDef)):
                return False
            if isinstance(x, (ast.Attribute, ast.Subscript)) and isinstance(x.ctx, (ast.Store, ast.Del)):
                if is_init and isinstance(x, ast.Attribute) and isinstance(x.value, ast.Name) and x.value.id == selfname:
                    continue
                return False
            if isinstance(x, ast.Call):
                f = x.func
                if isinstance(f, ast.Name):
                    if f.id in PURE_FUNCS or f.id in pure_f:
                        continue
                    if f.id in classes and all(('__init__' not in [m.name for m in c.body if isinstance(m, ast.FunctionDef)]) or
                                               all(id(m) in pure_ids for m in c.body if isinstance(m, ast.FunctionDef) and m.name == '__init__')
                                               for c in classes[f.id]) and f.id not in funcs:
                        continue
                    return False
                if isinstance(f, ast.Attribute):
                    if f.attr in MUTATORS:
                        return False
                    if f.attr in PURE_METHODS and f.attr not in methods:
                        continue
                    if f.attr in pure_m:
                        continue
                    if isinstance(f.value, ast.Name) and f.value.id in ('np', 'numpy', 'math') and f.attr in PURE_FUNCS:
                        continue
                    return False
                return False
        return True
    pure_ids = set()
    pure_f, pure_m = set(), set()
    for _ in range(12):
        before = len(pure_ids)
        for group in list(funcs.values()) + list(methods.values()):
            for fn in group:
                if id(fn) not in pure_ids and local_ok(fn, pure_f, pure_m):
                    pure_ids.add(id(fn))
        pure_f = {n for n, g in funcs.items() if all(id(f) in pure_ids for f in g) and n not in classes}
        pure_m = {n for n, g in methods.items() if all(id(f) in pure_ids for f in g) and n not in MUTATORS and not n.startswith('__')}
        if len(pure_ids) == before:
            break
    return pure_f, pure_m


def positional_calls(repo):
    """keywords of calls to resolved package functions / methods become positional where the signature allows it"""
    from .model import Func
    for f in repo.all_funcs():
        for n in ast.walk(f.node):
            if not isinstance(n, ast.Call):
                continue
            try:
                callee = repo.resolve_call(f, n)
            except Exception:
                callee = None
            if not isinstance(callee, Func):
                continue
            ps = list(callee.params)
            if callee.cls is not None and callee.kind in ('method', 'getter', 'setter') and ps and ps[0] in ('self',) and \
                    isinstance(n.func, ast.Attribute):
                ps = ps[1:]
            elif callee.cls is not None and getattr(callee, 'kind', '') == 'classmethod' and ps:
                ps = ps[1:]
            if callee.node.args.vararg is not None or any(isinstance(a, ast.Starred) for a in n.args) or any(k.arg is None for k in n.keywords):
                n._callee_params = ps
                continue
            kw = {k.arg: k for k in n.keywords}
            i = len(n.args)
            moved = False
            while i < len(ps) and ps[i] in kw and ps[i] not in callee.kwonly:
                k = kw.pop(ps[i])
                n.args.append(k.value)
                n.keywords.remove(k)
                k.value._parent = n
                i += 1
                moved = True
            n._callee_params = ps
            n._kw_moved = moved


# ------------------------------------------------------------------------------------------------ temporaries
PURE_FUNCS = {
    'len', 'min', 'max', 'sum', 'abs', 'round', 'float', 'int', 'str', 'bool', 'list', 'tuple', 'dict', 'set', 'frozenset', 'sorted',
    'reversed', 'enumerate', 'zip', 'range', 'any', 'all', 'isinstance', 'hasattr', 'getattr', 'id', 'repr', 'type', 'divmod', 'pow',
    'zeros', 'ones', 'array', 'asarray', 'outer', 'log10', 'log', 'log2', 'exp', 'sqrt', 'sin', 'cos', 'tan', 'arange', 'linspace',
    'interp', 'polyfit', 'polyval', 'squeeze', 'mean', 'argsort', 'argmin', 'argmax', 'cumsum', 'diff', 'concatenate', 'full', 'where',
    'ceil', 'floor', 'isscalar', 'isnan', 'clip', 'searchsorted', 'unique', 'amax', 'amin', 'tile', 'divide', 'multiply', 'prod',
    'matmul', 'flip', 'sort', 'copy', 'deepcopy', 'sinc', 'pi', 'arcsinh', 'arctan', 'expand_dims', 'stack', 'hstack', 'vstack',
    'zeros_like', 'ones_like', 'full_like', 'transpose', 'reshape', 'ravel', 'fabs', 'sign', 'square', 'power', 'maximum', 'minimum',
    'pairwise', 'lin2db', 'db2lin', 'watt2dbm', 'dbm2watt', 'Decimal', 'Fraction', 'namedtuple', 'OrderedDict', 'Counter', 'defaultdict',
}
PURE_METHODS = {'get', 'items', 'values', 'keys', 'lower', 'upper', 'strip', 'lstrip', 'rstrip', 'split', 'startswith', 'endswith',
                'format', 'copy', 'index', 'count', 'join', 'replace', 'title', 'isdigit', 'astype', 'tolist', 'flatten', 'reshape',
                'transpose', 'squeeze', 'mean', 'sum', 'min', 'max', 'any', 'all', 'argmin', 'argmax', 'successors', 'predecessors',
                'neighbors', 'nodes', 'edges', 'rjust', 'ljust', 'encode', 'decode', 'union', 'intersection', 'difference', 'issubset'}


def effect_free(e):
    """evaluating e changes nothing (attribute / subscript reads and the operators of the values involved are taken to be pure)"""
    for x in ast.walk(e):
        if isinstance(x, ast.Call):
            f = x.func
            if isinstance(f, ast.Name) and (f.id in PURE_FUNCS or f.id in REPO_PURE_FUNCS):
                continue
            if isinstance(f, ast.Attribute) and (f.attr in PURE_METHODS or f.attr in REPO_PURE_METHODS):
                continue
            if isinstance(f, ast.Attribute) and isinstance(f.value, ast.Name) and f.value.id in ('np', 'numpy', 'math') and \
                    f.attr in PURE_FUNCS:
                continue
            return False
        if isinstance(x, (ast.NamedExpr, ast.Yield, ast.YieldFrom, ast.Await, ast.Lambda)):
            return False
    return True


def _effect_free_stmt(s):
    if isinstance(s, (ast.Assign, ast.AnnAssign)):
        ts = s.targets if isinstance(s, ast.Assign) else [s.target]
        def plain(t):
            return isinstance(t, ast.Name) or (isinstance(t, (ast.Tuple, ast.List)) and all(plain(y) for y in t.elts))
        return all(plain(t) for t in ts) and (s.value is None or effect_free(s.value))
    if isinstance(s, ast.Expr):
        return effect_free(s.value)
    if isinstance(s, ast.If):
        return effect_free(s.test) and all(_effect_free_stmt(x) for x in s.body + s.orelse)
    if isinstance(s, (ast.Pass, ast.Return, ast.Raise, ast.Continue, ast.Break)):
        return True          # after a terminator nothing of this block is evaluated any more
    return False


_STORES_CACHE = {}


def _stores(node):
    k = id(node)
    hit = _STORES_CACHE.get(k)
    if hit is not None and hit[0] is node:
        return hit[1]
    out = set()
    for x in ast.walk(node):
        if isinstance(x, ast.Name) and isinstance(x.ctx, (ast.Store, ast.Del)):
            out.add(x.id)
    if isinstance(node, ast.stmt):
        _STORES_CACHE[k] = (node, out)        # stores of a statement do not change when temporaries (loads) are written out
    return out


class _UseOrder:
    """walks one statement's header expressions in evaluation order; records for each Load of `name` whether it is evaluated
    unconditionally, exactly once, and before any effect of the statement"""
    def __init__(self, name):
        self.name = name
        self.effect = False
        self.uses = []        # (node, unconditional, before_effect)

    def ev(self, e, uncond=True, once=True):
        if e is None:
            return
        if isinstance(e, ast.Name):
            if e.id == self.name and isinstance(e.ctx, ast.Load):
                self.uses.append((e, uncond and once, not self.effect))
            return
        if isinstance(e, ast.Constant):
            return
        if isinstance(e, ast.BoolOp):
            self.ev(e.values[0], uncond, once)
            for v in e.values[1:]:
                self.ev(v, False, once)
            return
        if isinstance(e, ast.IfExp):
            self.ev(e.test, uncond, once)
            self.ev(e.body, False, once)
            self.ev(e.orelse, False, once)
            return
        if isinstance(e, (ast.ListComp, ast.SetComp, ast.GeneratorExp, ast.DictComp)):
            g0 = e.generators[0]
            lazy = isinstance(e, ast.GeneratorExp)
            self.ev(g0.iter, uncond and not lazy or uncond, once)
            rest = [c for c in g0.ifs]
            for g in e.generators[1:]:
                rest += [g.iter] + list(g.ifs)
            rest += [e.key, e.value] if isinstance(e, ast.DictComp) else [e.elt]
            for r in rest:
                self.ev(r, False, False)
            return
        if isinstance(e, ast.Lambda):
            self.ev(e.body, False, False)
            return
        if isinstance(e, ast.Call):
            self.ev(e.func, uncond, once)
            for a in e.args:
                self.ev(a.value if isinstance(a, ast.Starred) else a, uncond, once)
            for k in e.keywords:
                self.ev(k.value, uncond, once)
            if not effect_free(ast.Call(func=e.func, args=[], keywords=[])):
                self.effect = True
            return
        if isinstance(e, ast.Compare):
            self.ev(e.left, uncond, once)
            self.ev(e.comparators[0], uncond, once)
            for c in e.comparators[1:]:
                self.ev(c, False, once)
            return
        if isinstance(e, (ast.NamedExpr, ast.Await, ast.Yield, ast.YieldFrom)):
            for c in ast.iter_child_nodes(e):
                self.ev(c, uncond, once)
            self.effect = True
            return
        for c in ast.iter_child_nodes(e):
            if isinstance(c, ast.expr):
                self.ev(c, uncond, once)
            elif isinstance(c, (ast.keyword, ast.FormattedValue)):
                self.ev(c.value, uncond, once)
            elif isinstance(c, ast.comprehension):
                pass


def _header_exprs(s):
    """expressions a statement evaluates itself (not its nested blocks), in evaluation order; None when the order is not modelled"""
    if isinstance(s, ast.Assign):
        return [s.value] + [t for t in s.targets if not isinstance(t, ast.Name)]
    if isinstance(s, ast.AnnAssign):
        return [s.value] if isinstance(s.target, ast.Name) else None
    if isinstance(s, ast.AugAssign):
        return [s.value] if isinstance(s.target, ast.Name) else None
    if isinstance(s, (ast.Return, ast.Expr)):
        return [s.value]
    if isinstance(s, ast.If):
        return [s.test]
    if isinstance(s, (ast.For, ast.AsyncFor)):
        return [s.iter]
    if isinstance(s, ast.Raise):
        return [s.exc, s.cause]
    if isinstance(s, ast.Assert):
        return [s.test]
    return None


def inline_temps(tree):
    """t = e  ...  use(t)   ->   ... use(e)     for a local t assigned once, when that is exactly behaviour-preserving:
       - every use of t is in the header expressions (not the nested blocks) of later statements of the same block, evaluated
         unconditionally and before any effect of its statement; t is not used in a nested function;
       - one use and e arbitrary: the use is in the NEXT statement and only names / constants are evaluated before it;
       - e effect-free (reads, arithmetic, pure builtins / numpy / pure methods): the use may be any later statement; the statements
         between the definition and the last use are effect-free assignments to other locals that bind no name e reads;
       - several uses: only when e is a reference (name, attribute / constant-subscript chain, constant), which gives the same object
         each time - an expression that builds a new object is never duplicated."""
    for fn in [n for n in ast.walk(tree) if isinstance(n, (ast.FunctionDef, ast.AsyncFunctionDef))]:
        for _ in range(8):
            if not _inline_temps_once(fn):
                break
    return tree


def _inline_temps_once(fn):
    params = {a.arg for a in fn.args.args + fn.args.kwonlyargs + fn.args.posonlyargs}
    if fn.args.vararg:
        params.add(fn.args.vararg.arg)
    if fn.args.kwarg:
        params.add(fn.args.kwarg.arg)
    stores, loads, banned = {}, {}, set(params)
    todo = list(fn.body)
    while todo:
        n = todo.pop()
        if isinstance(n, (ast.FunctionDef, ast.AsyncFunctionDef, ast.ClassDef, ast.Lambda)):
            # names read or bound in nested scopes are left alone (late binding)
            for x in ast.walk(n):
                if isinstance(x, ast.Name):
                    banned.add(x.id)
            if isinstance(n, (ast.FunctionDef, ast.AsyncFunctionDef, ast.ClassDef)):
                banned.add(n.name)
            continue
        if isinstance(n, (ast.Global, ast.Nonlocal)):
            banned.update(n.names)
        if isinstance(n, ast.Name):
            if isinstance(n.ctx, ast.Load):
                loads[n.id] = loads.get(n.id, 0) + 1
            else:
                stores[n.id] = stores.get(n.id, 0) + 1
        if isinstance(n, ast.ExceptHandler):
            if n.name:
                banned.add(n.name)
            # what a handler reads must be bound exactly where the source binds it
            banned.update(x.id for b in n.body for x in ast.walk(b) if isinstance(x, ast.Name))
        if isinstance(n, ast.Try):
            banned.update(x.id for b in n.finalbody for x in ast.walk(b) if isinstance(x, ast.Name))
        if isinstance(n, (ast.Import, ast.ImportFrom)):
            banned.update((a.asname or a.name).split('.')[0] for a in n.names)
        if isinstance(n, (ast.AugAssign,)) and isinstance(n.target, ast.Name):
            banned.add(n.target.id)
        if isinstance(n, (ast.With, ast.AsyncWith)):
            for it in n.items:
                if it.optional_vars is not None:
                    banned.update(_stores(it.optional_vars))
        if isinstance(n, (ast.For, ast.AsyncFor)):
            banned.update(_stores(n.target))
        if isinstance(n, ast.comprehension):
            banned.update(_stores(n.target))
        if isinstance(n, ast.NamedExpr):
            banned.add(n.target.id)
        todo.extend(ast.iter_child_nodes(n))
    changed = False
    cfg = None
    for blk in _own_blocks(fn):
        # blocks of nested functions are handled with their own function
        i = 0
        while i < len(blk):
            st = blk[i]
            if not (isinstance(st, ast.Assign) and len(st.targets) == 1 and isinstance(st.targets[0], ast.Name)):
                i += 1
                continue
            t = st.targets[0].id
            if t in banned or not stores.get(t) or not loads.get(t):
                i += 1
                continue
            e = st.value
            if stores[t] == 1:
                end, need = len(blk), loads[t]
            else:
                # several definitions: reaching definitions on the statement CFG - every load this definition reaches must be in the
                # header of one of the statements that follow it in its block, before the next store to t in that block
                k = next((j_ for j_ in range(i + 1, len(blk)) if t in _stores(blk[j_])), None)
                end = len(blk) if k is None else k + 1
                if k is not None and not (isinstance(blk[k], ast.Assign) and any(
                        isinstance(y, ast.Name) and y.id == t for tg in blk[k].targets
                        for y in (tg.elts if isinstance(tg, (ast.Tuple, ast.List)) else [tg]))):
                    i += 1
                    continue
                if cfg is None:
                    from .cfg import CFG
                    try:
                        cfg = CFG(fn)
                    except Exception:
                        cfg = False
                reached = _reached_loads(cfg, st, t) if cfg else None
                region = {id(s_) for s_ in blk[i + 1:end]}
                if reached is None or not reached or not all(id(n_.stmt) in region for n_ in reached):
                    i += 1
                    continue
                need = sum(1 for s_ in blk[i + 1:end] for x in ast.walk(s_) if isinstance(x, ast.Name) and x.id == t and
                           isinstance(x.ctx, ast.Load))
                if not need:
                    i += 1
                    continue
            if any(isinstance(x, ast.Name) and x.id == t for x in ast.walk(e)):
                i += 1
                continue
            pure = effect_free(e)
            if need > 1 and not _reference_expr(e):
                i += 1          # evaluated several times it would give several objects: only references may be duplicated
                continue
            reads = {x.id for x in ast.walk(e) if isinstance(x, ast.Name)}
            found, ok, j = [], True, i + 1
            while j < end and len(found) < need:
                s = blk[j]
                hdr = _header_exprs(s)
                n_here = sum(1 for x in ast.walk(s) if isinstance(x, ast.Name) and x.id == t and isinstance(x.ctx, ast.Load))
                if n_here:
                    if hdr is None:
                        ok = False
                        break
                    uo = _UseOrder(t)
                    for h in hdr:
                        uo.ev(h)
                    if len(uo.uses) != n_here or not all(u and b for _, u, b in uo.uses):
                        ok = False
                        break
                    if not pure:
                        # arbitrary e: next statement, single use, only names / constants evaluated before it
                        if j != i + 1 or need != 1 or not _leads(hdr, t):
                            ok = False
                            break
                    found.extend(x for x, _, _ in uo.uses)
                if len(found) < need:
                    # s lies between the definition and a later use
                    if not pure or not _effect_free_stmt(s) or (_stores(s) & (reads | {t})):
                        ok = False
                        break
                j += 1
            if not ok or len(found) != need:
                i += 1
                continue
            for s in blk[i + 1:j]:             # j is one past the last statement examined
                _replace_name(s, t, e)
            del blk[i]
            changed = True
            cfg = None
            stores[t] -= 1
            loads[t] -= need
            for x in ast.walk(e):
                if isinstance(x, ast.Name) and isinstance(x.ctx, ast.Load):
                    loads[x.id] = loads.get(x.id, 0) + max(len(found) - 1, 0)
        # next block
    return changed


def _reached_loads(cfg, def_stmt, t):
    """CFG nodes that read t and can be reached from the definition def_stmt without passing another store to t; None if unknown"""
    nd = cfg.stmt_node.get(id(def_stmt))
    if nd is None or len(cfg.stmt_nodes.get(id(def_stmt), [])) != 1:
        return None

    def code_names(n, ctx):
        c = n.code()
        if c is None:
            return False
        if isinstance(c, (ast.FunctionDef, ast.AsyncFunctionDef, ast.ClassDef)):
            return False
        return any(isinstance(x, ast.Name) and x.id == t and isinstance(x.ctx, ctx) for x in ast.walk(c))
    out, seen = [], set()
    todo = list(cfg.succ[nd.id])
    while todo:
        k = todo.pop()
        if k in seen:
            continue
        seen.add(k)
        n = cfg.nodes[k]
        if code_names(n, ast.Load):
            out.append(n)
        if k == nd.id:
            continue          # back at the definition itself (loop): it stores t again
        store_here = code_names(n, (ast.Store, ast.Del)) or (n.kind == 'iter' and any(
            isinstance(x, ast.Name) and x.id == t for x in ast.walk(n.stmt.target)))
        if store_here:
            continue
        todo.extend(cfg.succ[k])
    return out


def _reference_expr(e):
    """evaluates to the same object every time (nothing in between having an effect): names, attribute / constant-subscript chains,
    constants"""
    if isinstance(e, (ast.Name, ast.Constant)):
        return True
    if isinstance(e, ast.Attribute):
        return _reference_expr(e.value)
    if isinstance(e, ast.Subscript):
        return _reference_expr(e.value) and _reference_expr(e.slice) and not isinstance(e.slice, ast.Slice)
    if isinstance(e, ast.UnaryOp) and isinstance(e.operand, ast.Constant):
        return True
    return False


def _own_blocks(fn):
    """the statement blocks of fn itself (nested functions / classes / lambdas not entered)"""
    out = []
    todo = [fn]
    while todo:
        n = todo.pop()
        for fld in ('body', 'orelse', 'finalbody'):
            blk = getattr(n, fld, None)
            if isinstance(blk, list) and blk and isinstance(blk[0], ast.stmt):
                out.append(blk)
        for c in ast.iter_child_nodes(n):
            if isinstance(c, (ast.FunctionDef, ast.AsyncFunctionDef, ast.ClassDef, ast.Lambda)):
                continue
            todo.append(c)
    return out


def _leads(hdr, t):
    """the use of t is the first thing evaluated that is not a name / constant"""
    e = hdr[0] if hdr else None
    while e is not None:
        if isinstance(e, ast.Name):
            return e.id == t
        if isinstance(e, (ast.Attribute, ast.Subscript, ast.Starred)):
            e = e.value
        elif isinstance(e, ast.Call):
            if isinstance(e.func, ast.Attribute):
                e = e.func.value
            elif isinstance(e.func, ast.Name):
                k = 0
                while k < len(e.args) and isinstance(e.args[k], (ast.Name, ast.Constant)) and not (isinstance(e.args[k], ast.Name) and e.args[k].id == t):
                    k += 1
                if k < len(e.args):
                    e = e.args[k]
                else:
                    kws = [kw.value for kw in e.keywords]
                    m = 0
                    while m < len(kws) and isinstance(kws[m], (ast.Name, ast.Constant)) and not (isinstance(kws[m], ast.Name) and kws[m].id == t):
                        m += 1
                    e = kws[m] if m < len(kws) else None
            else:
                return False
        elif isinstance(e, ast.BinOp):
            e = e.left if not isinstance(e.left, ast.Constant) and not (isinstance(e.left, ast.Name) and e.left.id != t) else e.right
        elif isinstance(e, ast.Compare):
            e = e.left if not isinstance(e.left, ast.Constant) and not (isinstance(e.left, ast.Name) and e.left.id != t) else e.comparators[0]
        elif isinstance(e, ast.BoolOp):
            e = e.values[0]
        elif isinstance(e, ast.UnaryOp):
            e = e.operand
        elif isinstance(e, (ast.Tuple, ast.List)):
            k = 0
            while k < len(e.elts) and isinstance(e.elts[k], (ast.Name, ast.Constant)) and not (isinstance(e.elts[k], ast.Name) and e.elts[k].id == t):
                k += 1
            e = e.elts[k] if k < len(e.elts) else None
        elif isinstance(e, ast.JoinedStr):
            vals = [v.value for v in e.values if isinstance(v, ast.FormattedValue)]
            e = vals[0] if vals else None
        elif isinstance(e, (ast.ListComp, ast.SetComp, ast.DictComp, ast.GeneratorExp)):
            e = e.generators[0].iter         # the first iterable is evaluated first, and once
        else:
            return False
    return False


def _replace_name(stmt, t, e):
    import copy

    class R(ast.NodeTransformer):
        def visit_Name(self, n):
            if n.id == t and isinstance(n.ctx, ast.Load):
                new = copy.deepcopy(e)
                new._from_temp = t
                return new
            return n
    hdr_fields = {ast.Assign: ('value', 'targets'), ast.AnnAssign: ('value',), ast.AugAssign: ('value',), ast.Return: ('value',),
                  ast.Expr: ('value',), ast.If: ('test',), ast.For: ('iter',), ast.AsyncFor: ('iter',), ast.Raise: ('exc', 'cause'),
                  ast.Assert: ('test',)}
    for f in hdr_fields.get(type(stmt), ()):
        v = getattr(stmt, f)
        if isinstance(v, list):
            setattr(stmt, f, [R().visit(x) for x in v])
        elif v is not None:
            setattr(stmt, f, R().visit(v))
