"""Canonicalising front end: behaviour-preserving surface variations are removed when the program model is built, so that
every rule sees one shape (source positions are kept for the reports).

  two-armed if      `if not c: A else: B`        ->  `if c: B else: A`          (no elif chains)
  comparisons       `a > b`, `a >= b`            ->  `b < a`, `b <= a`          (single operator)
  return temps      `t = e; return t`            ->  `return e`                 (t used nowhere else)
  calls             f(a, y=c, x=b)               ->  f(a, b, c)                 (callee resolved in the package; the
                                                                                   parameter names are kept on the node)
"""
import ast


class Shape(ast.NodeTransformer):
    def visit_If(self, n):
        self.generic_visit(n)
        if n.orelse and isinstance(n.test, ast.UnaryOp) and isinstance(n.test.op, ast.Not) and \
                not (len(n.orelse) == 1 and isinstance(n.orelse[0], ast.If)) and not (len(n.body) == 1 and isinstance(n.body[0], ast.If)):
            new = ast.If(test=n.test.operand, body=n.orelse, orelse=n.body)
            new = ast.copy_location(new, n)
            new._swapped = True
            return new
        return n

    def visit_Compare(self, n):
        self.generic_visit(n)
        if len(n.ops) == 1 and isinstance(n.ops[0], (ast.Gt, ast.GtE)):
            op = ast.Lt() if isinstance(n.ops[0], ast.Gt) else ast.LtE()
            return ast.copy_location(ast.Compare(left=n.comparators[0], ops=[op], comparators=[n.left]), n)
        return n


def inline_return_temps(tree):
    """`t = e` immediately followed by `return t` -> `return e` (t used nowhere else in the function than in such pairs)"""
    for fn in [n for n in ast.walk(tree) if isinstance(n, (ast.FunctionDef, ast.AsyncFunctionDef))]:
        uses = {}
        for n in ast.walk(fn):
            if isinstance(n, ast.Name):
                uses[n.id] = uses.get(n.id, 0) + 1

        def blocks():
            for node in ast.walk(fn):
                for fld in ('body', 'orelse', 'finalbody'):
                    blk = getattr(node, fld, None)
                    if isinstance(blk, list) and len(blk) >= 2 and isinstance(blk[0], ast.stmt):
                        yield blk

        def is_pair(a, r):
            return isinstance(a, ast.Assign) and len(a.targets) == 1 and isinstance(a.targets[0], ast.Name) and \
                isinstance(r, ast.Return) and isinstance(r.value, ast.Name) and r.value.id == a.targets[0].id
        pairs = {}
        for blk in blocks():
            for a, r in zip(blk, blk[1:]):
                if is_pair(a, r):
                    pairs[a.targets[0].id] = pairs.get(a.targets[0].id, 0) + 1
        ok = {t for t, k in pairs.items() if uses.get(t, 0) == 2 * k}
        if not ok:
            continue
        for blk in list(blocks()):
            i = 0
            while i < len(blk) - 1:
                a, r = blk[i], blk[i + 1]
                if is_pair(a, r) and a.targets[0].id in ok:
                    new = ast.copy_location(ast.Return(value=a.value), a)
                    new._inlined_temp = a.targets[0].id
                    blk[i:i + 2] = [new]
                else:
                    i += 1
    return tree


def shape(tree):
    return ast.fix_missing_locations(inline_return_temps(Shape().visit(tree)))


def positional_calls(repo):
    """keywords of calls to resolved package functions / methods become positional where the signature allows it"""
    from .model import Func
    for f in repo.all_funcs():
        for n in ast.walk(f.node):
            if not isinstance(n, ast.Call):
                continue
            try:
                callee = repo.resolve_call(f, n)
            except Exception:
                callee = None
            if not isinstance(callee, Func):
                continue
            ps = list(callee.params)
            if callee.cls is not None and callee.kind in ('method', 'getter', 'setter') and ps and ps[0] in ('self',) and \
                    isinstance(n.func, ast.Attribute):
                ps = ps[1:]
            elif callee.cls is not None and getattr(callee, 'kind', '') == 'classmethod' and ps:
                ps = ps[1:]
            if callee.node.args.vararg is not None or any(isinstance(a, ast.Starred) for a in n.args) or any(k.arg is None for k in n.keywords):
                n._callee_params = ps
                continue
            kw = {k.arg: k for k in n.keywords}
            i = len(n.args)
            moved = False
            while i < len(ps) and ps[i] in kw and ps[i] not in callee.kwonly:
                k = kw.pop(ps[i])
                n.args.append(k.value)
                n.keywords.remove(k)
                k.value._parent = n
                i += 1
                moved = True
            n._callee_params = ps
            n._kw_moved = moved
