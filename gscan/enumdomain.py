"""Finite-domain evaluation of a small pure function over an Enum's members (DESIGN 2.6: small abstract domains).

The function's AST is interpreted by this module for every combination of enum members; nothing of the repository is
imported or executed.  Supported fragment: names, enum members and their .value, constants, comparisons (==, !=, is,
in, not in), and/or/not, conditional expressions, list/tuple literals, if/else statements, append to a result list,
return of a list comprehension over zip(params).  Anything else -> CannotAnalyse."""
import ast
import itertools

from .model import CannotAnalyse


class Member:
    def __init__(self, cls, name, value):
        self.cls, self.name, self.value = cls, name, value

    def __repr__(self):
        return f'{self.cls}.{self.name}'

    def __eq__(self, o):
        return isinstance(o, Member) and o.cls == self.cls and o.name == self.name

    def __hash__(self):
        return hash((self.cls, self.name))


def members_of(cls):
    out = {}
    for k, v in cls.class_assigns.items():
        try:
            out[k] = Member(cls.name, k, ast.literal_eval(v))
        except Exception:
            pass
    return out


def ev(e, env, enums):
    if isinstance(e, ast.Constant):
        return e.value
    if isinstance(e, ast.Name):
        if e.id in env:
            return env[e.id]
        raise CannotAnalyse(f'free name {e.id}')
    if isinstance(e, ast.Attribute):
        if isinstance(e.value, ast.Name) and e.value.id in enums:
            m = enums[e.value.id].get(e.attr)
            if m is None:
                raise CannotAnalyse(f'unknown member {e.value.id}.{e.attr}')
            return m
        base = ev(e.value, env, enums)
        if isinstance(base, Member) and e.attr == 'value':
            return base.value
        if isinstance(base, Member) and e.attr == 'name':
            return base.name
        raise CannotAnalyse(f'attribute {ast.unparse(e)}')
    if isinstance(e, (ast.List, ast.Tuple, ast.Set)):
        return [ev(x, env, enums) for x in e.elts]
    if isinstance(e, ast.BoolOp):
        vals = e.values
        if isinstance(e.op, ast.And):
            r = True
            for v in vals:
                r = ev(v, env, enums)
                if not r:
                    return r
            return r
        r = False
        for v in vals:
            r = ev(v, env, enums)
            if r:
                return r
        return r
    if isinstance(e, ast.UnaryOp) and isinstance(e.op, ast.Not):
        return not ev(e.operand, env, enums)
    if isinstance(e, ast.IfExp):
        return ev(e.body, env, enums) if ev(e.test, env, enums) else ev(e.orelse, env, enums)
    if isinstance(e, ast.Compare):
        left = ev(e.left, env, enums)
        for op, c in zip(e.ops, e.comparators):
            right = ev(c, env, enums)
            if isinstance(op, (ast.Eq, ast.Is)):
                r = left == right
            elif isinstance(op, (ast.NotEq, ast.IsNot)):
                r = left != right
            elif isinstance(op, ast.In):
                r = any(left == x for x in right)
            elif isinstance(op, ast.NotIn):
                r = not any(left == x for x in right)
            else:
                raise CannotAnalyse(f'comparison {type(op).__name__}')
            if not r:
                return False
            left = right
        return True
    raise CannotAnalyse(f'expression {type(e).__name__}: {ast.unparse(e)[:60]}')


def pairwise_table(func, enum_cls):
    """{(m1, m2): result member} for a function mapping two equally long lists element-wise (zip) to a list"""
    enums = {enum_cls.name: members_of(enum_cls)}
    mem = list(enums[enum_cls.name].values())
    a, b = func.params[:2]
    body = [s for s in func.node.body if not (isinstance(s, ast.Expr) and isinstance(s.value, ast.Constant))]
    # form 1: return [elt for x, y in zip(a, b)]
    # form 2: res = []; for x, y in zip(a, b): (if/else)* res.append(v); return res
    table = {}
    ret = next((s for s in body if isinstance(s, ast.Return)), None)
    if ret is None:
        raise CannotAnalyse('no return')

    def zip_vars(it, tgt):
        ok = isinstance(it, ast.Call) and getattr(it.func, 'id', '') == 'zip' and [ast.unparse(x) for x in it.args] == [a, b] and \
            isinstance(tgt, ast.Tuple) and len(tgt.elts) == 2 and all(isinstance(x, ast.Name) for x in tgt.elts)
        if not ok:
            raise CannotAnalyse('not an element-wise zip over the two arguments')
        return tgt.elts[0].id, tgt.elts[1].id
    # locals bound once, at the top level, to a value that does not depend on the elements (a tuple of members, a constant)
    consts = {}
    nstores = {}
    for x_ in ast.walk(func.node):
        if isinstance(x_, ast.Name) and isinstance(x_.ctx, ast.Store):
            nstores[x_.id] = nstores.get(x_.id, 0) + 1
    for s_ in body:
        if isinstance(s_, ast.Assign) and len(s_.targets) == 1 and isinstance(s_.targets[0], ast.Name) and nstores.get(s_.targets[0].id) == 1:
            try:
                consts[s_.targets[0].id] = ev(s_.value, consts, enums)
            except CannotAnalyse:
                pass
    if isinstance(ret.value, ast.ListComp):
        g = ret.value.generators[0]
        if len(ret.value.generators) != 1 or g.ifs:
            raise CannotAnalyse('filtered / nested comprehension')
        x, y = zip_vars(g.iter, g.target)
        for m1, m2 in itertools.product(mem, mem):
            table[(m1, m2)] = ev(ret.value.elt, dict(consts, **{x: m1, y: m2}), enums)
        return table
    loops = [s for s in body if isinstance(s, ast.For)]
    if len(loops) != 1 or not isinstance(ret.value, ast.Name):
        raise CannotAnalyse('unsupported shape')
    res = ret.value.id
    x, y = zip_vars(loops[0].iter, loops[0].target)

    def run(stmts, env):
        out = []
        for s in stmts:
            if isinstance(s, ast.If):
                out += run(s.body if ev(s.test, env, enums) else s.orelse, env)
            elif isinstance(s, ast.Expr) and isinstance(s.value, ast.Call) and isinstance(s.value.func, ast.Attribute) and \
                    s.value.func.attr == 'append' and ast.unparse(s.value.func.value) == res:
                out.append(ev(s.value.args[0], env, enums))
            elif isinstance(s, ast.Pass):
                pass
            else:
                raise CannotAnalyse(f'statement {type(s).__name__} in the element loop')
        return out
    for m1, m2 in itertools.product(mem, mem):
        r = run(loops[0].body, dict(consts, **{x: m1, y: m2}))
        if len(r) != 1:
            raise CannotAnalyse(f'{len(r)} results appended for one pair')
        table[(m1, m2)] = r[0]
    return table
