"""Helper inlining for the canonical model.

The rules are anchored in the functions of the reference tree (gscan/known_functions.json, a frozen table of their qualified
names). A function that is NOT in that table is a helper somebody extracted (or added): its calls inside the module are replaced by
its body, so that `extract function` leaves the canonical model unchanged and a defect hidden in a new helper is seen at the place
where it acts.  A helper is inlined only when this is exactly behaviour-preserving:

  * plain def (no decorator but staticmethod, no *args / **kwargs, no yield / await / global / nonlocal, not recursive,
    no nested def or class), called by its bare name (module helper, nested helper) or as self.<name>(..) / Cls.<name>(..) in its class;
  * every argument binds to one parameter; a parameter is replaced by its argument when the argument is a name / constant /
    attribute chain that the helper never rebinds, otherwise `param = argument` statements are emitted in call order;
  * expression helper (`return E` only): substituted wherever the call stands;
  * statement helper: only where the call is the whole right-hand side of an assignment, a returned value or an expression statement;
    its returns are eliminated structurally (`if c: return A` ; REST  ->  `if c: target = A  else: REST'`); a return inside a loop /
    try / with is not eliminated - the helper then stays a call;
  * helper locals that collide with a name of the caller are renamed.
A helper whose calls were all inlined is removed from the model; one that is still referenced (passed as a value, exported, called
from another module) stays, and so do its remaining calls.
"""
import ast
import copy
import json
import os

_KNOWN = None


def known():
    global _KNOWN
    if _KNOWN is None:
        with open(os.path.join(os.path.dirname(__file__), 'known_functions.json')) as fh:
            d = json.load(fh)
        _KNOWN = set(d['functions']) | set(d['nested'])
    return _KNOWN


FUNC = (ast.FunctionDef, ast.AsyncFunctionDef)


def _docless(body):
    if body and isinstance(body[0], ast.Expr) and isinstance(body[0].value, ast.Constant) and isinstance(body[0].value.value, str):
        return body[1:]
    return body


def _walk_no_nested(nodes):
    todo = list(nodes)
    while todo:
        n = todo.pop()
        yield n
        if isinstance(n, FUNC + (ast.ClassDef, ast.Lambda)):
            continue
        todo.extend(ast.iter_child_nodes(n))


class Helper:
    def __init__(self, node, kind, owner):
        self.node, self.kind, self.owner = node, kind, owner      # kind: 'module' | 'method' | 'static' | 'nested'
        a = node.args
        self.params = [x.arg for x in a.posonlyargs + a.args]
        self.kwonly = [x.arg for x in a.kwonlyargs]
        self.defaults = dict(zip(self.params[len(self.params) - len(a.defaults):], a.defaults))
        self.defaults.update({k.arg: d for k, d in zip(a.kwonlyargs, a.kw_defaults) if d is not None})
        self.body = _docless(node.body)
        self.ok = self._eligible()
        self.expr = self.body[0].value if self.ok and len(self.body) == 1 and isinstance(self.body[0], ast.Return) and \
            self.body[0].value is not None else (self._return_chain(self.body) if self.ok else None)

    @staticmethod
    def _return_chain(body):
        """`if c: return A` ; `return B`  (any depth, also if/else of returns)  as the expression  A if c else B"""
        if len(body) == 1 and isinstance(body[0], ast.Return) and body[0].value is not None:
            return body[0].value
        if body and isinstance(body[0], ast.If):
            a = Helper._return_chain(body[0].body)
            rest = list(body[0].orelse) if body[0].orelse else body[1:]
            if body[0].orelse and body[1:]:
                return None
            b = Helper._return_chain(rest) if rest else None
            if a is not None and b is not None:
                return ast.copy_location(ast.IfExp(test=body[0].test, body=a, orelse=b), body[0])
        return None

    def _eligible(self):
        n = self.node
        if isinstance(n, ast.AsyncFunctionDef) or n.args.vararg or n.args.kwarg:
            return False
        decs = [ast.unparse(d) for d in n.decorator_list]
        if [d for d in decs if d != 'staticmethod']:
            return False
        for x in _walk_no_nested(n.body):
            if isinstance(x, (ast.Yield, ast.YieldFrom, ast.Await, ast.Global, ast.Nonlocal) + FUNC + (ast.ClassDef,)):
                return False
            if isinstance(x, ast.Call) and ((isinstance(x.func, ast.Name) and x.func.id == n.name) or
                                            (isinstance(x.func, ast.Attribute) and x.func.attr == n.name)):
                return False
            if isinstance(x, ast.Name) and x.id in ('locals', 'vars', 'super'):
                return False
        return bool(self.body)

    def assigned(self):
        out = set()
        for x in _walk_no_nested(self.body):
            if isinstance(x, ast.Name) and isinstance(x.ctx, (ast.Store, ast.Del)):
                out.add(x.id)
            elif isinstance(x, ast.ExceptHandler) and x.name:
                out.add(x.name)
            elif isinstance(x, (ast.Import, ast.ImportFrom)):
                out.update((a.asname or a.name).split('.')[0] for a in x.names)
        for x in ast.walk(ast.Module(body=self.body, type_ignores=[])):
            if isinstance(x, ast.NamedExpr):
                out.add(x.target.id)
        return out


def _simple_arg(e):
    """an argument that may stand for every use of the parameter: a local name or a constant (an attribute / subscript read is bound
    to the parameter by an assignment instead - the temporaries pass writes it out again where that is provably the same)"""
    return isinstance(e, (ast.Name, ast.Constant))


class _Subst(ast.NodeTransformer):
    def __init__(self, mapping, rename):
        self.mapping, self.rename = mapping, rename

    def visit_Name(self, n):
        if n.id in self.mapping and isinstance(n.ctx, ast.Load):
            return copy.deepcopy(self.mapping[n.id])
        if n.id in self.rename:
            return ast.copy_location(ast.Name(id=self.rename[n.id], ctx=n.ctx), n)
        return n

    def visit_ExceptHandler(self, n):
        self.generic_visit(n)
        if n.name in self.rename:
            n.name = self.rename[n.name]
        return n

    def visit_Lambda(self, n):
        shadow = {a.arg for a in n.args.args + n.args.kwonlyargs + n.args.posonlyargs}
        if shadow & (set(self.mapping) | set(self.rename)):
            sub = _Subst({k: v for k, v in self.mapping.items() if k not in shadow}, {k: v for k, v in self.rename.items() if k not in shadow})
            n.body = sub.visit(n.body)
            return n
        return self.generic_visit(n)


def _bind(h, call, skip_first):
    """parameter -> argument expression, in evaluation order; None when the call does not bind plainly"""
    params = h.params[1:] if skip_first else list(h.params)
    if any(isinstance(a, ast.Starred) for a in call.args) or any(k.arg is None for k in call.keywords) or len(call.args) > len(params):
        return None
    bound = []
    for p, a in zip(params, call.args):
        bound.append((p, a))
    seen = {p for p, _ in bound}
    for k in call.keywords:
        if k.arg in seen or k.arg not in params + h.kwonly:
            return None
        bound.append((k.arg, k.value))
        seen.add(k.arg)
    for p in params + h.kwonly:
        if p not in seen:
            if p not in h.defaults:
                return None
            d = h.defaults[p]
            if not isinstance(d, ast.Constant) and not (isinstance(d, (ast.Name, ast.Attribute))):
                return None          # a default evaluated at definition time (e.g. a mutable literal) is not re-evaluated here
            bound.append((p, d))
    return bound


def _uses(body, name):
    return sum(1 for x in ast.walk(ast.Module(body=body, type_ignores=[])) if isinstance(x, ast.Name) and x.id == name and
               isinstance(x.ctx, ast.Load))


def _instantiate(h, call, skip_first, caller_names, self_expr=None, working=()):
    """(prologue statements, body statements) of the helper for this call, or None"""
    bound = _bind(h, call, skip_first)
    if bound is None:
        return None
    assigned = h.assigned()
    mapping, prologue = {}, []
    if skip_first:
        if self_expr is None or h.params[0] in assigned:
            return None
        mapping[h.params[0]] = self_expr
    body_mod = h.body
    rename = {}
    for loc in sorted(assigned - set(h.params) - set(h.kwonly)):
        if loc in caller_names:
            rename[loc] = f'{loc}__{h.node.name}'
    argnames = [y.id for _, a_ in bound for y in ast.walk(a_) if isinstance(y, ast.Name)]
    for p, a in bound:
        if p not in assigned and _simple_arg(a):
            mapping[p] = a
            continue
        if p in assigned and isinstance(a, ast.Name) and a.id in working and argnames.count(a.id) == 1 and \
                (a.id == p or a.id not in assigned | set(h.params) | set(h.kwonly)):
            # the caller's variable is overwritten by this very call: the helper may use it as its working variable
            if a.id != p:
                rename[p] = a.id
            continue
        nm = f'{p}__{h.node.name}' if p in caller_names and not (isinstance(a, ast.Name) and a.id == p) else p
        if isinstance(a, ast.Name) and a.id == nm:
            continue        # `p = p`
        if nm != p:
            rename[p] = nm
        prologue.append(ast.copy_location(ast.Assign(targets=[ast.Name(id=nm, ctx=ast.Store())], value=copy.deepcopy(a)), call))
    sub = _Subst(mapping, rename)
    body = [sub.visit(copy.deepcopy(s)) for s in h.body]
    for s in body:
        for x in ast.walk(s):
            if hasattr(x, 'lineno'):
                x._inlined_from = h.node.name
    return prologue, body


def _in_repeated_context(body, name):
    for s in body:
        for x in ast.walk(s):
            if isinstance(x, (ast.For, ast.While, ast.ListComp, ast.SetComp, ast.DictComp, ast.GeneratorExp, ast.Lambda)):
                if any(isinstance(y, ast.Name) and y.id == name for y in ast.walk(x)):
                    # the iterable of a for loop / first generator is evaluated once
                    it = x.iter if isinstance(x, ast.For) else (x.generators[0].iter if hasattr(x, 'generators') else None)
                    inside_iter = it is not None and any(isinstance(y, ast.Name) and y.id == name for y in ast.walk(it))
                    others = sum(1 for y in ast.walk(x) if isinstance(y, ast.Name) and y.id == name) - \
                        (sum(1 for y in ast.walk(it) if isinstance(y, ast.Name) and y.id == name) if it is not None else 0)
                    if others or not inside_iter:
                        return True
    return False


def _first_evaluated(body, name):
    """the single use of `name` is the first thing the body evaluates that is not a name / constant"""
    if not body:
        return False
    s = body[0]
    e = s.value if isinstance(s, (ast.Return, ast.Assign, ast.Expr, ast.AnnAssign, ast.AugAssign)) else (s.test if isinstance(s, ast.If) else None)
    if e is None:
        return False
    while True:
        if isinstance(e, ast.Name):
            return e.id == name
        if isinstance(e, ast.Attribute):
            e = e.value
        elif isinstance(e, ast.Subscript):
            e = e.value
        elif isinstance(e, ast.Call):
            if isinstance(e.func, ast.Name) and e.args:
                e = e.args[0]
            elif isinstance(e.func, ast.Attribute):
                e = e.func.value
            else:
                return False
        elif isinstance(e, ast.BinOp):
            e = e.left
        elif isinstance(e, ast.Compare):
            e = e.left
        elif isinstance(e, ast.BoolOp):
            e = e.values[0]
        elif isinstance(e, ast.UnaryOp):
            e = e.operand
        else:
            return False


def _pure_position(expr, p, arg):
    from .canon import effect_free, _UseOrder
    if not effect_free(arg):
        return False
    uo = _UseOrder(p)
    uo.ev(expr)
    return len(uo.uses) == 1 and all(u and b for _, u, b in uo.uses)


class CannotEliminate(Exception):
    pass


def _has_return(stmts):
    return any(isinstance(x, ast.Return) for x in _walk_no_nested(stmts))


def _always_returns(stmts):
    if not stmts:
        return False
    last = stmts[-1]
    if isinstance(last, (ast.Return, ast.Raise)):
        return True
    if isinstance(last, ast.If) and last.orelse:
        return _always_returns(last.body) and _always_returns(last.orelse)
    return False


def eliminate_returns(stmts, k, falls_off=True):
    """statements equivalent to stmts in which `return v` became k(v) and nothing after a return is executed"""
    out = []
    for i, s in enumerate(stmts):
        if isinstance(s, ast.Return):
            out.extend(k(s.value, s))
            return out
        if isinstance(s, ast.Raise):
            out.append(s)
            return out
        if not _has_return([s]):
            out.append(s)
            continue
        if not isinstance(s, ast.If):
            raise CannotEliminate(type(s).__name__)
        rest = stmts[i + 1:]
        if _always_returns(s.body):
            body = eliminate_returns(s.body, k)
            orelse = eliminate_returns(list(s.orelse) + rest, k, falls_off)
            out.append(ast.copy_location(ast.If(test=s.test, body=body or [ast.Pass()], orelse=orelse), s))
            return out
        if s.orelse and _always_returns(s.orelse):
            body = eliminate_returns(list(s.body) + rest, k, falls_off)
            orelse = eliminate_returns(s.orelse, k)
            out.append(ast.copy_location(ast.If(test=s.test, body=body or [ast.Pass()], orelse=orelse), s))
            return out
        raise CannotEliminate('conditional return')
    if falls_off:
        out.extend(k(None, stmts[-1] if stmts else None))
    return out


def _names(node):
    return {x.id for x in ast.walk(node) if isinstance(x, ast.Name)} | \
        {a.arg for x in ast.walk(node) if isinstance(x, ast.arguments) for a in x.args + x.kwonlyargs + x.posonlyargs}


def inline_helpers(tree, modname):
    """inline the helpers of this module that are not functions of the reference tree; returns the set of inlined helper names"""
    kn = known()
    helpers = {}                       # key -> Helper; key = ('module', name) | ('class', cls, name) | ('nested', id(outer), name)

    def collect(body, prefix, cls, outer):
        for n in body:
            if isinstance(n, FUNC):
                qual = f'{prefix}.{n.name}'
                if qual not in kn:
                    if outer is not None:
                        helpers[('nested', id(outer), n.name)] = Helper(n, 'nested', outer)
                    elif cls is not None:
                        static = any(ast.unparse(d) == 'staticmethod' for d in n.decorator_list)
                        helpers[('class', cls.name, n.name)] = Helper(n, 'static' if static else 'method', cls)
                    else:
                        helpers[('module', n.name)] = Helper(n, 'module', None)
                else:
                    inner = [x for x in _walk_no_nested(n.body) if isinstance(x, FUNC)]
                    collect(inner, f'{qual}.<locals>', None, n)
            elif isinstance(n, ast.ClassDef) and outer is None:
                collect(n.body, f'{prefix}.{n.name}', n, None)
    collect(tree.body, modname, None, None)
    mcls = {n.name: n for n in tree.body if isinstance(n, ast.ClassDef)}
    for n in mcls.values():
        n._module_classes = mcls
    helpers = {k: h for k, h in helpers.items() if h.ok}
    if not helpers:
        return set()
    # nested lambdas bound to a name (`f = lambda x: ..`) are not handled: a lambda is an expression of the enclosing function

    done = set()
    for _ in range(4):                  # helpers calling helpers: innermost first, bounded
        changed = False
        for fn, cls in _functions(tree):
            if _inline_in(fn, cls, helpers, done):
                changed = True
        if not changed:
            break
    # remove helpers that are no longer referenced
    removed = set()
    for key, h in helpers.items():
        name = h.node.name
        refs = 0
        for x in ast.walk(tree):
            if isinstance(x, ast.Name) and x.id == name and isinstance(x.ctx, ast.Load):
                refs += 1
            elif isinstance(x, ast.Attribute) and x.attr == name:
                refs += 1
            elif isinstance(x, ast.Constant) and x.value == name:
                refs += 1           # __all__
        if refs == 0 and key in done and not (key[0] == 'module' and not name.startswith('_') and False):
            for node in ast.walk(tree):
                for fld in ('body', 'orelse', 'finalbody'):
                    blk = getattr(node, fld, None)
                    if isinstance(blk, list) and h.node in blk:
                        blk.remove(h.node)
                        if not blk:
                            blk.append(ast.copy_location(ast.Pass(), h.node))
                        removed.add(name)
    return removed


def _functions(tree):
    out = []

    def rec(body, cls):
        for n in body:
            if isinstance(n, FUNC):
                out.append((n, cls))
                rec([x for x in _walk_no_nested(n.body) if isinstance(x, FUNC)], cls)
            elif isinstance(n, ast.ClassDef):
                rec(n.body, n)
    rec(tree.body, None)
    return out


def _lookup(call, fn, cls, helpers):
    """(helper, skip_first, self_expr) for a call that designates a helper"""
    f = call.func
    if isinstance(f, ast.Name):
        h = helpers.get(('nested', id(fn), f.id))
        if h is None:
            # a nested helper of an enclosing function is visible too
            p = getattr(fn, '_outer', None)
            while p is not None and h is None:
                h = helpers.get(('nested', id(p), f.id))
                p = getattr(p, '_outer', None)
        if h is None:
            h = helpers.get(('module', f.id))
        if h is not None and h.node is not fn:
            return h, False, None
    elif isinstance(f, ast.Attribute) and isinstance(f.value, ast.Name) and cls is not None:
        h = helpers.get(('class', cls.name, f.attr))
        if h is None:
            # a helper defined in a base class of the same module (single inheritance chains only)
            seen = 0
            c = cls
            while h is None and seen < 5 and len(getattr(c, 'bases', [])) == 1 and isinstance(c.bases[0], ast.Name):
                base = getattr(c, '_module_classes', {}).get(c.bases[0].id)
                if base is None:
                    break
                # not overridden on the way
                h = helpers.get(('class', base.name, f.attr))
                c = base
                seen += 1
            if h is not None and any(isinstance(x, FUNC) and x.name == f.attr for x in cls.body):
                h = None
        if h is not None and h.node is not fn:
            selfname = fn.args.args[0].arg if fn.args.args else None
            if h.kind == 'static' and f.value.id in (selfname, cls.name):
                return h, False, None
            if h.kind == 'method' and f.value.id == selfname and not any(ast.unparse(d) in ('staticmethod', 'classmethod') for d in fn.decorator_list):
                return h, True, ast.Name(id=selfname, ctx=ast.Load())
    return None


def _inline_in(fn, cls, helpers, done):
    for x in _walk_no_nested(fn.body):
        if isinstance(x, FUNC):
            x._outer = fn
    changed = False
    caller_names = _names(fn)
    caller_bound = {a.arg for a in fn.args.args + fn.args.kwonlyargs + fn.args.posonlyargs} | \
        {y.id for x in _walk_no_nested(fn.body) for y in [x] if isinstance(y, ast.Name) and isinstance(y.ctx, ast.Store)}


    # 1. expression helpers, anywhere
    class ExprInl(ast.NodeTransformer):
        def visit_FunctionDef(self, n):
            return n if n is not fn else self.generic_visit(n)
        visit_AsyncFunctionDef = visit_FunctionDef

        def visit_ClassDef(self, n):
            return n

        def visit_Call(self, n):
            nonlocal changed
            self.generic_visit(n)
            r = _lookup(n, fn, cls, helpers)
            if r is None or r[0].expr is None:
                return n
            h, skip, selfx = r
            bound = _bind(h, n, skip)
            if bound is None:
                return n
            if h.kind != 'nested':
                free = {y.id for y in ast.walk(h.expr) if isinstance(y, ast.Name) and isinstance(y.ctx, ast.Load)} - set(h.params) - \
                    set(h.kwonly) - h.assigned()
                if free & caller_bound:
                    return n
            assigned = h.assigned()
            mapping = {}
            if skip:
                mapping[h.params[0]] = selfx
            nontrivial = 0
            for p, a in bound:
                if p in assigned:
                    return n
                uses = _uses([ast.Expr(value=h.expr)], p)
                if _simple_arg(a) or uses == 0 and _simple_arg(a):
                    mapping[p] = a
                elif uses == 1 and _pure_position(h.expr, p, a):
                    mapping[p] = a          # an effect-free argument evaluated once, unconditionally, before any effect of the body
                elif uses == 1 and not _in_repeated_context([ast.Expr(value=h.expr)], p):
                    nontrivial += 1
                    mapping[p] = a
                else:
                    return n
            if nontrivial > 1 or (nontrivial == 1 and not all(_first_evaluated([ast.Return(value=h.expr)], p) for p, a in bound if not _simple_arg(a))):
                return n
            # names bound inside the expression (comprehension / lambda variables) must not capture names of the arguments
            inner = {y.id for y in ast.walk(h.expr) if isinstance(y, ast.Name) and isinstance(y.ctx, ast.Store)}
            argnames = {y.id for a in mapping.values() for y in ast.walk(a) if isinstance(y, ast.Name)}
            if inner & argnames:
                return n
            new = _Subst(mapping, {}).visit(copy.deepcopy(h.expr))
            for y in ast.walk(new):
                ast.copy_location(y, n)
                y._inlined_from = h.node.name
            done.add(_key(h))
            changed = True
            return new
    ExprInl().visit(fn)

    # 2. statement helpers at statement level
    def block(blk, in_try=False):
        nonlocal changed
        i = 0
        while i < len(blk):
            st = blk[i]
            rep = _splice(st, fn, cls, helpers, caller_names, in_try, caller_bound)
            if rep is not None:
                h, stmts = rep
                blk[i:i + 1] = stmts
                done.add(_key(h))
                changed = True
                caller_names.update(_names(ast.Module(body=stmts, type_ignores=[])))
                continue                      # re-examine the spliced statements (helpers calling helpers)
            for fld in ('body', 'orelse', 'finalbody'):
                sub = getattr(st, fld, None)
                if isinstance(sub, list) and sub and isinstance(sub[0], ast.stmt) and not isinstance(st, FUNC + (ast.ClassDef,)):
                    block(sub, in_try or (isinstance(st, ast.Try) and fld == 'body'))
            if isinstance(st, ast.Try):
                for hd in st.handlers:
                    block(hd.body, in_try)
            i += 1
    block(fn.body)
    return changed


def _key(h):
    if h.kind == 'module':
        return ('module', h.node.name)
    if h.kind == 'nested':
        return ('nested', id(h.owner), h.node.name)
    return ('class', h.owner.name, h.node.name)


def _splice(st, fn, cls, helpers, caller_names, in_try=False, caller_bound=frozenset()):
    if isinstance(st, ast.Assign) and isinstance(st.value, ast.Call):
        call = st.value

        def k(v, at):
            val = v if v is not None else ast.Constant(value=None)
            return [ast.copy_location(ast.Assign(targets=copy.deepcopy(st.targets), value=val), at if at is not None else st)]
    elif isinstance(st, ast.Return) and isinstance(st.value, ast.Call):
        call = st.value
        k = None
    elif isinstance(st, ast.Expr) and isinstance(st.value, ast.Call):
        call = st.value

        def k(v, at):
            if v is None or isinstance(v, (ast.Constant, ast.Name)):
                return []
            return [ast.copy_location(ast.Expr(value=v), at if at is not None else st)]
    else:
        return None
    r = _lookup(call, fn, cls, helpers)
    if r is None:
        return None
    h, skip, selfx = r
    # assignment targets must not be read by the helper body through the caller's names (the target is written only at the returns)
    own_targets = set()
    if isinstance(st, ast.Assign):
        for t in st.targets:
            for y in (t.elts if isinstance(t, (ast.Tuple, ast.List)) else [t]):
                if isinstance(y, ast.Name):
                    own_targets.add(y.id)
        # a target is overwritten when the helper returns: a helper local of the same name may use it before that, unless the
        # call's arguments still need the caller's value (they are evaluated first, so only a non-substituted use matters)
        working = set() if in_try else set(own_targets)
        own_targets -= {y.id for a in list(call.args) + [k.value for k in call.keywords] for y in ast.walk(a) if isinstance(y, ast.Name)}
    else:
        working = set()
    # (e) a name the helper reads from the module must not be a local of the caller
    if h.kind != 'nested':
        free = {y.id for x in h.body for y in ast.walk(x) if isinstance(y, ast.Name) and isinstance(y.ctx, ast.Load)} - \
            set(h.params) - set(h.kwonly) - h.assigned()
        if free & caller_bound:
            return None
    inst = _instantiate(h, call, skip, caller_names - own_targets, selfx, working)
    if inst is None:
        return None
    prologue, body = inst
    if isinstance(st, ast.Assign):
        tnames = {y.id for t in st.targets for y in ast.walk(t) if isinstance(y, ast.Name)}
        def ref_target(t):
            # the target's own parts are evaluated after the value: names, attribute chains and constant / name subscripts change nothing
            if isinstance(t, ast.Name):
                return True
            if isinstance(t, (ast.Tuple, ast.List)):
                return all(ref_target(x) for x in t.elts)
            if isinstance(t, ast.Attribute):
                return ref_target(t.value)
            if isinstance(t, ast.Subscript):
                return ref_target(t.value) and isinstance(t.slice, (ast.Constant, ast.Name))
            return False
        if not all(ref_target(t) for t in st.targets):
            return None
        # a subscript / attribute target is evaluated AFTER the call: fine, k() emits the store at the return points
        del tnames
    try:
        if k is None:
            stmts = body if _always_returns(body) else body + [ast.copy_location(ast.Return(value=None), st)]
        else:
            stmts = eliminate_returns(body, k)
    except CannotEliminate:
        return None
    stmts = prologue + stmts
    if not stmts:
        stmts = [ast.copy_location(ast.Pass(), st)]
    for s in stmts:
        for y in ast.walk(s):
            if hasattr(y, 'lineno') or isinstance(y, (ast.expr, ast.stmt)):
                ast.copy_location(y, st) if not hasattr(y, 'lineno') else None
    return h, stmts
