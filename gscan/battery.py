#!/usr/bin/env python3
"""Whole-tree behaviour-preserving rewrites of a scratch copy of /repo, used to measure false alarms of the rules.
   modes: unparse (re-print every file from its AST), rename (rename every local variable of every function),
          shift (insert a comment block at the top of every file)"""
import ast, builtins, pathlib, shutil, subprocess, sys, tempfile, os, json

def locals_of(fn):
    stored, banned = set(), set()
    for n in ast.walk(fn):
        if isinstance(n, (ast.FunctionDef, ast.AsyncFunctionDef, ast.Lambda)):
            a = n.args
            for x in a.posonlyargs + a.args + a.kwonlyargs + ([a.vararg] if a.vararg else []) + ([a.kwarg] if a.kwarg else []):
                banned.add(x.arg)
            if n is not fn and not isinstance(n, ast.Lambda):
                banned.add(n.name)
        elif isinstance(n, (ast.Global, ast.Nonlocal)):
            banned.update(n.names)
        elif isinstance(n, ast.Name) and isinstance(n.ctx, (ast.Store, ast.Del)):
            stored.add(n.id)
        elif isinstance(n, (ast.Import, ast.ImportFrom)):
            for al in n.names:
                banned.add((al.asname or al.name).split('.')[0])
        elif isinstance(n, ast.ClassDef):
            banned.add(n.name)
            for m in ast.walk(n):
                if isinstance(m, ast.Name):
                    banned.add(m.id)
        elif isinstance(n, ast.ExceptHandler) and n.name:
            banned.add(n.name)
        elif isinstance(n, ast.Call) and isinstance(n.func, ast.Name) and n.func.id in ('locals', 'vars', 'eval', 'exec'):
            return set()
    return {x for x in stored - banned if not hasattr(builtins, x) and x != '_'}

class Ren(ast.NodeTransformer):
    def __init__(self, names): self.names = names
    def visit_Name(self, n):
        if n.id in self.names: n.id = n.id + '_rn'
        return n

def rename_tree(tree):
    def handle(body):
        for n in body:
            if isinstance(n, (ast.FunctionDef, ast.AsyncFunctionDef)):
                names = locals_of(n)
                if names: Ren(names).visit(n)
            elif isinstance(n, ast.ClassDef):
                handle(n.body)
    handle(tree.body)
    return tree

MODES = ('unparse', 'rename', 'shift')


def make(mode, dst, root=None):
    root = root or os.environ.get('GSCAN_REPO', '/repo')
    shutil.copytree(os.path.join(root, 'gnpy'), os.path.join(dst, 'gnpy'), dirs_exist_ok=True)
    for p in pathlib.Path(dst, 'gnpy').rglob('*.py'):
        src = p.read_text()
        if mode == 'unparse':
            new = ast.unparse(ast.parse(src)) + '\n'
        elif mode == 'rename':
            new = ast.unparse(rename_tree(ast.parse(src))) + '\n'
        elif mode == 'shift':
            new = '# shifted\n' * 37 + src
        else:
            raise SystemExit('mode?')
        compile(new, str(p), 'exec')
        p.write_text(new)

if __name__ == '__main__':
    mode, dst = sys.argv[1], sys.argv[2]
    make(mode, dst)
