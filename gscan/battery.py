#!/usr/bin/env python3
"""Whole-tree behaviour-preserving rewrites of a scratch copy of /repo, used to measure false alarms of the rules.
   modes: unparse (re-print every file from its AST), rename (rename every local variable of every function),
          shift (insert a comment block at the top of every file)"""
import ast, builtins, pathlib, shutil, subprocess, sys, tempfile, os, json

def locals_of(fn):
    stored, banned = set(), set()
    for n in ast.walk(fn):
        if isinstance(n, (ast.FunctionDef, ast.AsyncFunctionDef, ast.Lambda)):
            a = n.args
            for x in a.posonlyargs + a.args + a.kwonlyargs + ([a.vararg] if a.vararg else []) + ([a.kwarg] if a.kwarg else []):
                banned.add(x.arg)
            if n is not fn and not isinstance(n, ast.Lambda):
                banned.add(n.name)
        elif isinstance(n, (ast.Global, ast.Nonlocal)):
            banned.update(n.names)
        elif isinstance(n, ast.Name) and isinstance(n.ctx, (ast.Store, ast.Del)):
            stored.add(n.id)
        elif isinstance(n, (ast.Import, ast.ImportFrom)):
            for al in n.names:
                banned.add((al.asname or al.name).split('.')[0])
        elif isinstance(n, ast.ClassDef):
            banned.add(n.name)
            for m in ast.walk(n):
                if isinstance(m, ast.Name):
                    banned.add(m.id)
        elif isinstance(n, ast.ExceptHandler) and n.name:
            banned.add(n.name)
        elif isinstance(n, ast.Call) and isinstance(n.func, ast.Name) and n.func.id in ('locals', 'vars', 'eval', 'exec'):
            return set()
    return {x for x in stored - banned if not hasattr(builtins, x) and x != '_'}

class Ren(ast.NodeTransformer):
    def __init__(self, names): self.names = names
    def visit_Name(self, n):
        if n.id in self.names: n.id = n.id + '_rn'
        return n

def rename_tree(tree):
    def handle(body):
        for n in body:
            if isinstance(n, (ast.FunctionDef, ast.AsyncFunctionDef)):
                names = locals_of(n)
                if names: Ren(names).visit(n)
            elif isinstance(n, ast.ClassDef):
                handle(n.body)
    handle(tree.body)
    return tree

MODES = ('unparse', 'rename', 'shift', 'swapif', 'flipcmp', 'kwargs', 'tempret', 'reorder')


class Reorder(ast.NodeTransformer):
    """swap adjacent independent simple assignments `a = e1; b = e2` (call-free right-hand sides, plain name targets,
    neither reads or writes the other's target)"""
    @staticmethod
    def _simple(s_):
        return isinstance(s_, ast.Assign) and len(s_.targets) == 1 and isinstance(s_.targets[0], ast.Name) and \
            not any(isinstance(x, (ast.Call, ast.Yield, ast.YieldFrom, ast.Await, ast.NamedExpr)) for x in ast.walk(s_.value))

    def _block(self, stmts):
        out = list(stmts)
        i = 0
        while i < len(out) - 1:
            a, b = out[i], out[i + 1]
            if self._simple(a) and self._simple(b):
                ta, tb = a.targets[0].id, b.targets[0].id
                ra = {x.id for x in ast.walk(a.value) if isinstance(x, ast.Name)}
                rb = {x.id for x in ast.walk(b.value) if isinstance(x, ast.Name)}
                if ta != tb and ta not in rb and tb not in ra:
                    out[i], out[i + 1] = b, a
                    i += 2
                    continue
            i += 1
        return out

    def generic_visit(self, node):
        super().generic_visit(node)
        for fld in ('body', 'orelse', 'finalbody'):
            v = getattr(node, fld, None)
            if isinstance(v, list) and v and isinstance(v[0], ast.stmt):
                setattr(node, fld, self._block(v))
        return node



class TempRet(ast.NodeTransformer):
    """return <expr>  ->  result_ = <expr>; return result_   (non-trivial expressions, outside lambdas / generators)"""
    def _block(self, stmts):
        out = []
        for s_ in stmts:
            if isinstance(s_, ast.Return) and s_.value is not None and not isinstance(s_.value, (ast.Name, ast.Constant)):
                tmp = ast.Assign(targets=[ast.Name(id='result_', ctx=ast.Store())], value=s_.value)
                out.append(ast.copy_location(tmp, s_))
                out.append(ast.copy_location(ast.Return(value=ast.Name(id='result_', ctx=ast.Load())), s_))
            else:
                out.append(s_)
        return out

    def generic_visit(self, node):
        super().generic_visit(node)
        for fld in ('body', 'orelse', 'finalbody'):
            v = getattr(node, fld, None)
            if isinstance(v, list) and v and isinstance(v[0], ast.stmt):
                setattr(node, fld, self._block(v))
        if isinstance(node, ast.Try):
            for h in node.handlers:
                h.body = self._block(h.body)
        return node



class SwapIf(ast.NodeTransformer):
    """if c: A else: B  ->  if not c: B else: A   (plain two-armed ifs only, no elif chains)"""
    def visit_If(self, n):
        self.generic_visit(n)
        if n.orelse and not (len(n.orelse) == 1 and isinstance(n.orelse[0], ast.If)) and \
                not (len(n.body) == 1 and isinstance(n.body[0], ast.If)):
            t = n.test
            nt = t.operand if isinstance(t, ast.UnaryOp) and isinstance(t.op, ast.Not) else ast.UnaryOp(op=ast.Not(), operand=t)
            return ast.copy_location(ast.If(test=nt, body=n.orelse, orelse=n.body), n)
        return n


class FlipCmp(ast.NodeTransformer):
    """a < b -> b > a  (single ordering comparisons between side-effect free operands)"""
    FL = {ast.Lt: ast.Gt, ast.Gt: ast.Lt, ast.LtE: ast.GtE, ast.GtE: ast.LtE}

    def visit_Compare(self, n):
        self.generic_visit(n)
        if len(n.ops) == 1 and type(n.ops[0]) in self.FL and not any(isinstance(x, ast.Call) for x in ast.walk(n)):
            return ast.copy_location(ast.Compare(left=n.comparators[0], ops=[self.FL[type(n.ops[0])]()], comparators=[n.left]), n)
        return n


def kwargs_tree(tree, sigs):
    """f(a, b) -> f(x=a, y=b) for calls by bare name to module-level functions of the package with a known signature"""
    class K(ast.NodeTransformer):
        def visit_Call(self, n):
            self.generic_visit(n)
            if isinstance(n.func, ast.Name) and n.func.id in sigs and n.args and not any(isinstance(a, ast.Starred) for a in n.args) \
                    and not any(k.arg is None for k in n.keywords):
                ps = sigs[n.func.id]
                if len(n.args) <= len(ps) and len(n.args) >= 2:
                    keep = n.args[:1]
                    kws = [ast.keyword(arg=p_, value=a) for p_, a in zip(ps[1:len(n.args)], n.args[1:])]
                    if not ({k.arg for k in kws} & {k.arg for k in n.keywords}):
                        n.args = keep
                        n.keywords = kws + n.keywords
            return n
    return K().visit(tree)


def signatures(root):
    """name -> positional parameter names, for module-level functions whose name is unique in the package"""
    seen = {}
    for p in pathlib.Path(root, 'gnpy').rglob('*.py'):
        try:
            t = ast.parse(p.read_text())
        except SyntaxError:
            continue
        for n in t.body:
            if isinstance(n, ast.FunctionDef) and not n.args.vararg and not n.args.posonlyargs:
                seen.setdefault(n.name, []).append([a.arg for a in n.args.args])
    builtin = set(dir(builtins))
    return {k: v[0] for k, v in seen.items() if len(v) == 1 and k not in builtin}



def make(mode, dst, root=None):
    root = root or os.environ.get('GSCAN_REPO', '/repo')
    shutil.copytree(os.path.join(root, 'gnpy'), os.path.join(dst, 'gnpy'), dirs_exist_ok=True)
    sigs = signatures(root) if mode == 'kwargs' else {}
    for p in pathlib.Path(dst, 'gnpy').rglob('*.py'):
        src = p.read_text()
        if mode == 'unparse':
            new = ast.unparse(ast.parse(src)) + '\n'
        elif mode == 'rename':
            new = ast.unparse(rename_tree(ast.parse(src))) + '\n'
        elif mode == 'shift':
            new = '# shifted\n' * 37 + src
        elif mode == 'swapif':
            new = ast.unparse(ast.fix_missing_locations(SwapIf().visit(ast.parse(src)))) + '\n'
        elif mode == 'flipcmp':
            new = ast.unparse(ast.fix_missing_locations(FlipCmp().visit(ast.parse(src)))) + '\n'
        elif mode == 'tempret':
            new = ast.unparse(ast.fix_missing_locations(TempRet().visit(ast.parse(src)))) + '\n'
        elif mode == 'reorder':
            new = ast.unparse(ast.fix_missing_locations(Reorder().visit(ast.parse(src)))) + '\n'
        elif mode == 'kwargs':
            new = ast.unparse(ast.fix_missing_locations(kwargs_tree(ast.parse(src), sigs))) + '\n'
        else:
            raise SystemExit('mode?')
        compile(new, str(p), 'exec')
        p.write_text(new)

if __name__ == '__main__':
    mode, dst = sys.argv[1], sys.argv[2]
    make(mode, dst)
