"""AST patterns with metavariables, so that rules do not depend on the names of local variables.

A pattern is ordinary Python source in which
    V_xxx   matches any Name (a variable); the same metavariable must match the same identifier everywhere
    E_xxx   matches any expression; the same metavariable must match structurally equal expressions
    S_xxx   as an expression statement: matches any single statement
Everything else must match exactly (node types, operators, constants, attribute names, keyword names).
Bindings are dicts metavariable -> identifier (V_) / ast node (E_, S_).
"""
import ast

_CACHE = {}


def _parse(src, mode):
    k = (src, mode)
    if k not in _CACHE:
        t = ast.parse(src.strip(), mode='eval' if mode == 'expr' else 'exec')
        _CACHE[k] = t.body if mode == 'expr' else t.body
    return _CACHE[k]


def same(a, b):
    return ast.dump(a) == ast.dump(b)


def match(pat, node, b=None):
    """match pattern node against node; returns the extended binding or None"""
    b = dict(b or {})
    return b if _m(pat, node, b) else None


def _m(p, n, b):
    if isinstance(p, ast.Name):
        if p.id.startswith('V_'):
            if not isinstance(n, ast.Name):
                return False
            if p.id in b:
                return b[p.id] == n.id
            b[p.id] = n.id
            return True
        if p.id.startswith('E_'):
            if not isinstance(n, ast.AST):
                return False
            if p.id in b:
                return same(b[p.id], n)
            b[p.id] = n
            return True
    if isinstance(p, ast.Expr) and isinstance(p.value, ast.Name) and p.value.id.startswith('S_'):
        if not isinstance(n, ast.stmt):
            return False
        b[p.value.id] = n
        return True
    if type(p) is not type(n):
        return False
    for f in p._fields:
        if f in ('ctx', 'type_comment', 'lineno', 'col_offset', 'end_lineno', 'end_col_offset', 'kind'):
            continue
        pv, nv = getattr(p, f, None), getattr(n, f, None)
        if isinstance(pv, list):
            if not isinstance(nv, list) or len(pv) != len(nv):
                return False
            for x, y in zip(pv, nv):
                if isinstance(x, ast.AST):
                    if not _m(x, y, b):
                        return False
                elif x != y:
                    return False
        elif isinstance(pv, ast.AST):
            if not isinstance(nv, ast.AST) or not _m(pv, nv, b):
                return False
        else:
            if f == 'arg' and isinstance(p, ast.arg) and isinstance(pv, str) and pv.startswith('V_'):
                if pv in b:
                    if b[pv] != nv:
                        return False
                else:
                    b[pv] = nv
                continue
            if f == 'name' and isinstance(p, ast.ExceptHandler) and isinstance(pv, str) and pv.startswith('V_'):
                b.setdefault(pv, nv)
                if b[pv] != nv:
                    return False
                continue
            if pv != nv or type(pv) is not type(nv):
                return False
    return True


def mexpr(src, node, b=None):
    """match one expression pattern"""
    return match(_parse(src, 'expr'), node, b)


def mstmt(src, node, b=None):
    """match one statement pattern (the pattern source holds exactly one statement)"""
    body = _parse(src, 'stmt')
    assert len(body) == 1, src
    return match(body[0], node, b)


def mbody(src, stmts, b=None):
    """match a sequence of statements exactly"""
    body = _parse(src, 'stmt')
    if len(body) != len(stmts):
        return None
    b = dict(b or {})
    for p, n in zip(body, stmts):
        b = match(p, n, b)
        if b is None:
            return None
    return b


def find(src, root, b=None, stmt=None, nested=False):
    """all (node, binding) below root matching the pattern; stmt=None guesses the kind from the source"""
    try:
        pat = _parse(src, 'expr')
        is_stmt = False
    except SyntaxError:
        pat = None
        is_stmt = True
    if stmt is True or (stmt is None and is_stmt):
        body = _parse(src, 'stmt')
        assert len(body) == 1, src
        pat = body[0]
    out = []
    for n in (ast.walk(root) if nested else _walk(root)):
        r = match(pat, n, b)
        if r is not None:
            out.append((n, r))
    return out


def _walk(root):
    """walk without entering nested function / class definitions (the root itself may be one)"""
    todo = list(ast.iter_child_nodes(root))
    while todo:
        n = todo.pop(0)
        yield n
        if isinstance(n, (ast.FunctionDef, ast.AsyncFunctionDef, ast.ClassDef)):
            continue
        todo[0:0] = list(ast.iter_child_nodes(n))


def one(src, root, b=None, **kw):
    r = find(src, root, b, **kw)
    return r[0] if len(r) == 1 else None


def subst_text(src, b):
    """instantiate a pattern's metavariables (text level, whole identifiers)"""
    import re

    def rep(m):
        v = b.get(m.group(0))
        if v is None:
            return m.group(0)
        return v if isinstance(v, str) else ast.unparse(v)
    return re.sub(r'\b[VES]_\w+', rep, src)


def bound_by(func_node, value_pat, b=None):
    """names of locals that some `name = <value_pat>` (or annotated / with-as / for) statement defines"""
    out = []
    for n in _walk(func_node):
        if isinstance(n, ast.Assign) and len(n.targets) == 1 and isinstance(n.targets[0], ast.Name):
            r = mexpr(value_pat, n.value, b)
            if r is not None:
                out.append((n.targets[0].id, n, r))
        elif isinstance(n, ast.AnnAssign) and isinstance(n.target, ast.Name) and n.value is not None:
            r = mexpr(value_pat, n.value, b)
            if r is not None:
                out.append((n.target.id, n, r))
    return out


def bound_by_if(func_node, test_pat, body_pat, else_pat, b=None):
    """names t defined by the canonical form of  t = <body_pat> if <test_pat> else <else_pat>,  i.e. the statement
    `if <test_pat>: t = <body_pat>  else: t = <else_pat>`; returns [(t, if-node, binding)]"""
    out = []
    for n in _walk(func_node):
        if isinstance(n, ast.If) and len(n.body) == 1 and len(n.orelse) == 1 and isinstance(n.body[0], ast.Assign) and \
                isinstance(n.orelse[0], ast.Assign) and len(n.body[0].targets) == 1 and isinstance(n.body[0].targets[0], ast.Name) and \
                same(n.body[0].targets[0], n.orelse[0].targets[0]):
            r = mexpr(test_pat, n.test, b)
            r = mexpr(body_pat, n.body[0].value, r) if r is not None else None
            r = mexpr(else_pat, n.orelse[0].value, r) if r is not None else None
            if r is not None:
                out.append((n.body[0].targets[0].id, n, r))
    return out
