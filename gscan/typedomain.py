"""Finite-domain evaluation of isinstance conditions over the element classes of the package.

A boolean expression built from and / or / not / isinstance(<variable>, <class | tuple of classes | module constant bound
to such a tuple>) is evaluated for every assignment of concrete classes to its variables (subclassing decided through the
model's MRO).  Gives the exact truth table of e.g. "which (neighbour, node) pairs continue the span walk"."""
import ast
import itertools

from .model import Cls, CannotAnalyse


def classes_of(repo, module, e):
    """set of Cls denoted by the second argument of isinstance"""
    if isinstance(e, ast.Tuple):
        out = set()
        for x in e.elts:
            out |= classes_of(repo, module, x)
        return out
    if isinstance(e, ast.Name):
        r = repo.resolve_name(module, e.id)
        if isinstance(r, Cls):
            return {r}
        if isinstance(r, tuple) and r[0] == 'const':
            return classes_of(repo, r[2], r[1])
        raise CannotAnalyse(f'isinstance class {e.id}')
    if isinstance(e, ast.Attribute) and isinstance(e.value, ast.Name):
        r = repo.resolve_name(module, e.value.id)
        if isinstance(r, tuple) and r[0] == 'module' and e.attr in r[1].classes:
            return {r[1].classes[e.attr]}
        raise CannotAnalyse(f'isinstance class {ast.unparse(e)}')
    raise CannotAnalyse(f'isinstance class {ast.unparse(e)}')


def evaluate(repo, module, test, env):
    """env: variable name -> Cls"""
    if isinstance(test, ast.BoolOp):
        vals = [evaluate(repo, module, v, env) for v in test.values]
        return all(vals) if isinstance(test.op, ast.And) else any(vals)
    if isinstance(test, ast.UnaryOp) and isinstance(test.op, ast.Not):
        return not evaluate(repo, module, test.operand, env)
    if isinstance(test, ast.Call) and isinstance(test.func, ast.Name) and test.func.id == 'isinstance' and len(test.args) == 2 and \
            isinstance(test.args[0], ast.Name):
        v = test.args[0].id
        if v not in env:
            raise CannotAnalyse(f'isinstance on {v}')
        want = {c.qual for c in classes_of(repo, module, test.args[1])}
        return any(k.qual in want for k in repo.mro(env[v]))
    raise CannotAnalyse(f'condition {ast.unparse(test)[:80]}')


def truth_table(repo, module, test, variables, domain):
    out = {}
    for combo in itertools.product(domain, repeat=len(variables)):
        out[tuple(c.name for c in combo)] = evaluate(repo, module, test, dict(zip(variables, combo)))
    return out
