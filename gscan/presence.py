"""Presence tests on optional numeric fields: `is None` versus truthiness.

For a numeric quantity 0 is a value.  When the package tests a field for absence with `is None` somewhere (its own
stated belief: "absent" is None) and with truthiness somewhere else (`if x:`, `x or default`, `a if x else b`), the two
disagree exactly on 0 / 0.0: one of them is wrong (Engler et al.: contradicting beliefs).  Only fields with numeric
evidence are judged (arithmetic, ordering comparison, numeric literal default, numeric helper call), so lists, strings
and objects are never reported."""
import ast

from .model import walk_no_nested
from .dataflow import local_defs

NUM_FUNCS = {'lin2db', 'db2lin', 'watt2dbm', 'dbm2watt', 'round', 'float', 'int', 'abs', 'min', 'max', 'log10', 'exp', 'sqrt',
             'power_dbm_to_psd_mw_ghz', 'psd2powerdbm', 'round2float', 'ceil', 'floor'}


def field_of(e, defs=None, depth=1):
    """field name tested by expression e: o.f -> f ; d['f'] -> f ; d.get('f'[, None]) -> f ; getattr(o, 'f', None) -> f ;
    a local defined (only) from one of those -> that field"""
    if isinstance(e, ast.Attribute):
        return e.attr
    if isinstance(e, ast.Subscript) and isinstance(e.slice, ast.Constant) and isinstance(e.slice.value, str):
        return e.slice.value
    if isinstance(e, ast.Call) and isinstance(e.func, ast.Attribute) and e.func.attr in ('get', 'pop') and e.args and \
            isinstance(e.args[0], ast.Constant) and isinstance(e.args[0].value, str):
        if len(e.args) == 1 or (isinstance(e.args[1], ast.Constant) and e.args[1].value is None):
            return e.args[0].value
        return None
    if isinstance(e, ast.Call) and isinstance(e.func, ast.Name) and e.func.id == 'getattr' and len(e.args) >= 2 and \
            isinstance(e.args[1], ast.Constant) and isinstance(e.args[1].value, str):
        if len(e.args) == 2 or (isinstance(e.args[2], ast.Constant) and e.args[2].value is None):
            return e.args[1].value
        return None
    if isinstance(e, ast.Call) and isinstance(e.func, ast.Attribute) and e.func.attr == 'get' and len(e.args) == 1 and \
            not isinstance(e.args[0], ast.Constant):
        base = field_of(e.func.value)
        return base + '[]' if base else None
    if isinstance(e, ast.Subscript) and not isinstance(e.slice, (ast.Constant, ast.Slice)):
        base = field_of(e.value)
        return base + '[]' if base and not base.endswith('[]') else None
    if isinstance(e, ast.Name) and defs is not None and depth > 0:
        ds = [v for _, v in defs.get(e.id, []) if isinstance(v, ast.AST)]
        fs = {field_of(v, defs, depth - 1) for v in ds}
        if len(ds) >= 1 and len(fs) == 1 and None not in fs:
            return fs.pop()
    return None


def truthy_sites(f):
    """(node, tested expression, form) for truthiness tests in function f"""
    out = []

    def test_expr(t, form, node):
        # not X / X and Y / X or Y inside a test: look at operands
        if isinstance(t, ast.UnaryOp) and isinstance(t.op, ast.Not):
            test_expr(t.operand, form, node)
        elif isinstance(t, ast.BoolOp):
            for v in t.values:
                test_expr(v, form, node)
        elif isinstance(t, (ast.Attribute, ast.Subscript, ast.Name, ast.Call)):
            out.append((node, t, form))
    for n in walk_no_nested(f.node):
        if isinstance(n, (ast.If, ast.While)):
            test_expr(n.test, 'if', n)
        elif isinstance(n, ast.IfExp):
            test_expr(n.test, 'conditional expression', n)
        elif isinstance(n, ast.BoolOp) and not isinstance(getattr(n, '_parent', None), (ast.If, ast.While, ast.BoolOp, ast.UnaryOp)) \
                and not (isinstance(getattr(n, '_parent', None), ast.IfExp) and n._parent.test is n):
            # value position:  x or default  /  x and y
            for v in n.values[:-1]:
                test_expr(v, '`or` / `and` default', n)
        elif isinstance(n, ast.comprehension):
            for i in n.ifs:
                test_expr(i, 'comprehension filter', n)
    return out


def none_sites(f):
    out = []
    for n in walk_no_nested(f.node):
        if isinstance(n, ast.Compare) and len(n.ops) == 1 and isinstance(n.ops[0], (ast.Is, ast.IsNot, ast.Eq, ast.NotEq)) and \
                isinstance(n.comparators[0], ast.Constant) and n.comparators[0].value is None:
            out.append((n, n.left))
    return out


UNIT_SUFFIX = ('_db', '_dbm', '_dB', '_dBm', '_hz', '_ghz', '_mWperGHz', '_mWperSlotWidth')


def numeric_fields(repo):
    if getattr(repo, '_presence_numeric', None) is not None:
        return repo._presence_numeric
    num = {}
    try:
        from .yang import YangModels
        ym = YangModels(repo.root)
        for leaf, occ in ym.leaves.items():
            if all(any(isinstance(p, int) and p >= 0 for p in prec) for _, prec, _ in occ):
                num.setdefault(leaf, 'numeric leaf of the YANG models')
                num.setdefault(leaf.replace('-', '_'), 'numeric leaf of the YANG models')
    except Exception:           # the YANG directory is optional evidence
        pass

    def note(fld, why):
        if fld:
            num.setdefault(fld, why)
    for f in repo.all_funcs():
        defs = local_defs(f.node)
        for n in ast.walk(f.node):
            if isinstance(n, ast.BinOp) and isinstance(n.op, (ast.Add, ast.Sub, ast.Mult, ast.Div, ast.Pow, ast.FloorDiv, ast.Mod)):
                for side, other in ((n.left, n.right), (n.right, n.left)):
                    if isinstance(other, (ast.JoinedStr, ast.List, ast.Tuple)) or (isinstance(other, ast.Constant) and isinstance(other.value, str)):
                        continue
                    if isinstance(n.op, ast.Add) and not (isinstance(other, ast.Constant) and isinstance(other.value, (int, float))) and \
                            not isinstance(other, ast.BinOp):
                        continue        # a + b alone could be list / string concatenation
                    note(field_of(side), f'arithmetic in {f.qual}')
            elif isinstance(n, ast.Compare) and len(n.ops) == 1 and isinstance(n.ops[0], (ast.Lt, ast.Gt, ast.LtE, ast.GtE)):
                for side, other in ((n.left, n.comparators[0]), (n.comparators[0], n.left)):
                    if isinstance(other, ast.Constant) and isinstance(other.value, (int, float)) and not isinstance(other.value, bool):
                        note(field_of(side), f'compared with a number in {f.qual}')
            elif isinstance(n, ast.Call) and isinstance(n.func, ast.Name) and n.func.id in NUM_FUNCS:
                for a in n.args:
                    note(field_of(a), f'{n.func.id}(..) in {f.qual}')
    repo._presence_numeric = num
    return num


def survey(repo):
    """field -> {'none': [(func, node)], 'truthy': [(func, node, form)]}"""
    out = {}
    for f in repo.all_funcs():
        defs = local_defs(f.node)
        for node, e, form in truthy_sites(f):
            fld = field_of(e, defs)
            if fld:
                out.setdefault(fld, {'none': [], 'truthy': []})['truthy'].append((f, node, form, e))
        for node, e in none_sites(f):
            fld = field_of(e, defs)
            if fld:
                out.setdefault(fld, {'none': [], 'truthy': []})['none'].append((f, node))
    return out


def is_numeric(repo, fld):
    num = numeric_fields(repo)
    base = fld[:-2] if fld.endswith('[]') else fld
    if fld in num:
        return num[fld]
    if base.endswith(UNIT_SUFFIX) or any(u + '_' in base for u in UNIT_SUFFIX if u in ('_db', '_dbm')):
        return f'the name {base} states a unit'
    return None


def membership_beliefs(repo):
    """container fields whose element presence is tested by membership (k in X) somewhere in the package"""
    if getattr(repo, '_presence_member', None) is not None:
        return repo._presence_member
    out = {}
    for f in repo.all_funcs():
        for n in ast.walk(f.node):
            if isinstance(n, ast.Compare) and len(n.ops) == 1 and isinstance(n.ops[0], (ast.In, ast.NotIn)):
                fld = field_of(n.comparators[0])
                if fld:
                    out.setdefault(fld + '[]', []).append((f, n))
    repo._presence_member = out
    return out


# truthiness tests on numeric fields that exist on the reference tree and are harmless, confirmed by reading
ALLOWED = {
    ('gnpy.core.parameters.EdfaParams.__init__', 'f_min'): 'a band edge of 0 Hz is not a frequency: absent and 0 mean the same',
    ('gnpy.core.parameters.EdfaParams.__init__', 'f_max'): 'a band edge of 0 Hz is not a frequency: absent and 0 mean the same',
    ('gnpy.core.network.set_egress_amplifier', 'nb_channel'): 'a channel count of 0 is not a count: falls back to the automatic count',
    ('gnpy.tools.service_sheet.Request_element.__init__', 'spacing'): 'a spacing of 0 GHz is not a spacing: falls back to the default',
    ('gnpy.core.utils.use_pmd_coef', 'pmd_coef'): 'documented helper: a PMD coefficient of 0 / None means "take the other one"',
}


def zero_default(node, e):
    """x if x else 0 / x or 0: mapping 0 to 0 is harmless"""
    def zero(v):
        return isinstance(v, ast.Constant) and not isinstance(v.value, bool) and v.value in (0, 0.0)
    if isinstance(node, ast.IfExp) and node.test is e:
        return (zero(node.orelse) and ast.dump(node.body) == ast.dump(e)) or \
            (isinstance(node.test, ast.UnaryOp) and zero(node.body))
    if isinstance(node, ast.BoolOp) and isinstance(node.op, ast.Or) and len(node.values) == 2 and node.values[0] is e:
        return zero(node.values[1])
    # the same written as a statement (canonical form of `t = x if x else 0`):  if x: t = x  else: t = 0
    if isinstance(node, ast.If) and node.test is e and len(node.body) == 1 and len(node.orelse) == 1 and \
            all(isinstance(s, ast.Assign) and len(s.targets) == 1 for s in (node.body[0], node.orelse[0])) and \
            ast.dump(node.body[0].targets[0]) == ast.dump(node.orelse[0].targets[0]):
        return zero(node.orelse[0].value) and ast.dump(node.body[0].value) == ast.dump(e)
    return False


def presence_rule(ctx, rule, funcs, why):
    from .rules.common import site
    repo = ctx.repo
    sv = survey(repo)
    mem = membership_beliefs(repo)
    n = 0
    for f in funcs:
        if f.name in ('__str__', '__repr__'):
            continue                # display only
        defs = local_defs(f.node)
        for node, e, form in truthy_sites(f):
            fld = field_of(e, defs)
            if not fld:
                continue
            ev = is_numeric(repo, fld)
            if not ev:
                continue
            belief = None
            if fld.endswith('[]'):
                if mem.get(fld):
                    g, c = mem[fld][0]
                    belief = f'presence of an entry is tested by membership elsewhere ({g.qual})'
            elif sv.get(fld, {}).get('none'):
                g, c = sv[fld]['none'][0]
                belief = f'absence is tested with `is None` elsewhere ({g.qual})'
            or_none = isinstance(node, ast.BoolOp) and isinstance(node.op, ast.Or) and isinstance(node.values[-1], ast.Constant) and \
                node.values[-1].value is None
            if or_none:
                belief = belief or '`x or None` turns the value 0 into "absent"'
            if belief is None:
                continue
            n += 1
            if zero_default(node, e):
                ctx.ok(rule, f'{site(f, node)} {fld}', 'x or 0: zero maps to zero')
                continue
            if (f.qual, fld) in ALLOWED:
                ctx.ok(rule, f'{site(f, node)} {fld}', f'allowed: {ALLOWED[(f.qual, fld)]}')
                continue
            ctx.bad(rule, f'{site(f, node)} {fld}', f'{f.qual}|truthy|{fld}',
                    f'{ast.unparse(e)[:60]} is tested by truthiness ({form}) but {fld} is numeric ({ev}) and {belief}: a value of '
                    f'exactly 0 is treated as absent: {why}', ast.unparse(node)[:160].replace('\n', ' '))
    return n


def rule_for(pid, why):
    def r_presence(ctx):
        from .memo import scope_funcs
        funcs = scope_funcs(ctx.repo, pid) + extra_funcs(ctx.repo, pid)
        n = presence_rule(ctx, 'Rp.presence', funcs, why)
        ctx.check('Rp.presence', f'presence scan of {len(funcs)} functions', len(funcs) > 0, f'{pid}|presence-scan',
                  'no function left in the scope of the presence scan', f'{n} truthiness test(s) on optional numeric fields judged')
        ctx.need('Rp.presence', 1)
    r_presence.__doc__ = ("Rp: an optional NUMERIC field (arithmetic / unit name / numeric YANG leaf) whose absence the package tests with "
                          "`is None` (or entry membership) is never tested by truthiness: 0 is a value (gscan/presence.py)")
    return r_presence


EXTRA = {
    'C14': [('gnpy.tools.json_io', ('requests_from_json',)), ('gnpy.topology.request', ('PathRequestParams', 'PathRequest'))],
    'C13': [('gnpy.tools.json_io', ('requests_from_json',))],
    'C17': [('gnpy.core.elements', None)],
}


def extra_funcs(repo, pid):
    out = []
    for mod, names in EXTRA.get(pid, []):
        m = repo.modules.get(mod)
        if m is None:
            continue
        if names is None:
            out += [f for c in m.classes.values() for f in c.all_funcs() if f.name == 'to_json']
            continue
        for nm in names:
            if nm in m.functions:
                out.append(m.functions[nm])
            if nm in m.classes:
                out += m.classes[nm].all_funcs()
    return out


def defaulted_fields(repo):
    """fields the package fills with a default when they are None:  if X.f is None: X.f = <default>"""
    out = {}
    for f in repo.all_funcs():
        for n in ast.walk(f.node):
            if isinstance(n, ast.If) and isinstance(n.test, ast.Compare) and len(n.test.ops) == 1 and isinstance(n.test.ops[0], ast.Is) and \
                    isinstance(n.test.comparators[0], ast.Constant) and n.test.comparators[0].value is None and isinstance(n.test.left, ast.Attribute):
                tgt = ast.unparse(n.test.left)
                if any(isinstance(s, ast.Assign) and ast.unparse(s.targets[0]) == tgt for s in n.body):
                    out.setdefault(n.test.left.attr, []).append((f, n))
    return out


def sentinel_rule(ctx, rule, why):
    """a field that the package fills with a configured default when it is None must BE None when the input does not give it:
    the loader reads it with .get('<field>') / .get('<field>', None), not with another default (which would win over the
    configured one)"""
    from .rules.common import site
    repo = ctx.repo
    dfl = defaulted_fields(repo)
    n = 0
    for f in repo.all_funcs():
        for c in ast.walk(f.node):
            if isinstance(c, ast.Call) and isinstance(c.func, ast.Attribute) and c.func.attr in ('get', 'pop') and len(c.args) == 2 and \
                    isinstance(c.args[0], ast.Constant) and c.args[0].value in dfl:
                st = c
                while not isinstance(st, ast.stmt):
                    st = st._parent
                # only loader stores into the same-named field
                if not (isinstance(st, ast.Assign) and isinstance(st.targets[0], ast.Attribute) and
                        st.targets[0].attr.lstrip('_') == c.args[0].value):
                    continue
                n += 1
                d = c.args[1]
                ok = isinstance(d, ast.Constant) and d.value is None
                g, site_n = dfl[c.args[0].value][0]
                ctx.check(rule, f'{site(f, c)} {c.args[0].value}', ok, f'{f.qual}|sentinel|{c.args[0].value}',
                          f"{ast.unparse(c)[:60]}: a missing '{c.args[0].value}' becomes {ast.unparse(d)} instead of None, but {g.qual} fills the "
                          f'configured default only when the field is None: {why}')
    for fld, sites_ in sorted(dfl.items()):
        g, node = sites_[0]
        # every loader of a defaulted field that uses .get(field) without default is an instance too
        for f in repo.all_funcs():
            for c in ast.walk(f.node):
                if isinstance(c, ast.Call) and isinstance(c.func, ast.Attribute) and c.func.attr == 'get' and len(c.args) == 1 and \
                        isinstance(c.args[0], ast.Constant) and c.args[0].value == fld:
                    st = c
                    while not isinstance(st, ast.stmt):
                        st = st._parent
                    if isinstance(st, ast.Assign) and isinstance(st.targets[0], ast.Attribute) and st.targets[0].attr.lstrip('_') == fld:
                        n += 1
                        ctx.ok(rule, f'{site(f, c)} {fld}', 'absent -> None')
    return n


def selecting_keys(repo):
    """{key: (function, node)}: configuration keys a parameter class reads with kwargs.get('<key>') (no default) into an attribute
    that the same constructor then tests against None to choose what to compute (e.g. effective_area given -> gamma derived from it,
    else the other way round)"""
    out = {}
    m = repo.module('gnpy.core.parameters')
    for c in m.classes.values():
        init = c.methods.get('__init__')
        if init is None:
            continue
        got = {}
        for n in ast.walk(init.node):
            if isinstance(n, ast.Assign) and isinstance(n.targets[0], ast.Attribute) and isinstance(n.value, ast.Call) and \
                    isinstance(n.value.func, ast.Attribute) and n.value.func.attr == 'get' and len(n.value.args) == 1 and \
                    isinstance(n.value.args[0], ast.Constant) and isinstance(n.value.args[0].value, str):
                got[ast.unparse(n.targets[0])] = (n.value.args[0].value, n)
        for n in ast.walk(init.node):
            if isinstance(n, ast.Compare) and len(n.ops) == 1 and isinstance(n.ops[0], (ast.Is, ast.IsNot)) and \
                    isinstance(n.comparators[0], ast.Constant) and n.comparators[0].value is None and ast.unparse(n.left) in got:
                k, node = got[ast.unparse(n.left)]
                out.setdefault(k, (init, node))
    return out


def selecting_defaults_rule(ctx, rule, why):
    """the library loader classes (gnpy/tools/json_io.py `default_values`) leave every such key at None: a concrete library default
    would always be `given` and the constructor's other branch (the value derived from what the user did give) could never run"""
    from .rules.common import site
    repo = ctx.repo
    keys = selecting_keys(repo)
    n = 0
    for c in repo.module('gnpy.tools.json_io').classes.values():
        dv = c.class_assigns.get('default_values')
        if not isinstance(dv, ast.Dict):
            continue
        for k, v in zip(dv.keys, dv.values):
            if isinstance(k, ast.Constant) and k.value in keys:
                n += 1
                g, node = keys[k.value]
                ctx.check(rule, f'{c.module.rel}:{v.lineno} {c.qual}.default_values[{k.value!r}]', isinstance(v, ast.Constant) and v.value is None,
                          f'{c.qual}|selecting-default|{k.value}',
                          f"the library default of '{k.value}' is {ast.unparse(v)}, but {g.qual} decides on `{k.value} is None` what to derive "
                          f'from what: with a concrete default the user\'s other parameter is ignored: {why}')
    return n
