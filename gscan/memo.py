"""Memoisation soundness.

A memo (a decorator cache, a table filled and consulted by the same function, a value parked on an object and reused
while a stored key is unchanged) is *sound* when everything the memoised computation reads is part of the key:
  - a value that appears in the key expression is covered by value;
  - an object that is the key by identity (self of a cached_property, the object the memo is parked on, a bare
    parameter in the key) covers only those of its attributes that are never written after construction anywhere in
    the package;
  - anything else the computation reads (another attribute of an object of which only a name / uid is in the key, a
    parameter that is not in the key at all) is NOT covered: two calls that differ only there share a result.
An unsound memo is reported; a sound one is silent (pure helper under lru_cache, per-object cache of immutable data).
"""
import ast

from .model import walk_no_nested, Func
from .dataflow import local_defs

CACHE_DECOS = {'lru_cache', 'cache', 'cached_property'}

# deliberate design-time values parked on an element and reused: confirmed by reading, one line of reason each
ALLOWED = {
    ('gnpy.core.network.estimate_raman_gain', 'estimated_gain'):
        'the Raman gain estimate of a span is a design-time value: computed once at the first design and frozen (documented in the function)',
}


class Memo:
    def __init__(self, kind, func, node, key_paths, identity, body, what):
        self.kind, self.func, self.node = kind, func, node
        self.key_paths, self.identity, self.body, self.what = key_paths, identity, body, what


def deco_name(d):
    if isinstance(d, ast.Call):
        d = d.func
    return d.id if isinstance(d, ast.Name) else (d.attr if isinstance(d, ast.Attribute) else None)


def path_of(e):
    """'root.a.b' for an attribute chain on a Name (subscripts are looked through: x.a[0].b -> x.a.b); None otherwise"""
    parts = []
    while True:
        if isinstance(e, ast.Attribute):
            parts.append(e.attr)
            e = e.value
        elif isinstance(e, ast.Subscript):
            e = e.value
        elif isinstance(e, ast.Name):
            parts.append(e.id)
            return '.'.join(reversed(parts))
        else:
            return None


def paths_in(e):
    """maximal access paths read in expression e"""
    out = set()

    def rec(n, top=True):
        if isinstance(n, (ast.Attribute, ast.Subscript, ast.Name)):
            p = path_of(n)
            if p is not None:
                out.add(p)
                # still look into subscript indices
                m = n
                while isinstance(m, (ast.Attribute, ast.Subscript)):
                    if isinstance(m, ast.Subscript):
                        rec(m.slice)
                    m = m.value
                return
        for c in ast.iter_child_nodes(n):
            rec(c)
    rec(e)
    return out


def mutable_attrs(repo):
    """attribute names stored outside an __init__ somewhere in the package, or having a property setter"""
    if getattr(repo, '_memo_mutable', None) is not None:
        return repo._memo_mutable
    out = set()
    for f in repo.all_funcs():
        if f.kind == 'setter':
            out.add(f.name)
        init = f.name == '__init__'
        for n in ast.walk(f.node):
            tg = []
            if isinstance(n, ast.Assign):
                tg = n.targets
            elif isinstance(n, (ast.AugAssign, ast.AnnAssign)):
                tg = [n.target]
            elif isinstance(n, ast.Call) and isinstance(n.func, ast.Name) and n.func.id == 'setattr' and len(n.args) >= 2:
                if isinstance(n.args[1], ast.Constant) and isinstance(n.args[1].value, str):
                    out.add(n.args[1].value)
                else:
                    out.add('*')
            for t in tg:
                for x in ast.walk(t):
                    if isinstance(x, ast.Attribute) and isinstance(x.ctx, ast.Store):
                        if not (init and isinstance(x.value, ast.Name) and x.value.id == 'self'):
                            out.add(x.attr)
                    elif isinstance(x, ast.Subscript) and isinstance(x.ctx, ast.Store):
                        p = path_of(x.value)
                        if p and '.' in p and not (init and p.startswith('self.')):
                            out.add(p.rsplit('.', 1)[1])
    repo._memo_mutable = out
    return out


def alias_map(f):
    """iteration variables -> path of what they iterate over (elements are identified with their container)"""
    if getattr(f, '_memo_alias', None) is not None:
        return f._memo_alias
    out = {}

    def bind(target, it):
        names = [target] if isinstance(target, ast.Name) else (list(target.elts) if isinstance(target, (ast.Tuple, ast.List)) else [])
        srcs = None
        if isinstance(it, ast.Call) and isinstance(it.func, ast.Name) and it.func.id == 'enumerate' and it.args and len(names) == 2:
            bind(names[1], it.args[0])
            return
        if isinstance(it, ast.Call) and isinstance(it.func, ast.Name) and it.func.id == 'zip' and len(it.args) == len(names):
            for t, a in zip(names, it.args):
                bind(t, a)
            return
        if isinstance(it, ast.Call) and isinstance(it.func, ast.Attribute) and it.func.attr in ('items', 'values') and not it.args:
            if it.func.attr == 'items' and len(names) == 2:
                bind(names[1], it.func.value)
            elif it.func.attr == 'values' and len(names) == 1:
                bind(names[0], it.func.value)
            return
        if isinstance(it, ast.Call) and isinstance(it.func, ast.Name) and it.func.id in ('reversed', 'sorted', 'list', 'tuple', 'set') and it.args:
            bind(target, it.args[0])
            return
        p = path_of(it)
        if p is not None and len(names) == 1 and isinstance(names[0], ast.Name):
            out[names[0].id] = p
    for n in ast.walk(f.node):
        if isinstance(n, ast.For):
            bind(n.target, n.iter)
    f._memo_alias = out
    f._memo_bind = bind
    return out


def comp_bindings(comp):
    """{variable: path of the iterated collection} for one comprehension node"""
    out = {}

    def bind(target, it):
        names = [target] if isinstance(target, ast.Name) else (list(target.elts) if isinstance(target, (ast.Tuple, ast.List)) else [])
        if isinstance(it, ast.Call) and isinstance(it.func, ast.Name) and it.func.id == 'enumerate' and it.args and len(names) == 2:
            return bind(names[1], it.args[0])
        if isinstance(it, ast.Call) and isinstance(it.func, ast.Name) and it.func.id == 'zip' and len(it.args) == len(names):
            for t, a in zip(names, it.args):
                bind(t, a)
            return
        if isinstance(it, ast.Call) and isinstance(it.func, ast.Attribute) and it.func.attr in ('items', 'values') and not it.args:
            if it.func.attr == 'items' and len(names) == 2:
                bind(names[1], it.func.value)
            elif it.func.attr == 'values' and len(names) == 1:
                bind(names[0], it.func.value)
            return
        if isinstance(it, ast.Call) and isinstance(it.func, ast.Name) and it.func.id in ('reversed', 'sorted', 'list', 'tuple', 'set') and it.args:
            return bind(target, it.args[0])
        p = path_of(it)
        if len(names) == 1 and isinstance(names[0], ast.Name):
            out[names[0].id] = p            # None when the source has no path: the variable is then opaque
        else:
            for t in names:
                if isinstance(t, ast.Name):
                    out.setdefault(t.id, None)
    for g in comp.generators:
        bind(g.target, g.iter)
    return out


def collect(e, scope=None, values_only=False):
    """maximal access paths read in e, comprehension variables replaced by the collection they range over.
    values_only: the iterated collections themselves are not reported (used for keys: iterating over x does not put x
    into the key, only what is taken from its elements)"""
    out = set()
    scope = dict(scope or {})

    def sub(p, sc):
        root, _, rest = p.partition('.')
        seen = set()
        while root in sc and root not in seen:
            seen.add(root)
            tgt = sc[root]
            if tgt is None:
                return None
            p = tgt + ('.' + rest if rest else '')
            root, _, rest = p.partition('.')
        return p

    def rec(n, sc):
        if isinstance(n, (ast.ListComp, ast.SetComp, ast.GeneratorExp, ast.DictComp)):
            b = comp_bindings(n)
            sc2 = dict(sc)
            sc2.update(b)
            for g in n.generators:
                if not values_only:
                    rec(g.iter, sc)
                for i in g.ifs:
                    rec(i, sc2)
            if isinstance(n, ast.DictComp):
                rec(n.key, sc2)
                rec(n.value, sc2)
            else:
                rec(n.elt, sc2)
            return
        if isinstance(n, ast.Lambda):
            return
        if isinstance(n, (ast.Attribute, ast.Subscript, ast.Name)) and isinstance(getattr(n, 'ctx', ast.Load()), ast.Load):
            p = path_of(n)
            if p is not None:
                q = sub(p, sc)
                if q is not None:
                    out.add(q)
                m = n
                while isinstance(m, (ast.Attribute, ast.Subscript)):
                    if isinstance(m, ast.Subscript):
                        rec(m.slice, sc)
                    m = m.value
                return
        if isinstance(n, ast.Call):
            # the callee name is not a value; a method receiver is
            if isinstance(n.func, ast.Attribute):
                rec(n.func.value, sc)
            for a in n.args:
                rec(a, sc)
            for k in n.keywords:
                rec(k.value, sc)
            return
        for c in ast.iter_child_nodes(n):
            rec(c, sc)
    rec(e, scope)
    return out


def expand_locals(f, paths, defs=None, depth=6, values_only=False):
    """replace paths rooted at a local by the paths of what the local was computed from"""
    defs = defs if defs is not None else local_defs(f.node)
    params = set(f.params)
    al = alias_map(f)
    out, work, seen = set(), [(p, 0) for p in paths], set()
    while work:
        p, d = work.pop()
        if (p, d) in seen:
            continue
        seen.add((p, d))
        root, _, rest = p.partition('.')
        if root not in params and root in al and d < depth:
            work.append((al[root] + ('.' + rest if rest else ''), d + 1))
            continue
        if root in params or root not in defs or d >= depth:
            out.add(p)
            continue
        for _, v in defs[root]:
            if isinstance(v, tuple) and len(v) == 3 and v[0] == 'unpack':
                v = v[1]
            if isinstance(v, (ast.ListComp, ast.SetComp, ast.GeneratorExp)) and isinstance(v.elt, ast.Name):
                src = comp_bindings(v).get(v.elt.id)
                if src is not None:
                    work.append((src + ('.' + rest if rest else ''), d + 1))
                    continue
            if isinstance(v, ast.AST):
                direct = isinstance(v, (ast.Name, ast.Attribute, ast.Subscript)) and path_of(v) is not None
                for q in collect(v, values_only=values_only):
                    if q.partition('.')[0] == root:
                        continue
                    work.append(((q + '.' + rest) if rest and direct else q, d + 1))
            else:
                out.add(p)
    return out


def scope_at(node):
    """comprehension bindings in force at node (inner comprehension wins)"""
    chain = []
    cur = getattr(node, '_parent', None)
    while cur is not None:
        if isinstance(cur, (ast.ListComp, ast.SetComp, ast.GeneratorExp, ast.DictComp)):
            chain.append(comp_bindings(cur))
        cur = getattr(cur, '_parent', None)
    sc = {}
    for b in reversed(chain):
        sc.update(b)
    return sc


def reads_of(repo, f, stmts, depth=3, _stack=()):
    """access paths (rooted at parameters of f, after local expansion) that the statements read, through resolved callees"""
    raw = set()
    for s in stmts:
        if not isinstance(s, ast.AST):
            continue
        raw |= collect(s, values_only=True)
        for n in [s] + list(walk_no_nested(s)):
            if isinstance(n, ast.Call) and depth > 0:
                callee = repo.resolve_call(f, n)
                if isinstance(callee, Func) and callee.qual not in _stack:
                    sub = reads_of(repo, callee, callee.node.body, depth - 1, _stack + (f.qual,))
                    sc = scope_at(n)
                    amap = {}
                    cps = list(callee.params)
                    if callee.cls is not None and callee.kind in ('method', 'getter') and cps and cps[0] == 'self':
                        amap['self'] = collect(n.func.value, sc) if isinstance(n.func, ast.Attribute) else set()
                        cps = cps[1:]
                    for pn, a in zip(cps, n.args):
                        amap[pn] = a
                    for k in n.keywords:
                        if k.arg:
                            amap[k.arg] = k.value
                    for p in sub:
                        root, _, rest = p.partition('.')
                        a = amap.get(root)
                        if a is None:
                            continue
                        if isinstance(a, set):
                            raw |= {x + ('.' + rest if rest else '') for x in a}
                            continue
                        direct = isinstance(a, (ast.Name, ast.Attribute, ast.Subscript)) and path_of(a) is not None
                        for x in collect(a, sc):
                            raw.add(x + ('.' + rest if rest and direct else ''))
            # property getters on self
            if isinstance(n, ast.Attribute) and isinstance(n.ctx, ast.Load) and isinstance(n.value, ast.Name) and n.value.id == 'self' \
                    and f.cls is not None and depth > 0:
                g = repo.method(f.cls, n.attr, 'getter', required=False)
                if g is not None and g.qual not in _stack:
                    raw |= reads_of(repo, g, g.node.body, depth - 1, _stack + (f.qual,))
    exp = expand_locals(f, raw)
    params = set(f.params)
    return {p for p in exp if p.partition('.')[0] in params}


def find_memos(repo, f):
    """memo constructs whose memoised computation lives in f"""
    out = []
    node = f.node
    # 1 decorator caches
    for d in node.decorator_list:
        nm = deco_name(d)
        if nm in CACHE_DECOS:
            ident = {'self'} if (f.cls is not None and f.params and f.params[0] == 'self') else set()
            keyp = set() if nm == 'cached_property' else {p for p in f.params if p != 'self'}
            out.append(Memo('decorator', f, node, keyp, ident, node.body, f'@{nm}'))
    mod = f.module
    defs = local_defs(node)
    # 2 table memo: membership / get / try-KeyError test on T and a store T[K] = V, T not created in this function
    stores = [n for n in walk_no_nested(node) if isinstance(n, ast.Assign) and isinstance(n.targets[0], ast.Subscript)]
    for st in stores:
        tab = st.targets[0].value
        tp = path_of(tab)
        if tp is None:
            continue
        root = tp.partition('.')[0]
        if root in defs and root not in f.params and '.' not in tp:
            # a local: only a memo if the local aliases a longer-lived table (module global / attribute)
            alias = [v for _, v in defs[root] if isinstance(v, ast.AST) and path_of(v) is not None and
                     isinstance(v, (ast.Attribute, ast.Name)) and path_of(v) != root]
            if not alias:
                continue
        is_global = '.' not in tp and root not in f.params and root not in defs
        is_attr = '.' in tp
        is_default = '.' not in tp and root in f.params and isinstance(f.defaults().get(root), (ast.Dict, ast.Call))
        if not (is_global or is_attr or is_default):
            continue
        key = st.targets[0].slice
        kt = ast.dump(key)
        consulted = []
        for n in walk_no_nested(node):
            if isinstance(n, ast.Compare) and len(n.ops) == 1 and isinstance(n.ops[0], (ast.In, ast.NotIn)) and \
                    path_of(n.comparators[0]) == tp:
                consulted.append(n)
            elif isinstance(n, ast.Call) and isinstance(n.func, ast.Attribute) and n.func.attr in ('get', 'setdefault') and path_of(n.func.value) == tp:
                consulted.append(n)
            elif isinstance(n, ast.Subscript) and isinstance(n.ctx, ast.Load) and path_of(n.value) == tp and ast.dump(n.slice) == kt:
                consulted.append(n)
        if not consulted:
            continue
        # a memo hands the stored element back as the function's result (directly or through a local)
        def is_elem(e):
            return (isinstance(e, ast.Subscript) and path_of(e.value) == tp) or \
                (isinstance(e, ast.Call) and isinstance(e.func, ast.Attribute) and e.func.attr in ('get', 'setdefault') and path_of(e.func.value) == tp)
        elem_locals = {nm for nm, ds in defs.items() for _, v in ds if isinstance(v, ast.AST) and is_elem(v)}
        returned = any(isinstance(r, ast.Return) and r.value is not None and
                       any(is_elem(x) or (isinstance(x, ast.Name) and x.id in elem_locals) for x in ast.walk(r.value))
                       for r in walk_no_nested(node))
        if not returned:
            continue
        # the memoised computation: what produces the stored value (and the statements of the guarded block)
        g = st
        blk = [st]
        par = getattr(st, '_parent', None)
        if isinstance(par, ast.If):
            blk = par.body if st in par.body else par.orelse
        keyp = expand_locals(f, collect(key, values_only=True), defs, values_only=True)
        ident = {tp.rsplit('.', 1)[0]} if is_attr else set()
        out.append(Memo('table', f, st, keyp, ident, blk, f'table {tp}[{ast.unparse(key)}]'))
    # 3 parked value: `if E != o.a:` / `if o.a is None` / `if not hasattr(o, 'a')` ... o.a = E ; recompute under the guard,
    #   or `if hasattr(o, 'a'): return o.a` with the store later in the same function
    for n in walk_no_nested(node):
        if not isinstance(n, ast.If):
            continue
        t = n.test
        attr_p = key_e = None
        blk = None
        if isinstance(t, ast.Compare) and len(t.ops) == 1 and isinstance(t.ops[0], (ast.NotEq, ast.Eq, ast.Is, ast.IsNot)):
            for a, b in ((t.left, t.comparators[0]), (t.comparators[0], t.left)):
                ap = path_of(a) if isinstance(a, ast.Attribute) else None
                if ap and any(isinstance(s, ast.Assign) and path_of(s.targets[0]) == ap and ast.dump(s.value) == ast.dump(b)
                              for blk_ in (n.body, n.orelse) for s in blk_):
                    attr_p, key_e = ap, b
                    blk = n.body if any(isinstance(s, ast.Assign) and path_of(s.targets[0]) == ap for s in n.body) else n.orelse
        if attr_p and key_e is not None:
            keyp = expand_locals(f, collect(key_e, values_only=True), defs, values_only=True)
            out.append(Memo('parked', f, n, keyp, {attr_p.rsplit('.', 1)[0]}, [s for s in blk if not (
                isinstance(s, ast.Assign) and path_of(s.targets[0]) == attr_p)], f'values recomputed only when {ast.unparse(key_e)[:60]} changes'))
            continue
        # key compared with a local that was read from an attribute of an object (getattr(o, 'a', ...) / o.a), and the
        # function parks (key, value) on that attribute
        if isinstance(t, ast.Compare) and len(t.ops) == 1 and isinstance(t.ops[0], (ast.NotEq, ast.Eq)):
            done = False
            for a, b in ((t.left, t.comparators[0]), (t.comparators[0], t.left)):
                if not isinstance(a, ast.Name) or done:
                    continue
                src = None
                for stmt_, v in defs.get(a.id, []):
                    vv = v[1] if isinstance(v, tuple) and len(v) == 3 and v[0] == 'unpack' else v
                    if isinstance(vv, ast.Call) and isinstance(vv.func, ast.Name) and vv.func.id == 'getattr' and len(vv.args) >= 2 and \
                            isinstance(vv.args[1], ast.Constant) and path_of(vv.args[0]):
                        src = f'{path_of(vv.args[0])}.{vv.args[1].value}'
                    elif isinstance(vv, ast.Attribute) and path_of(vv):
                        src = path_of(vv)
                if src is None:
                    continue
                parks = [s_ for s_ in walk_no_nested(node) if isinstance(s_, ast.Assign) and isinstance(s_.targets[0], ast.Attribute) and
                         path_of(s_.targets[0]) == src and any(ast.dump(x) == ast.dump(b) for x in ast.walk(s_.value))]
                if not parks:
                    continue
                if isinstance(t.ops[0], ast.Eq) and any(isinstance(s_, ast.Return) for s_ in n.body):
                    body = [s_ for s_ in node.body if s_ is not n and s_.lineno > n.lineno]
                else:
                    body = n.body if isinstance(t.ops[0], ast.NotEq) else n.orelse
                keyp = expand_locals(f, collect(b, values_only=True), defs, values_only=True)
                out.append(Memo('parked', f, n, keyp, {src.rsplit('.', 1)[0]}, body,
                                f'{src} reused while {ast.unparse(b)[:60]} is unchanged'))
                done = True
            if done:
                continue
        # hasattr form
        h = t.operand if isinstance(t, ast.UnaryOp) and isinstance(t.op, ast.Not) else t
        neg = h is not t
        if isinstance(h, ast.Call) and isinstance(h.func, ast.Name) and h.func.id == 'hasattr' and len(h.args) == 2 and \
                isinstance(h.args[1], ast.Constant):
            o, a = path_of(h.args[0]), h.args[1].value
            if o is None:
                continue
            ap = f'{o}.{a}'
            st_ = [s for s in walk_no_nested(node) if isinstance(s, ast.Assign) and path_of(s.targets[0]) == ap and
                   isinstance(s.targets[0], ast.Attribute)]
            early = [s for s in (n.orelse if neg else n.body) if isinstance(s, ast.Return) and s.value is not None and path_of(s.value) == ap]
            if neg and not any(isinstance(x, ast.Call) for s_ in st_ for x in ast.walk(s_.value)):
                continue
            if st_ and (early or neg):
                body = [s for s in node.body if s is not n] if early else n.body
                out.append(Memo('parked', f, n, set(), {o}, body, f'{ap} computed once and returned afterwards'))
    return out


def judge(repo, m):
    """None if sound, else (uncovered read paths, explanation)"""
    f = m.func
    reads = reads_of(repo, f, m.body)
    mut = mutable_attrs(repo)
    keyp = set(m.key_paths)
    key_roots_bare = {k for k in keyp if '.' not in k}
    bad = []
    for r in sorted(reads):
        root, _, rest = r.partition('.')
        # covered by value: the path itself (or a prefix that is a proper attribute path) is in the key
        if any(r == k or r.startswith(k + '.') for k in keyp if '.' in k):
            continue
        if r in keyp:
            continue
        ident = root in key_roots_bare or any(r == i or r.startswith(i + '.') for i in m.identity)
        if ident:
            base = next((i for i in m.identity if r == i or r.startswith(i + '.')), root)
            attrs = r[len(base):].strip('.').split('.') if r != base else []
            w = [a for a in attrs if a and (a in mut or '*' in mut)]
            if not w:
                continue
            bad.append((r, f'{r}: attribute {w[0]} is written after construction elsewhere in the package'))
            continue
        bad.append((r, f'{r} is read but is not part of the key'))
    return bad


def memo_rule(ctx, rule, funcs, why):
    """every memo whose computation lives in one of `funcs` must be sound"""
    from .rules.common import site
    repo = ctx.repo
    n = 0
    for f in funcs:
        for m in find_memos(repo, f):
            n += 1
            attr = m.what.split(' ')[0].rsplit('.', 1)[-1] if m.kind == 'parked' else ''
            if (f.qual, attr) in ALLOWED:
                ctx.ok(rule, f'{site(f, m.node)} {m.what}', f'allowed: {ALLOWED[(f.qual, attr)]}') if hasattr(ctx, 'ok') else None
                continue
            bad = judge(repo, m)
            ctx.check(rule, f'{site(f, m.node)} {m.what}', not bad, f'{f.qual}|memo|{m.kind}|{attr or m.what[:40]}',
                      f'{m.what}: the cached result is reused although {bad[0][1] if bad else ""} '
                      f'({len(bad)} uncovered read(s)): {why}', '; '.join(b[0] for b in bad[:8]))
    return n


# ------------------------------------------------------------------------------------------------ scopes per property
EL, SU, INFO, NW, RQ, SA, UT = ('gnpy.core.elements', 'gnpy.core.science_utils', 'gnpy.core.info', 'gnpy.core.network',
                                'gnpy.topology.request', 'gnpy.topology.spectrum_assignment', 'gnpy.core.utils')
C10_FUNCS = {'edfa_nf', 'select_edfa', 'filter_edfa_list_based_on_targets', 'get_node_restrictions', 'preselect_multiband_amps',
             'find_type_variety', 'find_type_varieties'}
C08_PREFIX = ('add_', 'split_', 'prev_node', 'next_node', 'find_first', 'find_last', 'calculate_new_length', 'get_next', 'get_previous')
SCOPES = {
    'C01': [(INFO, None)],
    'C02': [(EL, 'Edfa'), (EL, 'Fiber'), (EL, 'RamanFiber'), (EL, 'Roadm'), (SU, None)],
    'C03': [(SU, 'NliSolver'), (EL, 'Fiber'), (SU, '<functions>')],
    'C04': [(EL, 'Edfa'), (EL, 'Multiband_amplifier')],
    'C05': [(EL, 'Fiber'), (EL, 'RamanFiber'), (SU, 'RamanSolver'), (SU, '<functions>')],
    'C06': [(EL, 'Roadm')],
    'C07': [(INFO, '<functions>'), (UT, '<functions>'), (EL, 'Multiband_amplifier'),
            (RQ, lambda n: n in ('find_elements_common_range', 'filter_si'))],
    'C08': [(NW, lambda n: n.startswith(C08_PREFIX))],
    'C09': [(NW, lambda n: not n.startswith(C08_PREFIX) and n not in C10_FUNCS)],
    'C10': [(NW, lambda n: n in C10_FUNCS), ('gnpy.core.equipment', None)],
    'C11': [(RQ, lambda n: n in ('compute_constrained_path', 'ispart', 'find_reversed_path', 'explicit_path', 'correct_json_route_list'))],
    'C12': [(RQ, lambda n: n in ('compute_path_dsjctn', 'isdisjoint', 'remove_candidate', 'deduplicate_disjunctions'))],
    'C13': [(EL, 'Transceiver'), (RQ, lambda n: n.startswith('propagate') or n in ('compute_path_with_disjunction', 'penalty_msg'))],
    'C14': [(SA, None)],
    'C15': [(SA, None)],
    'C16': [(RQ, None), ('gnpy.tools.worker_utils', None)],
    'C19': [(RQ, 'ResultElement'), (RQ, lambda n: n.startswith('json') or n.startswith('_json'))],
}


def scope_funcs(repo, pid):
    out, seen = [], set()
    for mod, sel in SCOPES.get(pid, []):
        m = repo.modules.get(mod)
        if m is None:
            continue
        cand = []
        if sel is None:
            cand = list(m.functions.values()) + [f for c in m.classes.values() for f in c.all_funcs()]
        elif sel == '<functions>':
            cand = list(m.functions.values())
        elif isinstance(sel, str):
            c = m.classes.get(sel)
            cand = c.all_funcs() if c is not None else []
        else:
            cand = [f for f in m.functions.values() if sel(f.name)]
        for f in cand:
            if f.qual not in seen:
                seen.add(f.qual)
                out.append(f)
    return out


def rule_for(pid, why):
    """rule function (name 'Rm.memo') for the rule set of property pid"""
    def r_memo(ctx):
        funcs = scope_funcs(ctx.repo, pid)
        n = memo_rule(ctx, 'Rm.memo', funcs, why)
        ctx.check('Rm.memo', f'memo scan of {len(funcs)} functions', len(funcs) > 0, f'{pid}|memo-scan',
                  'no function left in the scope of the memoisation scan', f'{n} memo construct(s) judged')
        ctx.need('Rm.memo', 1)
    r_memo.__doc__ = ("Rm: every memoisation construct in the functions behind this property (decorator cache, table consulted and "
                      "filled by the same function, value parked on an object and reused while a stored key is unchanged) is keyed by "
                      "everything the memoised computation reads (gscan/memo.py)")
    return r_memo
