"""Call graph and effect summaries (DESIGN 2.2).

For every function: which parameters' object state it may mutate (attribute names), which module globals / class
attributes it writes, and which repo functions it may call.  Summaries are propagated over resolved calls to a
fixed point.  Name-based over-approximation where no type is known (unique-method-name fallback, then all methods
of that name) - listed by the rules that rely on it.
"""
import ast

from .model import Func, Cls, walk_no_nested

MUTATING_METHODS = {'append', 'extend', 'insert', 'pop', 'remove', 'clear', 'update', 'setdefault', 'sort',
                    'reverse', 'add', 'discard', 'popitem', '__setitem__'}


class Effects:
    def __init__(self):
        self.param_writes = {}     # param index -> set of attribute names written ('[]' = item store, '()' = mutator)
        self.global_writes = set()  # 'module.NAME' / 'Class.attr'
        self.calls = []            # (callee Func|Cls|None, call node, {callee param idx: caller param idx})
        self.unresolved = []       # call nodes with no resolved callee


_CACHE = {}


def local_types(repo, f):
    """{local name: Cls} from parameter annotations, constructor calls and isinstance guards"""
    types = {}
    a = f.node.args
    for p in a.posonlyargs + a.args + a.kwonlyargs:
        if p.annotation is not None:
            c = _ann_class(repo, f, p.annotation)
            if c is not None:
                types[p.arg] = c
    for n in walk_no_nested(f.node):
        if isinstance(n, ast.Assign) and len(n.targets) == 1 and isinstance(n.targets[0], ast.Name) and \
                isinstance(n.value, ast.Call):
            r = repo.resolve_call(f, n.value)
            if isinstance(r, Cls):
                types[n.targets[0].id] = r
    return types


def _ann_class(repo, f, ann):
    if isinstance(ann, ast.Constant) and isinstance(ann.value, str):
        name = ann.value.split('.')[-1]
    elif isinstance(ann, ast.Name):
        name = ann.id
    elif isinstance(ann, ast.Attribute):
        name = ann.attr
    else:
        return None
    c = repo.resolve_class(f.module, name)
    if c is None and name in repo.class_index and len(repo.class_index[name]) == 1:
        c = repo.class_index[name][0]
    return c


def root_name(e):
    while isinstance(e, (ast.Attribute, ast.Subscript)):
        e = e.value
    return e.id if isinstance(e, ast.Name) else None


def direct_effects(repo, f):
    eff = Effects()
    params = f.params + f.kwonly
    pidx = {p: i for i, p in enumerate(params)}
    types = local_types(repo, f)
    # local aliases of parameters: x = param / x = param.attr  (one level, flow-insensitive)
    alias = {}
    for n in walk_no_nested(f.node):
        if isinstance(n, ast.Assign) and len(n.targets) == 1 and isinstance(n.targets[0], ast.Name):
            r = root_name(n.value) if isinstance(n.value, (ast.Name, ast.Attribute, ast.Subscript)) else None
            if r in pidx and n.targets[0].id not in pidx:
                alias.setdefault(n.targets[0].id, r)
        if isinstance(n, ast.For) and isinstance(n.target, ast.Name):
            it = n.iter
            r = root_name(it) if isinstance(it, (ast.Name, ast.Attribute, ast.Subscript)) else None
            if r in pidx:
                alias.setdefault(n.target.id, r)
    declared_global = set()
    for n in walk_no_nested(f.node):
        if isinstance(n, ast.Global):
            declared_global |= set(n.names)

    local_names = {x.id for x in ast.walk(f.node) if isinstance(x, ast.Name) and isinstance(x.ctx, ast.Store)} - declared_global

    def param_of(name):
        if name in pidx:
            return pidx[name]
        if name in alias:
            return pidx[alias[name]]
        return None

    def record_store(t):
        if isinstance(t, ast.Attribute):
            r = root_name(t)
            i = param_of(r) if r else None
            if i is not None:
                eff.param_writes.setdefault(i, set()).add(t.attr)
            elif r is not None:
                res = repo.resolve_name(f.module, r)
                if isinstance(res, Cls):
                    eff.global_writes.add(f'{res.qual}.{t.attr}')
                elif isinstance(res, tuple) and res[0] == 'module':
                    eff.global_writes.add(f'{res[1].name}.{t.attr}')
                elif r == 'cls' and f.cls is not None:
                    eff.global_writes.add(f'{f.cls.qual}.{t.attr}')
                elif isinstance(res, tuple) and res[0] == 'const' and r not in local_names:
                    # attribute store on a module-level object (e.g. the process-wide sim_params instance)
                    eff.global_writes.add(f'{res[2].name}.{r}.{t.attr}')
        elif isinstance(t, ast.Subscript):
            r = root_name(t)
            i = param_of(r) if r else None
            if i is not None:
                inner = t.value
                eff.param_writes.setdefault(i, set()).add((inner.attr if isinstance(inner, ast.Attribute) else '') + '[]')
            elif r is not None:
                res = repo.resolve_name(f.module, r)
                if isinstance(res, tuple) and res[0] == 'const':
                    eff.global_writes.add(f'{f.module.name}.{r}[]')
                elif isinstance(res, Cls) or r == 'cls':
                    inner = t.value
                    q = res.qual if isinstance(res, Cls) else (f.cls.qual if f.cls else '?')
                    eff.global_writes.add(f'{q}.{inner.attr if isinstance(inner, ast.Attribute) else ""}[]')
        elif isinstance(t, (ast.Tuple, ast.List)):
            for x in t.elts:
                record_store(x)
        elif isinstance(t, ast.Name) and t.id in declared_global:
            eff.global_writes.add(f'{f.module.name}.{t.id}')
        elif isinstance(t, ast.Starred):
            record_store(t.value)

    for n in walk_no_nested(f.node):
        if isinstance(n, ast.Assign):
            for t in n.targets:
                record_store(t)
        elif isinstance(n, (ast.AugAssign, ast.AnnAssign)):
            record_store(n.target)
        elif isinstance(n, ast.Delete):
            for t in n.targets:
                record_store(t)
        elif isinstance(n, ast.Call):
            fn = n.func
            # setattr(obj, name, v)
            if isinstance(fn, ast.Name) and fn.id == 'setattr' and n.args:
                r = root_name(n.args[0])
                i = param_of(r) if r else None
                if i is not None:
                    nm = n.args[1].value if len(n.args) > 1 and isinstance(n.args[1], ast.Constant) else '*'
                    eff.param_writes.setdefault(i, set()).add(nm)
            # container mutators on something reachable from a parameter
            if isinstance(fn, ast.Attribute) and fn.attr in MUTATING_METHODS:
                r = root_name(fn.value)
                i = param_of(r) if r else None
                if i is not None:
                    inner = fn.value
                    eff.param_writes.setdefault(i, set()).add(
                        (inner.attr if isinstance(inner, ast.Attribute) else '') + '()')
                elif r is not None and r not in pidx:
                    res = repo.resolve_name(f.module, r)
                    if isinstance(res, tuple) and res[0] == 'const':
                        eff.global_writes.add(f'{f.module.name}.{r}()')
                    elif isinstance(res, Cls) or (r == 'cls' and f.cls is not None):
                        q = res.qual if isinstance(res, Cls) else f.cls.qual
                        inner = fn.value
                        eff.global_writes.add(f'{q}.{inner.attr if isinstance(inner, ast.Attribute) else ""}()')
            callee = repo.resolve_call(f, n, local_types=types)
            amap = {}
            if isinstance(callee, (Func, Cls)):
                target = callee if isinstance(callee, Func) else repo.method(callee, '__init__', required=False)
                off = 0
                if target is not None:
                    tparams = target.params + target.kwonly
                    is_bound = isinstance(fn, ast.Attribute) and target.cls is not None and \
                        target.kind not in ('staticmethod',) and not (
                            isinstance(fn.value, ast.Name) and isinstance(repo.resolve_name(f.module, fn.value.id), Cls)
                            and target.kind != 'classmethod')
                    if isinstance(callee, Cls):
                        off = 1
                    elif is_bound:
                        off = 1
                        r = root_name(fn.value)
                        if isinstance(fn.value, ast.Call):
                            r = 'self' if (isinstance(fn.value.func, ast.Name) and fn.value.func.id == 'super') else None
                        i = param_of(r) if r else None
                        if i is not None:
                            amap[0] = i
                    for k, a in enumerate(n.args):
                        if isinstance(a, ast.Starred):
                            continue
                        r = root_name(a) if isinstance(a, (ast.Name, ast.Attribute, ast.Subscript)) else None
                        i = param_of(r) if r else None
                        if i is not None and k + off < len(tparams):
                            amap[k + off] = i
                    for kw in n.keywords:
                        if kw.arg and kw.arg in tparams:
                            r = root_name(kw.value) if isinstance(kw.value, (ast.Name, ast.Attribute, ast.Subscript)) else None
                            i = param_of(r) if r else None
                            if i is not None:
                                amap[tparams.index(kw.arg)] = i
                    eff.calls.append((target, n, amap))
                else:
                    eff.calls.append((None, n, {}))
            else:
                eff.unresolved.append(n)
    return eff


def all_effects(repo):
    """transitive summaries for every function, to a fixed point"""
    if getattr(repo, '_effects_cache', None) is not None:
        return repo._effects_cache
    direct = {f.qual: (f, direct_effects(repo, f)) for f in repo.all_funcs()}
    total = {}
    for q, (f, e) in direct.items():
        t = Effects()
        t.param_writes = {i: set(s) for i, s in e.param_writes.items()}
        t.global_writes = set(e.global_writes)
        t.calls = e.calls
        t.unresolved = e.unresolved
        total[q] = t
    changed = True
    rounds = 0
    while changed and rounds < 50:
        changed = False
        rounds += 1
        for q, (f, e) in direct.items():
            t = total[q]
            for callee, node, amap in e.calls:
                if callee is None or callee.qual not in total:
                    continue
                ce = total[callee.qual]
                if not ce.global_writes <= t.global_writes:
                    t.global_writes |= ce.global_writes
                    changed = True
                for ci, attrs in ce.param_writes.items():
                    if ci in amap:
                        cur = t.param_writes.setdefault(amap[ci], set())
                        if not attrs <= cur:
                            cur |= attrs
                            changed = True
    repo._effects_cache = total
    return total


def effects_of(repo, f):
    return all_effects(repo).get(f.qual, Effects())


def reachable(repo, roots, by_name_fallback=True, stop=()):
    """functions reachable from roots over resolved calls; with by_name_fallback, an unresolved x.m() call reaches
    every repo method named m (sound over-approximation)"""
    eff = all_effects(repo)
    seen = {}
    work = list(roots)
    stop = set(stop)
    while work:
        f = work.pop()
        if f.qual in seen or f.qual in stop:
            continue
        seen[f.qual] = f
        e = eff.get(f.qual)
        if e is None:
            continue
        for callee, node, amap in e.calls:
            if callee is not None:
                work.append(callee)
        if by_name_fallback:
            for node in e.unresolved:
                fn = node.func
                if isinstance(fn, ast.Attribute):
                    for m in repo.callees_by_name(fn.attr):
                        work.append(m)
                elif isinstance(fn, ast.Name):
                    pass
    return seen
