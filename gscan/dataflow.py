"""Def-use helpers (DESIGN 2.4): local definitions, derives-from closure, freshness lattice for lists."""
import ast

from .model import walk_no_nested, Func, Cls


def local_defs(fnode):
    """name -> list of (stmt, value expr | ('iter', expr) | ('unpack', expr, index) | None)"""
    defs = {}

    def add(t, v, stmt):
        if isinstance(t, ast.Name):
            defs.setdefault(t.id, []).append((stmt, v))
        elif isinstance(t, (ast.Tuple, ast.List)):
            for i, e in enumerate(t.elts):
                if isinstance(v, ast.AST) and isinstance(v, (ast.Tuple, ast.List)) and len(v.elts) == len(t.elts):
                    add(e, v.elts[i], stmt)
                else:
                    add(e, ('unpack', v, i), stmt)
        elif isinstance(t, ast.Starred):
            add(t.value, ('unpack', v, None), stmt)
    for n in walk_no_nested(fnode):
        if isinstance(n, ast.Assign):
            for t in n.targets:
                add(t, n.value, n)
        elif isinstance(n, ast.AnnAssign) and n.value is not None:
            add(n.target, n.value, n)
        elif isinstance(n, ast.AugAssign):
            add(n.target, ('aug', n.value), n)
        elif isinstance(n, ast.For):
            add(n.target, ('iter', n.iter), n)
        elif isinstance(n, ast.With):
            for it in n.items:
                if it.optional_vars is not None:
                    add(it.optional_vars, it.context_expr, n)
        elif isinstance(n, ast.NamedExpr):
            add(n.target, n.value, n)
        elif isinstance(n, ast.comprehension):
            add(n.target, ('iter', n.iter), n)
    return defs


def single_def(fnode, name):
    d = local_defs(fnode).get(name, [])
    return d[0][1] if len(d) == 1 else None


def names_in(expr):
    if expr is None:
        return set()
    if isinstance(expr, tuple):
        out = set()
        for x in expr:
            if isinstance(x, (ast.AST, tuple)):
                out |= names_in(x)
        return out
    return {n.id for n in ast.walk(expr) if isinstance(n, ast.Name)}


def derives(fnode, expr, stop=()):
    """root names (parameters / globals / stop names) the expression transitively derives from through locals"""
    defs = local_defs(fnode)
    seen, roots = set(), set()
    work = list(names_in(expr))
    while work:
        n = work.pop()
        if n in seen:
            continue
        seen.add(n)
        if n in stop or n not in defs:
            roots.add(n)
            continue
        for _, v in defs[n]:
            work.extend(names_in(v))
    return roots


def params_of(fnode):
    a = fnode.args
    out = [x.arg for x in a.posonlyargs + a.args + a.kwonlyargs]
    if a.vararg:
        out.append(a.vararg.arg)
    if a.kwarg:
        out.append(a.kwarg.arg)
    return out


# --------------------------------------------------------------------------- freshness
FRESH, SHARED = 'fresh', 'shared'
COPY_CALLS = {'list', 'deepcopy', 'copy', 'sorted', 'array', 'tuple', 'dict', 'set', 'bytearray'}


def join(a, b):
    return FRESH if a == FRESH and b == FRESH else SHARED


class Freshness:
    """two-point lattice for list-like values.  fresh = a new object no one else references."""

    def __init__(self, repo, func, depth=0):
        self.repo, self.func, self.depth = repo, func, depth
        self.returns = []
        self.at_call = {}        # id(call node) -> env snapshot at the statement containing it
        self.at_stmt = {}        # id(stmt) -> env snapshot before the statement

    def expr(self, e, env):
        if isinstance(e, (ast.List, ast.ListComp, ast.Dict, ast.DictComp, ast.Set, ast.SetComp, ast.Tuple,
                          ast.Constant, ast.JoinedStr, ast.GeneratorExp)):
            return FRESH
        if isinstance(e, ast.BinOp):
            return FRESH            # a + b, [x] * k build new objects
        if isinstance(e, ast.Name):
            return env.get(e.id, SHARED)
        if isinstance(e, ast.Subscript):
            if isinstance(e.slice, ast.Slice):
                return FRESH        # x[:] / x[a:b] copies a list
            return SHARED
        if isinstance(e, ast.Starred):
            return SHARED
        if isinstance(e, ast.IfExp):
            return join(self.expr(e.body, env), self.expr(e.orelse, env))
        if isinstance(e, ast.Call):
            f = e.func
            nm = f.id if isinstance(f, ast.Name) else (f.attr if isinstance(f, ast.Attribute) else None)
            if isinstance(f, ast.Name) and nm in COPY_CALLS:
                return FRESH
            if isinstance(f, ast.Attribute) and nm in ('copy', 'deepcopy', 'tolist') :
                return FRESH
            callee = self.repo.resolve_call(self.func, e)
            if isinstance(callee, Cls):
                return FRESH
            if isinstance(callee, Func) and self.depth < 3:
                return returns_fresh(self.repo, callee, self.depth + 1)
            return SHARED
        return SHARED

    def block(self, stmts, env):
        for s in stmts:
            env = self.stmt(s, env)
            if env is None:
                return None
        return env

    def note_calls(self, s, env):
        for n in [s] + list(walk_no_nested(s)):
            if isinstance(n, ast.Call):
                self.at_call[id(n)] = dict(env)

    def stmt(self, s, env):
        self.at_stmt[id(s)] = dict(env)
        if isinstance(s, (ast.If, ast.For, ast.While, ast.With, ast.Try)):
            pass
        else:
            self.note_calls(s, env)
        if isinstance(s, ast.Assign):
            v = self.expr(s.value, env)
            env = dict(env)
            for t in s.targets:
                self.bind(t, v, env)
            return env
        if isinstance(s, ast.AnnAssign) and s.value is not None:
            env = dict(env)
            self.bind(s.target, self.expr(s.value, env), env)
            return env
        if isinstance(s, ast.AugAssign):
            return env              # x += y keeps the identity of a list (stays what it was)
        if isinstance(s, ast.Return):
            self.returns.append(self.expr(s.value, env) if s.value is not None else FRESH)
            return None
        if isinstance(s, ast.Raise):
            return None
        if isinstance(s, ast.If):
            self.note_calls(s.test, env)
            a = self.block(s.body, dict(env))
            b = self.block(s.orelse, dict(env))
            return self.merge(a, b)
        if isinstance(s, (ast.For, ast.While)):
            self.note_calls(s.iter if isinstance(s, ast.For) else s.test, env)
            cur = dict(env)
            for _ in range(4):
                start = dict(cur)
                if isinstance(s, ast.For):
                    self.bind(s.target, SHARED, start)
                after = self.block(s.body, start)
                new = self.merge(cur, after)
                if new == cur:
                    break
                cur = new
            if s.orelse:
                return self.block(s.orelse, cur)
            return cur
        if isinstance(s, ast.With):
            for it in s.items:
                self.note_calls(it.context_expr, env)
            return self.block(s.body, env)
        if isinstance(s, ast.Try):
            a = self.block(s.body + s.orelse, dict(env))
            outs = [a]
            for h in s.handlers:
                outs.append(self.block(h.body, dict(env)))
            res = None
            for o in outs:
                res = self.merge(res, o) if res is not None else o
            if s.finalbody and res is not None:
                res = self.block(s.finalbody, res)
            return res
        return env

    def bind(self, t, v, env):
        if isinstance(t, ast.Name):
            env[t.id] = v
        elif isinstance(t, (ast.Tuple, ast.List)):
            for e in t.elts:
                self.bind(e, SHARED, env)

    @staticmethod
    def merge(a, b):
        if a is None:
            return b
        if b is None:
            return a
        out = {}
        for k in set(a) | set(b):
            out[k] = join(a.get(k, SHARED), b.get(k, SHARED))
        return out

    def run(self):
        env = {p: SHARED for p in params_of(self.func.node)}
        self.block(self.func.node.body, env)
        return self


_RF = {}


def returns_fresh(repo, func, depth=0):
    cache = repo.__dict__.setdefault('_rf_cache', {})
    k = func.qual
    if k in cache:
        return cache[k]
    cache[k] = SHARED          # recursion guard
    fr = Freshness(repo, func, depth).run()
    res = FRESH if fr.returns and all(r == FRESH for r in fr.returns) else SHARED
    cache[k] = res
    return res
