"""Finite case analysis of a small builder function.

A function that fills a dict depending on string tests on ONE subject expression (`x == 'a'`, `x != 'b'`, `x in ('a', 'b')`,
combined with and / or / not) is interpreted once per case of the subject: every constant it is compared with, plus one
representative of "anything else". The result is, per case, the table key -> value text of the stores into the returned dict
(`d = {...}` literal entries and `d[k] = v` stores, in execution order, until the return). Two functions, or a function and a
specification, are compared on these tables: arm order, guard clauses, merged or split branches and hoisted tests do not matter.
"""
import ast

from .model import CannotAnalyse

OTHER = '<other>'


def _cond(e, subject, case):
    if isinstance(e, ast.BoolOp):
        vals = [_cond(v, subject, case) for v in e.values]
        return all(vals) if isinstance(e.op, ast.And) else any(vals)
    if isinstance(e, ast.UnaryOp) and isinstance(e.op, ast.Not):
        return not _cond(e.operand, subject, case)
    if isinstance(e, ast.Compare) and len(e.ops) == 1:
        le, ri, op = e.left, e.comparators[0], e.ops[0]
        if ast.unparse(ri) == subject and isinstance(le, ast.Constant) and isinstance(op, (ast.Eq, ast.NotEq)):
            le, ri = ri, le
        if ast.unparse(le) == subject:
            if isinstance(ri, ast.Constant) and isinstance(op, (ast.Eq, ast.NotEq)):
                r = case == ri.value
                return r if isinstance(op, ast.Eq) else not r
            if isinstance(ri, (ast.Tuple, ast.List, ast.Set)) and all(isinstance(x, ast.Constant) for x in ri.elts) and \
                    isinstance(op, (ast.In, ast.NotIn)):
                r = case in [x.value for x in ri.elts]
                return r if isinstance(op, ast.In) else not r
    if ast.unparse(e) == subject:
        return bool(case) if case != OTHER else True
    raise CannotAnalyse(f'case analysis: test {ast.unparse(e)[:60]} is not a test on {subject}')


def constants_tested(fnode, subject):
    out = []
    for n in ast.walk(fnode):
        if isinstance(n, ast.Compare) and len(n.ops) == 1:
            sides = [n.left, n.comparators[0]]
            if any(ast.unparse(x) == subject for x in sides):
                for x in sides:
                    if isinstance(x, ast.Constant) and x.value not in out:
                        out.append(x.value)
                    elif isinstance(x, (ast.Tuple, ast.List, ast.Set)):
                        out += [y.value for y in x.elts if isinstance(y, ast.Constant) and y.value not in out]
    return out


def tables(fnode, subject, cases=None):
    """{case: {key: value text}} of the dict the function returns; fnode should have its locals written out (through_locals)"""
    rets = [n for n in ast.walk(fnode) if isinstance(n, ast.Return)]
    names = {n.value.id for n in rets if isinstance(n.value, ast.Name)}
    if len(names) != 1 or any(not isinstance(n.value, ast.Name) for n in rets):
        raise CannotAnalyse('case analysis: the function does not return one named dict')
    d = names.pop()
    cases = list(cases) if cases is not None else constants_tested(fnode, subject) + [OTHER]

    class Done(Exception):
        pass

    def run(stmts, case, tab):
        for s in stmts:
            if isinstance(s, ast.Expr) and isinstance(s.value, ast.Constant):
                continue
            if isinstance(s, ast.If):
                run(s.body if _cond(s.test, subject, case) else s.orelse, case, tab)
            elif isinstance(s, ast.Return):
                raise Done()
            elif isinstance(s, ast.Assign) and len(s.targets) == 1:
                t = s.targets[0]
                if isinstance(t, ast.Name) and t.id == d:
                    if not isinstance(s.value, ast.Dict) or any(not isinstance(k, ast.Constant) for k in s.value.keys):
                        raise CannotAnalyse('case analysis: the returned dict is not a literal with constant keys')
                    tab.clear()
                    tab.update({k.value: ast.unparse(v) for k, v in zip(s.value.keys, s.value.values)})
                elif isinstance(t, ast.Subscript) and isinstance(t.value, ast.Name) and t.value.id == d and isinstance(t.slice, ast.Constant):
                    tab[t.slice.value] = ast.unparse(s.value)
                elif isinstance(t, ast.Name):
                    if any(isinstance(x, ast.Name) and x.id == d for x in ast.walk(s.value)):
                        raise CannotAnalyse('case analysis: the dict escapes into a local')
                else:
                    raise CannotAnalyse(f'case analysis: store {ast.unparse(t)[:40]}')
            elif isinstance(s, ast.Pass):
                continue
            else:
                raise CannotAnalyse(f'case analysis: statement {type(s).__name__}')
    out = {}
    for c in cases:
        tab = {}
        try:
            run(fnode.body, c, tab)
        except Done:
            pass
        out[c] = tab
    return out


# ------------------------------------------------------------------------------------------------ decision tables
def _logical(e):
    return isinstance(e, (ast.BoolOp, ast.Compare)) or (isinstance(e, ast.UnaryOp) and isinstance(e.op, ast.Not))


def _atoms(e, out):
    if isinstance(e, ast.BoolOp):
        for v in e.values:
            _atoms(v, out)
    elif isinstance(e, ast.UnaryOp) and isinstance(e.op, ast.Not):
        _atoms(e.operand, out)
    elif isinstance(e, ast.IfExp):
        for v in (e.test, e.body, e.orelse):
            _atoms(v, out)
    elif isinstance(e, ast.Compare):
        if len(e.ops) == 1 and isinstance(e.ops[0], (ast.Eq, ast.NotEq)) and _logical(e.left) and _logical(e.comparators[0]):
            _atoms(e.left, out)
            _atoms(e.comparators[0], out)
            return
        terms = [e.left] + list(e.comparators)
        for a, op, b in zip(terms, e.ops, terms[1:]):
            t = _atom_text(a, op, b)[0]
            if t not in out:
                out.append(t)
    else:
        t = ast.unparse(e)
        if t not in out:
            out.append(t)


_TEXT = {}


def _atom_text(a, op, b):
    k = (id(a), type(op), id(b))
    if k not in _TEXT:
        _TEXT[k] = (_atom_text0(a, op, b), a, b)       # the nodes are kept alive with their key
    return _TEXT[k][0]


def _atom_text0(a, op, b):
    """(text of the positive atom, negated?) of one comparison link"""
    neg = {ast.NotEq: ast.Eq, ast.NotIn: ast.In, ast.IsNot: ast.Is}
    if type(op) in neg:
        return ast.unparse(ast.Compare(left=a, ops=[neg[type(op)]()], comparators=[b])), True
    if isinstance(op, (ast.Gt, ast.GtE)):
        op2 = ast.Lt() if isinstance(op, ast.Gt) else ast.LtE()
        return ast.unparse(ast.Compare(left=b, ops=[op2], comparators=[a])), False
    return ast.unparse(ast.Compare(left=a, ops=[op], comparators=[b])), False


def _value(e, env):
    if isinstance(e, ast.BoolOp):
        vals = [_value(v, env) for v in e.values]
        return all(vals) if isinstance(e.op, ast.And) else any(vals)
    if isinstance(e, ast.UnaryOp) and isinstance(e.op, ast.Not):
        return not _value(e.operand, env)
    if isinstance(e, ast.IfExp):
        return _value(e.body, env) if _value(e.test, env) else _value(e.orelse, env)
    if isinstance(e, ast.Compare):
        if len(e.ops) == 1 and isinstance(e.ops[0], (ast.Eq, ast.NotEq)) and _logical(e.left) and _logical(e.comparators[0]):
            r = bool(_value(e.left, env)) == bool(_value(e.comparators[0], env))
            return r if isinstance(e.ops[0], ast.Eq) else not r
        terms = [e.left] + list(e.comparators)
        for a, op, b in zip(terms, e.ops, terms[1:]):
            t, neg = _atom_text(a, op, b)
            if bool(env[t]) == neg:
                return False
        return True
    if isinstance(e, ast.Name) and ('$' + e.id) in env:
        return env['$' + e.id]          # a local that holds the outcome of a test
    k = id(e)
    if k not in _TEXT:
        _TEXT[k] = (ast.unparse(e), e)
    return env[_TEXT[k][0]]


def _bool_locals(fnode):
    return {n.targets[0].id for n in ast.walk(fnode) if isinstance(n, ast.Assign) and len(n.targets) == 1 and
            isinstance(n.targets[0], ast.Name) and (_logical(n.value) or isinstance(n.value, ast.Name))}


def _all_atoms(fnode):
    """atoms of every test, and of every truth value kept in a local (the local itself is not an atom)"""
    atoms = []
    bl = _bool_locals(fnode)
    for n in ast.walk(fnode):
        if isinstance(n, (ast.If, ast.IfExp, ast.While)):
            _atoms(n.test, atoms)
        elif isinstance(n, ast.Assign) and len(n.targets) == 1 and isinstance(n.targets[0], ast.Name) and n.targets[0].id in bl and \
                _logical(n.value):
            _atoms(n.value, atoms)
    return [a for a in atoms if a not in bl]


def decision_table(fnode, max_atoms=10):
    """(atoms, {assignment tuple: text of the returned / raised outcome}) of a function made of tests and returns; the function's
    locals must have been written out (through_locals) so that tests and results are expressions over the parameters"""
    import itertools
    atoms = _all_atoms(fnode)
    if len(atoms) > max_atoms:
        raise CannotAnalyse(f'decision table: {len(atoms)} atoms')

    class Out(Exception):
        pass

    def run(stmts, env):
        for s in stmts:
            if isinstance(s, ast.Expr) and isinstance(s.value, ast.Constant):
                continue
            if isinstance(s, ast.If):
                run(s.body if _value(s.test, env) else s.orelse, env)
            elif isinstance(s, ast.Return):
                raise Out(ast.unparse(s.value) if s.value is not None else 'None')
            elif isinstance(s, ast.Raise):
                raise Out('raise ' + (ast.unparse(s.exc.func) if isinstance(s.exc, ast.Call) else ast.unparse(s.exc) if s.exc else ''))
            elif isinstance(s, ast.Assign) and len(s.targets) == 1 and isinstance(s.targets[0], ast.Name) and s.targets[0].id in bl:
                try:
                    env['$' + s.targets[0].id] = bool(_value(s.value, env))
                except KeyError:
                    pass
            elif isinstance(s, (ast.Assign, ast.AnnAssign, ast.Pass, ast.Expr, ast.AugAssign)):
                continue            # other locals: already written out at their uses
            elif isinstance(s, (ast.For, ast.While)) and not any(isinstance(x, (ast.Return, ast.Raise)) for x in ast.walk(s)):
                continue            # a loop that cannot leave the function: an opaque step
            else:
                raise CannotAnalyse(f'decision table: statement {type(s).__name__}')
        return None
    table = {}
    bl = _bool_locals(fnode)
    for vals in itertools.product((False, True), repeat=len(atoms)):
        env = dict(zip(atoms, vals))
        try:
            run(fnode.body, env)
            table[vals] = 'None'
        except Out as o:
            table[vals] = o.args[0]
    return atoms, table


def same_decisions(fa, fb):
    """two functions (locals written out) take the same decision under every assignment of the union of their test atoms;
    returns (equal?, first difference text).  Dict results are compared as values: a dict built in one literal, per arm, or key by key
    (`d = {..}; d['k'] = v`, also nested through a local) renders to the same sorted text.  A `try .. except` is read with one more
    atom: whether the guarded body raises (then the first handler runs instead of the body)."""
    import itertools
    aa, ab = _all_atoms(fa), _all_atoms(fb)
    atoms = aa + [x for x in ab if x not in aa]
    if any(isinstance(n, ast.Try) for fn in (fa, fb) for n in ast.walk(fn)):
        atoms.append('$raises')
    if len(atoms) > 12:
        raise CannotAnalyse(f'decision table: {len(atoms)} atoms')

    def outcome(fn, env):
        class Out(Exception):
            pass
        dicts = {}

        def render(e):
            if e is None:
                return 'None'
            if isinstance(e, ast.Name) and e.id in dicts:
                return '{' + ','.join(f'{k!r}:{v}' for k, v in sorted(dicts[e.id].items())) + '}'
            if isinstance(e, ast.Dict) and all(isinstance(k, ast.Constant) for k in e.keys):
                return '{' + ','.join(f'{k.value!r}:{render(v)}' for k, v in sorted(zip(e.keys, e.values), key=lambda kv: repr(kv[0].value))) + '}'
            return ast.unparse(e).replace(' ', '')

        def run(stmts):
            for s in stmts:
                if isinstance(s, ast.Expr) and isinstance(s.value, ast.Constant):
                    continue
                if isinstance(s, ast.If):
                    run(s.body if _value(s.test, env) else s.orelse)
                elif isinstance(s, ast.Try):
                    if env.get('$raises') and s.handlers:
                        run(s.handlers[0].body)
                    else:
                        run(list(s.body) + list(s.orelse))
                    run(s.finalbody)
                elif isinstance(s, ast.Return):
                    raise Out(render(s.value))
                elif isinstance(s, ast.Raise):
                    raise Out('raise')
                elif isinstance(s, ast.Assign) and len(s.targets) == 1 and isinstance(s.targets[0], ast.Name) and \
                        isinstance(s.value, ast.Dict) and all(isinstance(k, ast.Constant) for k in s.value.keys):
                    dicts[s.targets[0].id] = {k.value: render(v) for k, v in zip(s.value.keys, s.value.values)}
                elif isinstance(s, ast.Assign) and len(s.targets) == 1 and isinstance(s.targets[0], ast.Subscript) and \
                        isinstance(s.targets[0].value, ast.Name) and s.targets[0].value.id in dicts and isinstance(s.targets[0].slice, ast.Constant):
                    dicts[s.targets[0].value.id][s.targets[0].slice.value] = render(s.value)
                elif isinstance(s, ast.Assign) and len(s.targets) == 1 and isinstance(s.targets[0], ast.Name) and s.targets[0].id in bl:
                    try:
                        env['$' + s.targets[0].id] = bool(_value(s.value, env))
                    except KeyError:
                        pass
        bl = _bool_locals(fn)
        try:
            run(fn.body)
        except Out as o:
            return o.args[0]
        return 'None'
    for vals in itertools.product((False, True), repeat=len(atoms)):
        env = dict(zip(atoms, vals))
        x, y = outcome(fa, dict(env)), outcome(fb, dict(env))
        if x != y:
            return False, f'with {[a for a, v in env.items() if v]} true: {x} vs {y}'
    return True, ''
