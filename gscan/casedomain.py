"""Finite case analysis of a small builder function.

A function that fills a dict depending on string tests on ONE subject expression (`x == 'a'`, `x != 'b'`, `x in ('a', 'b')`,
combined with and / or / not) is interpreted once per case of the subject: every constant it is compared with, plus one
representative of "anything else". The result is, per case, the table key -> value text of the stores into the returned dict
(`d = {...}` literal entries and `d[k] = v` stores, in execution order, until the return). Two functions, or a function and a
specification, are compared on these tables: arm order, guard clauses, merged or split branches and hoisted tests do not matter.
"""
import ast

from .model import CannotAnalyse

OTHER = '<other>'


def _cond(e, subject, case):
    if isinstance(e, ast.BoolOp):
        vals = [_cond(v, subject, case) for v in e.values]
        return all(vals) if isinstance(e.op, ast.And) else any(vals)
    if isinstance(e, ast.UnaryOp) and isinstance(e.op, ast.Not):
        return not _cond(e.operand, subject, case)
    if isinstance(e, ast.Compare) and len(e.ops) == 1:
        le, ri, op = e.left, e.comparators[0], e.ops[0]
        if ast.unparse(ri) == subject and isinstance(le, ast.Constant) and isinstance(op, (ast.Eq, ast.NotEq)):
            le, ri = ri, le
        if ast.unparse(le) == subject:
            if isinstance(ri, ast.Constant) and isinstance(op, (ast.Eq, ast.NotEq)):
                r = case == ri.value
                return r if isinstance(op, ast.Eq) else not r
            if isinstance(ri, (ast.Tuple, ast.List, ast.Set)) and all(isinstance(x, ast.Constant) for x in ri.elts) and \
                    isinstance(op, (ast.In, ast.NotIn)):
                r = case in [x.value for x in ri.elts]
                return r if isinstance(op, ast.In) else not r
    if ast.unparse(e) == subject:
        return bool(case) if case != OTHER else True
    raise CannotAnalyse(f'case analysis: test {ast.unparse(e)[:60]} is not a test on {subject}')


def constants_tested(fnode, subject):
    out = []
    for n in ast.walk(fnode):
        if isinstance(n, ast.Compare) and len(n.ops) == 1:
            sides = [n.left, n.comparators[0]]
            if any(ast.unparse(x) == subject for x in sides):
                for x in sides:
                    if isinstance(x, ast.Constant) and x.value not in out:
                        out.append(x.value)
                    elif isinstance(x, (ast.Tuple, ast.List, ast.Set)):
                        out += [y.value for y in x.elts if isinstance(y, ast.Constant) and y.value not in out]
    return out


def tables(fnode, subject, cases=None):
    """{case: {key: value text}} of the dict the function returns; fnode should have its locals written out (through_locals)"""
    rets = [n for n in ast.walk(fnode) if isinstance(n, ast.Return)]
    names = {n.value.id for n in rets if isinstance(n.value, ast.Name)}
    if len(names) != 1 or any(not isinstance(n.value, ast.Name) for n in rets):
        raise CannotAnalyse('case analysis: the function does not return one named dict')
    d = names.pop()
    cases = list(cases) if cases is not None else constants_tested(fnode, subject) + [OTHER]

    class Done(Exception):
        pass

    def run(stmts, case, tab):
        for s in stmts:
            if isinstance(s, ast.Expr) and isinstance(s.value, ast.Constant):
                continue
            if isinstance(s, ast.If):
                run(s.body if _cond(s.test, subject, case) else s.orelse, case, tab)
            elif isinstance(s, ast.Return):
                raise Done()
            elif isinstance(s, ast.Assign) and len(s.targets) == 1:
                t = s.targets[0]
                if isinstance(t, ast.Name) and t.id == d:
                    if not isinstance(s.value, ast.Dict) or any(not isinstance(k, ast.Constant) for k in s.value.keys):
                        raise CannotAnalyse('case analysis: the returned dict is not a literal with constant keys')
                    tab.clear()
                    tab.update({k.value: ast.unparse(v) for k, v in zip(s.value.keys, s.value.values)})
                elif isinstance(t, ast.Subscript) and isinstance(t.value, ast.Name) and t.value.id == d and isinstance(t.slice, ast.Constant):
                    tab[t.slice.value] = ast.unparse(s.value)
                elif isinstance(t, ast.Name):
                    if any(isinstance(x, ast.Name) and x.id == d for x in ast.walk(s.value)):
                        raise CannotAnalyse('case analysis: the dict escapes into a local')
                else:
                    raise CannotAnalyse(f'case analysis: store {ast.unparse(t)[:40]}')
            elif isinstance(s, ast.Pass):
                continue
            else:
                raise CannotAnalyse(f'case analysis: statement {type(s).__name__}')
    out = {}
    for c in cases:
        tab = {}
        try:
            run(fnode.body, c, tab)
        except Done:
            pass
        out[c] = tab
    return out
