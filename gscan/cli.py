"""vcheck command line: one property per run (DESIGN 3.1)."""
import sys
import os
import json
import importlib
import traceback
import argparse

from .model import Repo, AnchorMissing, CannotAnalyse
from .report import Ctx, VERIF


def run_rule(ctx, name, fn, *a):
    """run one rule; an engine exception is an analysis error of that rule, never a pass or a violation"""
    try:
        fn(ctx, *a)
    except AnchorMissing as e:
        ctx.cannot(name, '-', f'anchor missing: {e}')
    except CannotAnalyse as e:
        ctx.cannot(name, '-', f'cannot analyse: {e}')
    except Exception as e:   # engine bug or unforeseen construct
        tb = traceback.extract_tb(e.__traceback__)[-1]
        ctx.cannot(name, '-', f'engine exception {type(e).__name__}: {e} at {os.path.basename(tb.filename)}:{tb.lineno}')


def check(pid, tier, root, seed):
    mod = importlib.import_module(f'gscan.rules.{pid.lower()}')
    try:
        repo = Repo(root)
    except (AnchorMissing, SyntaxError) as e:
        print(f'ANALYSIS-ERROR property={pid} cannot build the program model: {e}')
        return 2
    ctx = Ctx(pid, tier, repo, seed, getattr(mod, 'LEVEL', 'other'))
    for name, fn in mod.RULES:
        run_rule(ctx, name, fn)
    if tier == 'thorough' and hasattr(mod, 'THOROUGH'):
        for name, fn in mod.THOROUGH:
            run_rule(ctx, name, fn)
    proof = mod.proof_keys(ctx) if hasattr(mod, 'proof_keys') else None
    if tier == 'thorough' and os.environ.get('GSCAN_NO_SELFTEST') != '1':
        try:
            from . import selftest
            ctx.extra['selftest'] = selftest.run(pid, root, seed)
        except Exception as e:
            ctx.extra['selftest'] = {'error': f'{type(e).__name__}: {e}'}
    # the module docstring is the authoritative rule list: append the rules the hand-written explanation does not name yet
    doc = (mod.__doc__ or '').splitlines()
    extra = []
    for name, fn in mod.RULES:
        short = name.split('.')[0]
        if short not in mod.EXPLANATION and fn.__doc__:
            extra.append(f"({name}) " + ' '.join(fn.__doc__.split()))
    expl = mod.EXPLANATION + ((' Further rules evaluated: ' + ' '.join(extra)) if extra else '') + \
        ' All rules run on the canonicalised program model (gscan/canon.py, gscan/inline.py: negation normal form and polarity, guard clauses vs nesting, loops vs comprehensions, conditional expressions vs statements, helpers extracted from the reference functions inlined, temporaries written out where provably behaviour-preserving, keyword/positional calls).'
    code, lines, summary = ctx.finish(expl, mod.ASSUMPTIONS, mod.RULE_TEXT, proof)
    for ln in lines:
        print(ln)
    print(summary)
    return code


def main(argv=None):
    ap = argparse.ArgumentParser(prog='vcheck')
    ap.add_argument('prop')
    ap.add_argument('path', nargs='?')
    ap.add_argument('--tier', default=os.environ.get('VERIF_TIER', 'quick'), choices=['quick', 'thorough'])
    args = ap.parse_args(argv)
    root = os.environ.get('GSCAN_REPO', '/repo')
    try:
        seed = int(os.environ.get('VERIF_SEED', '0'))
    except ValueError:
        seed = 0
    if args.prop == 'replay':
        with open(args.path) as fh:
            r = json.load(fh)
        print(f"replaying {r['property']} rule {r['rule']} (recorded construct: {r['site']}: {r['what']})")
        os.environ['GSCAN_NO_SELFTEST'] = '1'
        return check(r['property'], 'quick', root, seed)
    if args.prop == 'all':
        worst = 0
        for i in range(1, 21):
            pid = f'C{i:02d}'
            if os.path.exists(os.path.join(VERIF, 'gscan', 'rules', f'{pid.lower()}.py')):
                worst = max(worst, check(pid, args.tier, root, seed))
        return worst
    return check(args.prop.upper(), args.tier, root, seed)


if __name__ == '__main__':
    try:
        sys.exit(main())
    except SystemExit:
        raise
    except Exception:
        traceback.print_exc()
        print('ANALYSIS-ERROR engine crashed')
        sys.exit(2)
