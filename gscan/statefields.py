"""Per-class persistent-state hazards: attributes of `self` that the __call__ closure of an element both writes and
reads before writing (upward-exposed reads): such a field carries information from one propagation into the next."""
import ast

from .cfg import CFG
from .model import walk_no_nested
from .effects import MUTATING_METHODS


def self_closure(repo, cls, entry='__call__'):
    """methods of cls (through its MRO) reachable from entry via self.m() / super().m() calls and property reads"""
    start = repo.method(cls, entry, required=False)
    if start is None:
        return []
    seen, work = {}, [start]
    while work:
        f = work.pop()
        if f.qual in seen:
            continue
        seen[f.qual] = f
        for n in walk_no_nested(f.node):
            if isinstance(n, ast.Call) and isinstance(n.func, ast.Attribute):
                v = n.func.value
                if (isinstance(v, ast.Name) and v.id == 'self') or (
                        isinstance(v, ast.Call) and isinstance(v.func, ast.Name) and v.func.id == 'super'):
                    m = repo.method(cls, n.func.attr, required=False)
                    if m is not None:
                        work.append(m)
            elif isinstance(n, ast.Attribute) and isinstance(n.value, ast.Name) and n.value.id == 'self':
                g = repo.method(cls, n.attr, 'getter', required=False)
                if g is not None:
                    work.append(g)
    return list(seen.values())


def self_attr(e):
    """X if e is self.X (possibly under subscripts / further attributes: self.X[..], self.X.y)"""
    while isinstance(e, (ast.Subscript, ast.Attribute)):
        if isinstance(e, ast.Attribute) and isinstance(e.value, ast.Name) and e.value.id == 'self':
            return e.attr
        e = e.value
    return None


def node_rw(code):
    """(reads, kills, weak writes) of self attributes in one CFG node's code"""
    reads, kills, weak = set(), set(), set()
    if code is None:
        return reads, kills, weak
    items = [code] + list(walk_no_nested(code))
    for n in items:
        if isinstance(n, ast.Attribute) and isinstance(n.value, ast.Name) and n.value.id == 'self':
            if isinstance(n.ctx, ast.Store):
                kills.add(n.attr)
            elif isinstance(n.ctx, ast.Del):
                weak.add(n.attr)
            else:
                reads.add(n.attr)
        if isinstance(n, ast.AugAssign):
            a = self_attr(n.target)
            if a:
                reads.add(a)
                if isinstance(n.target, ast.Attribute) and isinstance(n.target.value, ast.Name):
                    kills.add(a)
                else:
                    weak.add(a)
        if isinstance(n, ast.Subscript) and isinstance(n.ctx, (ast.Store, ast.Del)):
            a = self_attr(n.value)
            if a:
                weak.add(a)
        if isinstance(n, ast.Call) and isinstance(n.func, ast.Attribute) and n.func.attr in MUTATING_METHODS:
            a = self_attr(n.func.value)
            if a:
                weak.add(a)
        if isinstance(n, ast.Call) and isinstance(n.func, ast.Name) and n.func.id == 'setattr' and n.args and \
                isinstance(n.args[0], ast.Name) and n.args[0].id == 'self' and len(n.args) > 1 and \
                isinstance(n.args[1], ast.Constant):
            kills.add(n.args[1].value)
    # an augmented assignment target is parsed with Store ctx: it still reads
    return reads, kills, weak


def self_calls(repo, cls, code):
    """repo methods / property getters of cls invoked on self inside one CFG node's code"""
    out = []
    if code is None:
        return out
    for n in [code] + list(walk_no_nested(code)):
        if isinstance(n, ast.Call) and isinstance(n.func, ast.Attribute):
            v = n.func.value
            if (isinstance(v, ast.Name) and v.id == 'self') or (
                    isinstance(v, ast.Call) and isinstance(v.func, ast.Name) and v.func.id == 'super'):
                m = repo.method(cls, n.func.attr, required=False)
                if m is not None:
                    out.append(m)
        elif isinstance(n, ast.Attribute) and isinstance(n.value, ast.Name) and n.value.id == 'self' and \
                isinstance(n.ctx, ast.Load):
            g = repo.method(cls, n.attr, 'getter', required=False)
            if g is not None:
                out.append(g)
    return out


def summarise(repo, cls, f, memo, stack=()):
    """(exposed reads {attr: [where]}, must-writes set, may-writes {attr: [where]}) of f incl. its self-callees"""
    if f.qual in memo:
        return memo[f.qual]
    if f.qual in stack:
        return ({}, set(), {})
    g = CFG(f.node)
    info, callees = {}, {}
    for n in g.nodes:
        code = n.code() if n.kind not in ('entry', 'exit', 'raise', 'handler', 'try', 'finally_exc') else None
        r, k, w = node_rw(code)
        cs = [summarise(repo, cls, m, memo, stack + (f.qual,)) for m in self_calls(repo, cls, code)]
        k = set(k)
        for ce, cm, cw in cs:
            k |= cm
        info[n.id] = (r, k, w)
        callees[n.id] = cs
    IN = {n.id: None for n in g.nodes}
    changed = True
    while changed:
        changed = False
        for n in g.nodes:
            nid = n.id
            if nid == g.entry.id:
                cur = set()
            else:
                preds = [p for p in g.pred[nid] if IN[p] is not None]
                if not preds:
                    continue
                cur = set.intersection(*[IN[p] | info[p][1] for p in preds])
            if IN[nid] is None or cur != IN[nid]:
                IN[nid] = cur
                changed = True
    exposed, may = {}, {}
    for n in g.nodes:
        if IN[n.id] is None:
            continue
        r, k, w = info[n.id]
        here = f'{f.file}:{n.lineno} {f.name}'
        own_r, own_k, own_w = node_rw(n.code() if n.kind not in ('entry', 'exit', 'raise', 'handler', 'try', 'finally_exc') else None)
        for a in own_r:
            if a not in IN[n.id]:
                exposed.setdefault(a, []).append(here)
        for a in own_k | own_w:
            may.setdefault(a, []).append(here)
        for ce, cm, cw in callees[n.id]:
            for a, where in ce.items():
                if a not in IN[n.id]:
                    exposed.setdefault(a, []).extend(where)
            for a, where in cw.items():
                may.setdefault(a, []).extend(where)
    must = set(IN[g.exit.id] or set()) if IN[g.exit.id] is not None else set()
    res = (exposed, must, may)
    memo[f.qual] = res
    return res


def exposed_and_written(repo, cls, entry='__call__'):
    """{attr: (where read before being written, where written)} for the closure of cls.entry: state that one
    propagation leaves behind and the next one reads"""
    start = repo.method(cls, entry, required=False)
    if start is None:
        return {}
    exposed, must, may = summarise(repo, cls, start, {})
    return {a: (sorted(set(exposed[a])), sorted(set(may[a]))) for a in exposed if a in may}
