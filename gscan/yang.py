"""Minimal YANG statement parser (keyword, argument, block) and leaf precision extraction (DESIGN 2.7)."""
import glob
import os

from .model import AnchorMissing

INT_SMALL = {'int8', 'int16', 'int32', 'uint8', 'uint16', 'uint32'}
OPAQUE = {'int64', 'uint64', 'string', 'boolean', 'enumeration', 'identityref', 'leafref', 'empty', 'bits', 'binary',
          'instance-identifier'}


def tokenize(s):
    toks, i, n = [], 0, len(s)
    while i < n:
        c = s[i]
        if c.isspace():
            i += 1
            continue
        if s.startswith('//', i):
            j = s.find('\n', i)
            i = n if j < 0 else j
            continue
        if s.startswith('/*', i):
            i = s.index('*/', i) + 2
            continue
        if c in '{};':
            toks.append(c)
            i += 1
            continue
        if c in '"\'':
            q, j, buf = c, i + 1, []
            while s[j] != q:
                if s[j] == '\\' and q == '"':
                    buf.append(s[j + 1])
                    j += 2
                else:
                    buf.append(s[j])
                    j += 1
            toks.append(('S', ''.join(buf)))
            i = j + 1
            continue
        j = i
        while j < n and not s[j].isspace() and s[j] not in '{};':
            j += 1
        toks.append(s[i:j])
        i = j
    out, k = [], 0
    while k < len(toks):
        t = toks[k]
        if t == '+' and out and isinstance(out[-1], tuple) and k + 1 < len(toks) and isinstance(toks[k + 1], tuple):
            out[-1] = ('S', out[-1][1] + toks[k + 1][1])
            k += 2
            continue
        out.append(t)
        k += 1
    return out


def parse(toks, i=0):
    stmts = []
    while i < len(toks) and toks[i] != '}':
        kw = toks[i]
        i += 1
        arg = None
        if toks[i] not in ('{', ';'):
            arg = toks[i]
            arg = arg[1] if isinstance(arg, tuple) else arg
            i += 1
        if toks[i] == ';':
            stmts.append((kw, arg, []))
            i += 1
        else:
            sub, i = parse(toks, i + 1)
            stmts.append((kw, arg, sub))
            i += 1
    return stmts, i


class YangModels:
    def __init__(self, root):
        files = sorted(glob.glob(os.path.join(root, 'gnpy', 'yang', 'gnpy-*.yang')))
        ext = sorted(glob.glob(os.path.join(root, 'gnpy', 'yang', 'ext', '*.yang')))
        if not files:
            raise AnchorMissing('gnpy/yang/gnpy-*.yang')
        self.files = files
        self.mods = {}
        for f in files + ext:
            with open(f, encoding='utf-8') as fh:
                st, _ = parse(tokenize(fh.read()))
            self.mods[f] = st
        self.typedefs = {}
        for m in self.mods.values():
            self._walk(m, self._collect_td)
        self.leaves = {}       # leaf name -> list of (file, precision set, path)
        self.nodes = set()     # every data-node name (leaf, leaf-list, container, list, choice/case)
        for f in files:
            self._walk(self.mods[f], lambda kw, arg, sub, path, f=f: self._collect_leaf(kw, arg, sub, path, f))

    def _walk(self, stmts, fn, path=()):
        for kw, arg, sub in stmts:
            fn(kw, arg, sub, path)
            self._walk(sub, fn, path + ((kw, arg),))

    def _collect_td(self, kw, arg, sub, path):
        if kw == 'typedef':
            self.typedefs[arg] = sub

    def type_prec(self, sub, depth=0):
        res = set()
        for kw, arg, s in sub:
            if kw != 'type':
                continue
            base = arg.split(':')[-1]
            if base == 'decimal64':
                fd = [a for k, a, _ in s if k == 'fraction-digits']
                res.add(int(fd[0]) if fd else None)
            elif base in INT_SMALL:
                res.add(0)
            elif base in OPAQUE:
                res.add(-1)
            elif base == 'union':
                res |= self.type_prec(s, depth + 1)
            elif base in self.typedefs and depth < 8:
                res |= self.type_prec(self.typedefs[base], depth + 1)
            else:
                res.add(None)
        return res

    def _collect_leaf(self, kw, arg, sub, path, f):
        if kw in ('leaf', 'leaf-list', 'container', 'list', 'choice', 'case', 'anydata'):
            self.nodes.add(arg)
        if kw in ('leaf', 'leaf-list'):
            self.leaves.setdefault(arg, []).append((os.path.basename(f), self.type_prec(sub), path))
