"""Small abstract domains (DESIGN 2.6): sign and homogeneity degree over Rat normal forms."""
from fractions import Fraction

from .poly import Rat, REG, C, subst

POS, NONNEG, NEG, NONPOS, ZERO, UNK = '+', '0+', '-', '0-', '0', '?'


def _mul(a, b):
    if ZERO in (a, b):
        return ZERO
    if UNK in (a, b):
        return UNK
    neg = (a in (NEG, NONPOS)) != (b in (NEG, NONPOS))
    strict = a in (POS, NEG) and b in (POS, NEG)
    if neg:
        return NEG if strict else NONPOS
    return POS if strict else NONNEG


def _add(a, b):
    if a == ZERO:
        return b
    if b == ZERO:
        return a
    if UNK in (a, b):
        return UNK
    pa, pb = a in (POS, NONNEG), b in (POS, NONNEG)
    if pa and pb:
        return POS if POS in (a, b) else NONNEG
    if not pa and not pb:
        return NEG if NEG in (a, b) else NONPOS
    return UNK


def _pow(s, e):
    if e == 0:
        return POS
    if e % 2 == 0:
        return POS if s in (POS, NEG) else (ZERO if s == ZERO else NONNEG)
    if e < 0:
        return s        # reciprocal keeps the sign (value assumed non-zero where divided)
    return s


def atom_sign(a, positive):
    """sign of one atom; positive(atom) -> True if the rule declares it strictly positive"""
    if positive(a):
        return POS
    if a.kind == 'fn':
        if a.name in ('abs', 'sqrt'):
            inner = sign(a.args[0], positive) if isinstance(a.args[0], Rat) else UNK
            return POS if inner in (POS, NEG) else NONNEG
        if a.name in ('exp10', 'exp', 'cosh'):
            return POS
        if a.name == 'cut' and isinstance(a.args[0], Rat):
            return sign(a.args[0], positive)
        if a.name in ('asinh', 'sinh', 'tanh', 'atan') and isinstance(a.args[0], Rat):
            return sign(a.args[0], positive)      # odd, monotone, f(0)=0
        if a.name in ('sum', 'mean', 'max', 'min') and a.args and isinstance(a.args[0], Rat):
            return sign(a.args[0], positive)
    return UNK


def poly_sign(p, positive):
    tot = ZERO
    for k, c in p.t.items():
        s = POS if c > 0 else NEG
        for a, e in k:
            s = _mul(s, _pow(atom_sign(REG[a], positive), e))
        tot = _add(tot, s)
        if tot == UNK:
            return UNK
    return tot


def sign(v, positive):
    n, d = poly_sign(v.n, positive), poly_sign(v.d, positive)
    if d in (ZERO,):
        return UNK
    return _mul(n, d if d in (POS, NEG) else (NONNEG if d == NONNEG else (NONPOS if d == NONPOS else UNK)))


def is_nonneg(v, positive):
    return sign(v, positive) in (POS, NONNEG, ZERO)


def degree_in(v, is_var):
    """homogeneity degree of v in the atoms selected by is_var, or None if not homogeneous"""
    t = Rat.sym('t#scalar')
    scaled = subst(v, lambda a: (Rat.of(a) * t) if is_var(a) else None)
    for k in range(-6, 7):
        if scaled.eq(v * t.pow(k)):
            return k
    return None
