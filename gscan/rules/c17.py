"""C17 - designing is repeatable: export, reload and redesign changes nothing; design leaves SimParams untouched.

 R1 bracket      : every SimParams.set_params reachable from design is bracketed: the saved value (both parameter
                   groups, taken before the override) is restored on EVERY exit of the function, exceptional ones
                   included (flow graph with an exceptional edge out of every call).
 R2 completeness : RamanParams.to_json / NLIParams.to_json export exactly their constructor parameters (what is saved is
                   what can be restored).
 R3 fix-points   : a field that an element exports and that design increments in place must be guarded by a test that
                   makes the increment a fix-point (otherwise export -> reload -> redesign drifts).
 R5 hand-off     : the operating point handed from one amplifier to the next and stored on it does not depend on whether a
                   value was optimised in this run or read back from an export (shares C09-R3/R4).
 R4 key agreement: every key an element's to_json emits under params / operational is a key its parameter class reads.
 Rp presence      : optional numeric fields are tested with `is None` / membership, never by truthiness (0 is a value).
 R6 padding cache : the cached design span loss is raised by the att_in of the fibre that was padded (and initialised from span_loss).
 Rx export keys   : each loaded parameter is exported under the key its loader reads it from.
 R7 design inputs : budget formulas and edge weights of the auto-design (shared with C09-R1, C08-R2).
 Rz sentinel      : fields defaulted when None are None when absent from the input (loader .get without another default).
 R8 export guards : an optional export entry is conditioned only on the value it exports.
 R9 library / raw export: design functions do not write the equipment library; to_json exports loaded values, not derived state.
 R10 asdict keys    : FiberParams.asdict exports under a key the attribute loaded from that key; amplifier field/key agreement (shared with C04).
"""
import ast

from ..model import AnchorMissing, CannotAnalyse, walk_no_nested, Func
from ..cfg import CFG, fmt_path
from ..dataflow import local_defs, names_in, derives
from ..effects import reachable
from .common import calls_to, site, key, stmt_of, enclosing, kwarg
from .c18 import read_keys

NW = 'gnpy.core.network'
EL = 'gnpy.core.elements'
PA = 'gnpy.core.parameters'
EXPLANATION = (
    "Pairing/typestate on the flow graph of every design-time caller of SimParams.set_params (with exceptional "
    "edges): the override is preceded by a save of both parameter groups and followed by a restore on every exit; "
    "to_json/constructor parameter agreement of the two settings classes; every in-place increment of an exported "
    "element field in the design code is checked for a guard that makes it a fix-point (the end-of-life margin added "
    "to con_out is not: known finding); key agreement between each element's export and its parameter class. Not "
    "decided: equality up to rounding of whole networks."
)
ASSUMPTIONS = ["an exception can leave any statement that contains a call",
               "a key is read by a parameter class when it appears in a reading position in its body"]
RULE_TEXT = ("sites: each set_params call reachable from design; the two settings classes; each in-place increment of an "
             "exported params field in gnpy/core/network.py; each exported key of the five element kinds")


def design_roots(repo):
    out = []
    for n in ('build_network', 'design_network', 'add_missing_elements_in_network'):
        out.append(repo.func(NW, n))
    return out


def r1_bracket(ctx):
    repo = ctx.repo
    sp = repo.method(repo.cls('SimParams', PA), 'set_params')
    reach = reachable(repo, design_roots(repo), by_name_fallback=False)
    callers = []
    for f in repo.all_funcs():
        cs = [c for c in calls_to(f, {'set_params'}) if repo.resolve_call(f, c) is sp]
        if cs:
            callers.append((f, cs))
    in_design = [(f, cs) for f, cs in callers if f.qual in reach]
    ctx.extra['set_params_callers'] = [f.qual for f, _ in callers]
    if not in_design:
        ctx.ok('R1.bracket', 'design closure', 'design never calls SimParams.set_params')
    for f, cs in in_design:
        g = CFG(f.node, exc_edges=True)
        defs = local_defs(f.node)
        saves, overrides, restores = [], [], []
        for c in cs:
            a = c.args[0] if c.args else None
            src = derives(f.node, a, stop=f.params) if a is not None else set()
            # a restore hands back something derived from the shared settings
            chain = ' '.join(ast.unparse(v) for nm in names_in(a) for _, v in defs.get(nm, []) if isinstance(v, ast.AST))
            if '_shared_dict' in chain or 'SimParams' in src:
                restores.append(c)
            else:
                overrides.append(c)
        st0 = site(f)
        if not overrides:
            continue
        ctx.check('R1.bracket', f'{st0} restore exists', bool(restores), key(f, 'no-restore'),
                  f'{f.name} overrides the process-wide simulation parameters and never restores them')
        for ov in overrides:
            on = g.node_of(stmt_of(f, ov))
            rids = {n.id for r in restores for n in g.nodes_of(stmt_of(f, r))}
            for target, label in ((g.exit, 'normal exit'), (g.raise_exit, 'exceptional exit')):
                p = None
                # start after the override statement itself (its own exceptional edge leaves before the override took place)
                for y in g.succ[on.id]:
                    if g.label.get((on.id, y)) == 'exc':
                        continue
                    if y in rids:
                        continue
                    p = g.path_avoiding(g.nodes[y], target, lambda n: n.id in rids, skip_labels=()) if y != target.id else [on, target]
                    if p:
                        p = [on] + p
                        break
                ctx.check('R1.bracket', f'{site(f, ov)} restored on {label}', p is None, key(f, f'unrestored|{label}'),
                          f'after {ast.unparse(ov)[:50]} the saved simulation parameters are not restored on some {label} '
                          '(an exception in the solver leaves the process-wide settings replaced)',
                          fmt_path(f, p) if p else '')
            # the save is taken before the override, from the shared settings, and covers both groups
            for r in restores:
                a = r.args[0]
                nm = a.id if isinstance(a, ast.Name) else None
                d = defs.get(nm, []) if nm else []
                ok = len(d) == 1 and isinstance(d[0][1], ast.Dict)
                keys = {k.value for k in d[0][1].keys if isinstance(k, ast.Constant)} if ok else set()
                ok = ok and keys == {'raman_params', 'nli_params'} and all('_shared_dict' in ast.unparse(v) and 'to_json' in ast.unparse(v)
                                                                          for v in d[0][1].values)
                ctx.check('R1.bracket', f'{site(f, r)} what is restored', ok, key(f, 'save-shape'),
                          'the value restored is not a snapshot of both shared parameter groups (raman_params and '
                          'nli_params: set_params resets both)', f'{nm} = {ast.unparse(d[0][1])[:160] if d else None}')
                if ok:
                    sn = g.node_of(d[0][0])
                    ctx.check('R1.bracket', f'{site(f, r)} saved before the override', g.dominates(sn, on), key(f, 'save-order'),
                              'the snapshot of the simulation parameters is not taken before they are overridden')
    ctx.need('R1.bracket', 5)


def r2_completeness(ctx):
    repo = ctx.repo
    for cn in ('RamanParams', 'NLIParams'):
        cls = repo.cls(cn, PA)
        init = repo.method(cls, '__init__')
        tj = repo.method(cls, 'to_json')
        params = {p for p in init.params if p != 'self'}
        ret = next((n for n in walk_no_nested(tj.node) if isinstance(n, ast.Return) and isinstance(n.value, ast.Dict)), None)
        if ret is None:
            raise CannotAnalyse(f'{cn}.to_json does not return a dict literal')
        keys = {k.value for k in ret.value.keys if isinstance(k, ast.Constant)}
        ctx.check('R2.completeness', site(tj), keys == params, key(tj, 'keys'),
                  f'{cn}.to_json exports {sorted(keys)} but the constructor takes {sorted(params)}: a saved setting cannot be '
                  'restored exactly')
        for k, v in zip(ret.value.keys, ret.value.values):
            ok = isinstance(v, ast.Attribute) and isinstance(v.value, ast.Name) and v.value.id == 'self' and v.attr == k.value
            ctx.check('R2.completeness', f'{site(tj)} {k.value}', ok, key(tj, f'value|{k.value}'),
                      f'{cn}.to_json[{k.value!r}] is not self.{k.value}', ast.unparse(v))
    # set_params rebuilds both groups from the dict it is given
    sp = repo.method(repo.cls('SimParams', PA), 'set_params')
    txt = ast.unparse(sp.node)
    ok = "NLIParams(**sim_params.get('nli_params', {}))" in txt and "RamanParams(**sim_params.get('raman_params', {}))" in txt
    ctx.check('R2.completeness', site(sp), ok, key(sp, 'rebuild'),
              'SimParams.set_params does not rebuild both groups from the keys raman_params / nli_params')
    ctx.need('R2.completeness', 13)


def exported_keys(repo, func, section):
    """keys an element's to_json places under `section` ('params' / 'operational')"""
    keys = set()
    names = set()
    for n in ast.walk(func.node):
        if isinstance(n, ast.Dict):
            for k, v in zip(n.keys, n.values):
                if isinstance(k, ast.Constant) and k.value == section:
                    if isinstance(v, ast.Dict):
                        keys |= {x.value for x in v.keys if isinstance(x, ast.Constant)}
                        keys |= {f'<{ast.unparse(x)}>' for x in v.keys if not isinstance(x, ast.Constant) and x is not None}
                    elif isinstance(v, ast.Name):
                        names.add(v.id)
    for n in ast.walk(func.node):
        if isinstance(n, ast.Assign):
            t = n.targets[0]
            if isinstance(t, ast.Name) and t.id in names and isinstance(n.value, ast.Dict):
                keys |= {x.value for x in n.value.keys if isinstance(x, ast.Constant)}
            if isinstance(t, ast.Subscript) and isinstance(t.slice, ast.Constant):
                base = t.value
                if isinstance(base, ast.Name) and base.id in names:
                    keys.add(t.slice.value)
                if isinstance(base, ast.Subscript) and isinstance(base.slice, ast.Constant) and base.slice.value == section:
                    keys.add(t.slice.value)
    return keys


def r4_keys(ctx):
    repo = ctx.repo
    plan = [('Edfa', 'operational', 'EdfaOperational'), ('Multiband_amplifier', 'operational', 'EdfaOperational'),
            ('Fused', 'params', 'FusedParams'), ('Fiber', 'params', 'FiberParams'), ('Roadm', 'params', 'RoadmParams')]
    for el, section, pcls in plan:
        tj = repo.method(repo.cls(el, EL), 'to_json', 'getter')
        keys = exported_keys(repo, tj, section)
        if not keys:
            raise AnchorMissing(f'{el}.to_json exports nothing under {section!r}')
        pc = repo.cls(pcls, PA)
        ycu = repo.module('gnpy.tools.yang_convert_utils')
        consumed = read_keys(pc.node) | read_keys(ycu.tree)       # the loader converts first (load_gnpy_json)
        consumed |= {v.value for v in ycu.constants.values() if isinstance(v, ast.Constant) and isinstance(v.value, str)}
        for k in sorted(keys):
            if k.startswith('<'):
                # dynamic key (Roadm equalisation): its possible values are the policy keys, checked in C06-R4
                continue
            ctx.check('R4.keys', f'{site(tj)} {section}[{k!r}] -> {pcls}', k in consumed, f'{tj.qual}|{section}|{k}',
                      f'{el}.to_json exports {section}.{k} but {pcls} never reads that key: the exported value is lost on '
                      'reload and the redesign starts from a different state')
    # Edfa exports the designed operating point, not the input one
    tj = repo.method(repo.cls('Edfa', EL), 'to_json', 'getter')
    txt = ast.unparse(tj.node)
    for k, src in (('gain_target', 'self.effective_gain'), ('delta_p', 'self.delta_p'), ('out_voa', 'self.out_voa'),
                   ('in_voa', 'self.in_voa'), ('tilt_target', 'tilt_target')):
        d = next((n for n in ast.walk(tj.node) if isinstance(n, ast.Dict) and any(
            isinstance(x, ast.Constant) and x.value == k for x in n.keys)), None)
        v = d.values[[x.value if isinstance(x, ast.Constant) else None for x in d.keys].index(k)] if d is not None else None
        ok = v is not None and src in ast.unparse(v)
        ctx.check('R4.keys', f'{site(tj)} operational.{k} source', ok, f'{tj.qual}|source|{k}',
                  f'Edfa.to_json exports operational.{k} from {ast.unparse(v) if v is not None else None}, expected the '
                  f'designed value {src}')
    ctx.need('R4.keys', 20)


def r3_fixpoints(ctx):
    repo = ctx.repo
    fib_keys = exported_keys(repo, repo.method(repo.cls('Fiber', EL), 'to_json', 'getter'), 'params')
    reach = reachable(repo, design_roots(repo), by_name_fallback=False)
    n = 0
    for q, f in sorted(reach.items()):
        if f.module.name != NW:
            continue
        for node in walk_no_nested(f.node):
            tgt = val = None
            if isinstance(node, ast.AugAssign) and isinstance(node.op, (ast.Add, ast.Sub)):
                tgt, val = node.target, node.value
            elif isinstance(node, ast.Assign) and isinstance(node.targets[0], ast.Attribute) and \
                    ast.unparse(node.targets[0]) in ast.unparse(node.value) and isinstance(node.value, ast.BinOp):
                tgt, val = node.targets[0], node.value
            if not (isinstance(tgt, ast.Attribute) and isinstance(tgt.value, ast.Attribute) and tgt.value.attr == 'params'
                    and tgt.attr in fib_keys):
                continue
            n += 1
            obj = tgt.value.value
            objname = obj.id if isinstance(obj, ast.Name) else None
            # enclosing guards inside the function
            guards = []
            cur = getattr(node, '_parent', None)
            while cur is not None and cur is not f.node:
                if isinstance(cur, ast.If):
                    guards.append(cur.test)
                cur = getattr(cur, '_parent', None)
            fix = False
            # names the incremented object is computed from (first_fiber = find_first_node(network, fiber) -> fiber)
            origin = {objname} if objname else set()
            for _, v in local_defs(f.node).get(objname, []):
                if isinstance(v, ast.Call):
                    origin |= {a.id for a in v.args if isinstance(a, ast.Name)}
            origin -= {f.params[0]}
            for t in guards:
                roots = derives(f.node, t, stop=f.params)
                txt = ast.unparse(t)
                # the guard must look at the incremented field itself, or at a quantity computed from the element
                if tgt.attr in txt:
                    fix = True
                for nm in names_in(t):
                    for _, v in local_defs(f.node).get(nm, []):
                        if isinstance(v, ast.Call) and any(isinstance(a, ast.Name) and a.id in origin for a in v.args) \
                                and 'loss' in ast.unparse(v.func):
                            fix = True
            ctx.check('R3.fix-point', site(f, node), fix, f'{f.qual}|increment|{tgt.attr}',
                      f'{ast.unparse(node)[:70]}: the exported field {tgt.attr} is incremented in place at design time without a '
                      'guard that makes the increment a fix-point: export -> reload -> redesign adds it again',
                      f'guards: {[ast.unparse(t)[:60] for t in guards]}')
    ctx.need('R3.fix-point', 2, 'con_out += EOL, att_in padding')


def r5_handoff(ctx):
    """the operating point handed from one amplifier to the next must not depend on whether a value was optimised in
    this run or read back from an exported design (shared with C09-R3/R4): the returned (dp, voa), the stored gain and
    offsets are the documented ones"""
    from .c09 import r3_saturation, r4_voa
    from .c10 import r3_selection
    r3_saturation(ctx)
    r4_voa(ctx)
    r3_selection(ctx)       # the power reduction applied to dp / gain is the one of the model that was selected (and exported)


def r6_padding_cache(ctx):
    """the span loss cached at design time (design_span_loss, read back by span_loss on every later design) is raised by the
    padding that was put on the span: the att_in of the SAME fibre whose att_in was just padded"""
    from ..pattern import find
    repo = ctx.repo
    f = repo.func(NW, 'add_fiber_padding')
    pads = [(n, b) for n, b in find('V_x.params.att_in = E_v', f.node)]
    incs = [n for n in walk_no_nested(f.node) if isinstance(n, ast.AugAssign) and isinstance(n.op, ast.Add) and
            isinstance(n.target, ast.Attribute) and n.target.attr == 'design_span_loss']
    ok = len(pads) == 1 and len(incs) == 1
    if ok:
        x = pads[0][1]['V_x']
        blk = getattr(pads[0][0], '_parent', None)
        ok = ast.unparse(incs[0].value) == f'{x}.params.att_in' and getattr(incs[0], '_parent', None) is blk and incs[0].lineno > pads[0][0].lineno
    ctx.check('R6.padding-cache', site(f), ok, key(f, 'padding-cache'),
              'the cached design span loss is not raised by the att_in of the fibre that was padded (the first fibre of the span): on a span '
              'of several fused fibres the cache misses the padding, and a re-design of the exported network raises the closing gain')
    init = [n for n in walk_no_nested(f.node) if isinstance(n, ast.Assign) and isinstance(n.targets[0], ast.Attribute) and
            n.targets[0].attr == 'design_span_loss' and isinstance(n.value, ast.Name)]
    sl = {stmt_of(f, c).targets[0].id for c in calls_to(f, {'span_loss'}) if isinstance(stmt_of(f, c), ast.Assign)}
    ctx.check('R6.padding-cache', f'{site(f)} cache = computed span loss', len(init) == 1 and init[0].value.id in sl, key(f, 'cache-init'),
              'design_span_loss is not initialised with the span loss computed for that fibre')
    ctx.need('R6.padding-cache', 2)



WHY_EXPORT = 'export -> reload would move the value to another parameter'

def rx_export_keys(ctx):
    """Rx: an element exports each loaded parameter under the key its loader reads it from (to_json key -> attribute -> params
    class -> configuration key): a saved and reloaded network carries every table under its own policy / name"""
    from ..fieldkey import export_key_rule
    repo = ctx.repo
    P = 'gnpy.core.parameters'
    E = 'gnpy.core.elements'
    pairs = [(repo.cls('Roadm', E), [repo.cls('RoadmParams', P)]), (repo.cls('Fiber', E), [repo.cls('FiberParams', P)]),
             (repo.cls('Fused', E), [repo.cls('FusedParams', P)])]
    export_key_rule(ctx, 'Rx.export-keys', pairs, WHY_EXPORT)
    ctx.need('Rx.export-keys', 3)


def r7_design_inputs(ctx):
    """R7: what a re-design of the exported network computes from the exported values is what the first design computed: the
    gain / power budget formulas (C09-R1: in gain mode dp = prev_dp - loss - prev_voa + gain - in_voa) and the connection
    weights the auto-design writes (C08-R2: every new edge weighs its own source fibre)"""
    from .c09 import r1_budget
    from .c08 import edge_weight_rule
    r1_budget(ctx)
    edge_weight_rule(ctx, 'R7.edge-weight')


def rs_sentinel(ctx):
    """Rz: a field that the design fills with a configured default when it is None (connector losses ...) is None when the input does
    not give it: its loader uses .get('<field>') without another default"""
    from ..presence import sentinel_rule
    sentinel_rule(ctx, 'Rz.sentinel', 'the value would be exported and reloaded as an explicit 0')
    ctx.need('Rz.sentinel', 2)


def r8_export_guards(ctx):
    """R8: an optional entry of an element's export depends only on the value it exports: every `if` around a store
    `<dict>['<key>'] = <value>` in a to_json method tests that value (or a flag named after the key), never an unrelated field -
    otherwise the entry disappears from the export for some configurations and the reloaded design differs"""
    repo = ctx.repo
    n = 0
    m = repo.module('gnpy.core.elements')
    for cls in m.classes.values():
        tj = cls.getters.get('to_json') or cls.methods.get('to_json')
        if tj is None:
            continue
        for st in [x for x in ast.walk(tj.node) if isinstance(x, ast.Assign) and isinstance(x.targets[0], ast.Subscript) and
                   isinstance(x.targets[0].slice, ast.Constant) and isinstance(x.targets[0].slice.value, str)]:
            keyname = st.targets[0].slice.value
            val_attrs = {a.attr for a in ast.walk(st.value) if isinstance(a, ast.Attribute)} | \
                {a.id for a in ast.walk(st.value) if isinstance(a, ast.Name)}
            guards = []
            cur = getattr(st, '_parent', None)
            child = st
            while cur is not None and cur is not tj.node:
                if isinstance(cur, ast.If):
                    guards.append(cur)
                child, cur = cur, getattr(cur, '_parent', None)
            if not guards:
                continue
            n += 1
            stems = {keyname, keyname.replace('-', '_')}
            bad = []
            for g in guards:
                names = {a.attr for a in ast.walk(g.test) if isinstance(a, ast.Attribute)} | {a.id for a in ast.walk(g.test) if isinstance(a, ast.Name)}
                names -= {'self', 'params', 'len', 'isinstance', 'ndarray', 'float', 'int', 'size', 'operational'}
                related = any(nm in val_attrs or any(stem in nm or nm in stem for stem in stems) for nm in names)
                if names and not related:
                    bad.append(ast.unparse(g.test)[:50])
            ctx.check('R8.export-guards', f'{site(tj, st)} {cls.name}[{keyname}]', not bad, f'{tj.qual}|export-guard|{keyname}',
                      f"the export of '{keyname}' also depends on {bad}, which does not concern that value: for some configurations the entry "
                      'is missing from the export and the reloaded network is designed with a default instead')
    ctx.need('R8.export-guards', 4)


def r9_library_and_raw_export(ctx):
    """R9: (a) designing does not edit the equipment library it is given (effect summaries: no write through the `equipment`
    parameter of designed_network / design_network / build_network / add_missing_elements_in_network): a second design or a
    reload with the same library starts from the same data; (b) an element exports what it was LOADED with, not state its
    constructor derived from it by arithmetic (a derived value would be transformed again on reload)"""
    repo = ctx.repo
    from ..effects import effects_of
    for mod, fn in (('gnpy.tools.worker_utils', 'designed_network'), (NW, 'design_network'), (NW, 'build_network'),
                    (NW, 'add_missing_elements_in_network')):
        f = repo.func(mod, fn)
        if 'equipment' not in f.params:
            raise AnchorMissing(f'{fn}(.., equipment, ..)')
        w = effects_of(repo, f).param_writes.get(f.params.index('equipment')) or set()
        ctx.check('R9.library-untouched', site(f), not w, key(f, 'equipment-writes'),
                  f'{fn} writes {sorted(w)[:5]} into the equipment library it is given: a later design (or the re-design of the exported '
                  'network) with the same library object comes out different')
    m = repo.module(EL)
    n = 0
    for cls in m.classes.values():
        tj = cls.getters.get('to_json') or cls.methods.get('to_json')
        init = cls.methods.get('__init__')
        if tj is None or init is None:
            continue
        derived = {}
        for s in ast.walk(init.node):
            if isinstance(s, ast.Assign) and isinstance(s.targets[0], ast.Attribute) and isinstance(s.targets[0].value, ast.Name) and \
                    s.targets[0].value.id == 'self' and any(isinstance(x, ast.BinOp) and isinstance(x.op, (ast.Mult, ast.Div, ast.Add, ast.Sub))
                                                             for x in ast.walk(s.value)):
                derived[s.targets[0].attr] = s
        used = sorted({a.attr for a in ast.walk(tj.node) if isinstance(a, ast.Attribute) and isinstance(a.value, ast.Name) and
                       a.value.id == 'self' and a.attr in derived})
        n += 1
        ctx.check('R9.raw-export', f'{site(tj)} {cls.name}', not used, key(tj, 'derived-export'),
                  f'{cls.name}.to_json exports {used}, which __init__ computes from the loaded values by arithmetic '
                  f'({ast.unparse(derived[used[0]].value)[:60] if used else ""}): the reloaded element applies the same arithmetic again and drifts')
    ctx.need('R9.library-untouched', 4)
    ctx.need('R9.raw-export', 5)



def r10_asdict_keys(ctx):
    """R10: the spans that auto-design creates in memory (split_fiber builds them from fiber.params.asdict()) are the spans a reload
    of the saved design gives: (a) what FiberParams.asdict puts under a key of a nested dict is the attribute that the constructor
    filled from that same key; (b) the amplifier parameter classes store every configuration entry under its own name (rule shared
    with C04)"""
    repo = ctx.repo
    fp = repo.cls('FiberParams', 'gnpy.core.parameters')
    init, asd = fp.methods.get('__init__'), fp.methods.get('asdict')
    if init is None or asd is None:
        raise AnchorMissing('FiberParams.__init__ / asdict')
    loaded = {}
    for n in ast.walk(init.node):
        if isinstance(n, ast.Assign) and isinstance(n.targets[0], ast.Attribute) and isinstance(n.targets[0].value, ast.Name) and \
                n.targets[0].value.id == 'self':
            keys = {x.slice.value for x in ast.walk(n.value) if isinstance(x, ast.Subscript) and isinstance(x.slice, ast.Constant) and
                    isinstance(x.slice.value, str)}
            if keys:
                loaded.setdefault(n.targets[0].attr, set()).update(keys)
    k_ = 0
    for d in [x for x in ast.walk(asd.node) if isinstance(x, ast.Dict)]:
        for kk, v in zip(d.keys, d.values):
            if isinstance(kk, ast.Constant) and isinstance(v, ast.Attribute) and isinstance(v.value, ast.Name) and v.value.id == 'self' and \
                    v.attr in loaded:
                k_ += 1
                ctx.check('R10.asdict-keys', f'{site(asd, v)} {kk.value}', kk.value in loaded[v.attr], key(asd, f'asdict|{kk.value}'),
                          f"asdict exports self.{v.attr} under '{kk.value}', but the constructor fills it from {sorted(loaded[v.attr])}: a span "
                          'created in memory from these parameters differs from the span a reload of the saved design creates',
                          ast.unparse(v))
    from .c04 import rk_field_key as _rk
    from .common import proxy
    _rk(proxy(ctx, 'R10'))
    ctx.need('R10.asdict-keys', 1)


def r11_export_identity(ctx):
    """R11: a constant written out in place of a held value is numerically that value: wherever an element's to_json chooses between
    a numeric constant and `self.<field>` (the -0.0 -> 0 normalisation of Edfa.tilt_target), the constant is chosen only under
    `self.<field> == K` with K equal to it - under any wider test (>=, <=, !=, another field) the reloaded network differs
    from the exported one and the redesign starts from other settings"""
    repo = ctx.repo
    n_sites = 0
    for cls in repo.module(EL).classes.values():
        tj = cls.getters.get('to_json') or cls.methods.get('to_json')
        if tj is None:
            continue
        for e in ast.walk(tj.node):
            if isinstance(e, ast.IfExp):
                arms = [(e.body, e.orelse, True), (e.orelse, e.body, False)]
            elif isinstance(e, ast.If) and len(e.body) == 1 and len(e.orelse) == 1 and all(
                    isinstance(b, ast.Assign) and len(b.targets) == 1 for b in (e.body[0], e.orelse[0])) and \
                    ast.unparse(e.body[0].targets[0]) == ast.unparse(e.orelse[0].targets[0]):
                arms = [(e.body[0].value, e.orelse[0].value, True), (e.orelse[0].value, e.body[0].value, False)]
            else:
                continue
            for const, held, on_true in arms:
                if not (isinstance(const, ast.Constant) and isinstance(const.value, (int, float)) and not isinstance(const.value, bool)):
                    continue
                if not (isinstance(held, ast.Attribute) and isinstance(held.value, ast.Name) and held.value.id == 'self'):
                    continue
                n_sites += 1
                t = e.test
                want = ast.Eq if on_true else ast.NotEq
                sides = [t.left, t.comparators[0]] if isinstance(t, ast.Compare) and len(t.ops) == 1 else []
                ks = []
                for x in sides:
                    try:
                        ks.append(ast.literal_eval(x))
                    except Exception:
                        pass
                ok = bool(sides) and isinstance(t.ops[0], want) and any(ast.unparse(x) == ast.unparse(held) for x in sides) and \
                    len(ks) == 1 and isinstance(ks[0], (int, float)) and ks[0] == const.value
                ctx.check('R11.export-identity', f'{site(tj, e)} {ast.unparse(held)}', ok, key(tj, f'identity|{held.attr}'),
                          f'{cls.name}.to_json writes {const.value!r} in place of {ast.unparse(held)} whenever `{ast.unparse(t)}`, which is not '
                          f'"the held value equals {const.value!r}": a value set by the user or by the design is exported as another one, '
                          'so export -> reload -> redesign changes the network', ast.unparse(e)[:200])
    ctx.need('R11.export-identity', 1)


from ..presence import rule_for as _presence_rule

RULES_PRESENCE = ('Rp.presence', _presence_rule('C17', 'a value of exactly 0 would be exported as missing and re-designed on reload'))

RULES = [('R5.handoff', r5_handoff), ('R1.bracket', r1_bracket), ('R2.completeness', r2_completeness), ('R3.fix-point', r3_fixpoints), ('R4.keys', r4_keys), RULES_PRESENCE, ('R6.padding-cache', r6_padding_cache), ('Rx.export-keys', rx_export_keys), ('R7.design-inputs', r7_design_inputs), ('Rz.sentinel', rs_sentinel), ('R8.export-guards', r8_export_guards), ('R9.library-and-raw-export', r9_library_and_raw_export), ('R10.asdict-keys', r10_asdict_keys), ('R11.export-identity', r11_export_identity)]
