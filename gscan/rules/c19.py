"""C19 - the reported response states exactly what was computed for each request.

 R1 metric table : path_metric: each metric-type constant is paired with the right receiver attribute of the LAST element
                   of the path it is given, the right aggregate (mean / min / max) and round(., 2); penalties through
                   get_penalty_from_receiver(receiver, impairment); reference power and bandwidth from the request.
 R2 directions   : 'path-metric' from computed_path, 'z-a-path-metric' from reversed_computed_path, the latter exactly
                   when the request is bidirectional; route objects in both cases.
 R3 dispatch     : pathresult: a reason in BLOCKING_NOPATH -> no-path without properties; another reason -> no-path with
                   the candidate's properties; no reason -> path-properties; response-id is the request id; labels (N, M
                   from the request) exactly when there is no blocking reason; transponder type/mode from the request.
 R4 CSV          : every metric string the CSV reader looks up is written by path_metric; reader variables, metric
                   constants and CSV columns line up; the pass flag is  worst (else average) GSNR >= required OSNR
                   including margin; the no-path arm reports the reason in the pass column.
 R6 own objects  : every propagated path a result reads from is a per-request deep copy (shared with C16-R1).
 R5 aggregation  : aggregated requests: ids joined by ' | ', bandwidth summed, N and M concatenated, the absorbed
                   request removed; aggregation requires equal endpoints, transponder, mode and constraints.
 Rm memo          : every memoisation construct in the functions behind this property is keyed by everything it reads.
 Rp presence      : optional numeric fields are tested with `is None` / membership, never by truthiness (0 is a value).
 R7 carried       : the CSV writer carries no local from one response row to the next (must-definition dataflow).
 R8 same request  : compare_reqs compares the same attribute of both requests at every comparison.
 R9 first reason  : a blocking reason already set is never overwritten by a later check.
 R10 mode copy    : the selected mode is copied onto the request completely and identically in every copy block.
 Rn arg roles     : a variable named like a parameter of the callee is handed to that parameter (no exchanged roles).
 R11 penalties rebuilt: calc_penalties rebuilds the penalties on every call (shared with C13).
"""
import ast

from ..model import AnchorMissing, CannotAnalyse, walk_no_nested
from ..dataflow import names_in, local_defs
from .common import calls_to, site, key, stmt_of, enclosing, kwarg, module_list_literal

RQ = 'gnpy.topology.request'
EXPLANATION = (
    "Table agreement between what the planner computed and what the response/CSV report: the metric-type constants, "
    "receiver attributes, aggregates and rounding in path_metric; direction of the two metric blocks; the blocking-reason "
    "dispatch and the label/transponder objects; reader/writer agreement of the metric strings, variable/column "
    "alignment and the orientation of the pass flag in jsontocsv; the aggregation bookkeeping. Not decided: that the "
    "request object holds the selected mode (that is C13's flow)."
)
ASSUMPTIONS = ["metric-type constants are module-level string constants of gnpy.topology.request"]
RULE_TEXT = ("sites: the 11 metric entries, the two direction blocks, the three dispatch arms, the 10 reader look-ups, the CSV "
             "column tuples, the pass flag, the aggregation statements")

METRICS = {
    'SNR_BW_STRING': ('mean', 'snr'), 'SNR_01NM_STRING': ('mean', 'snr_01nm'), 'OSNR_BW_STRING': ('mean', 'osnr_ase'),
    'OSNR_01NM_STRING': ('mean', 'osnr_ase_01nm'), 'LOWER_SNR_STRING': ('min', 'snr_01nm'), 'UPPER_SNR_STRING': ('max', 'snr_01nm'),
    'PDL_PENALTY_STRING': ('penalty', 'pdl'), 'CD_PENALTY_STRING': ('penalty', 'chromatic_dispersion'),
    'PMD_PENALTY_STRING': ('penalty', 'pmd'), 'REF_POWER_STRING': ('req', 'power'), 'PATH_BW_STRING': ('req', 'path_bandwidth'),
}


def result_cls(repo):
    return repo.cls('ResultElement', RQ)


def r1_metrics(ctx):
    repo = ctx.repo
    pp = repo.method(result_cls(repo), 'path_properties', 'getter')
    pm = next((n for n in pp.node.body if isinstance(n, ast.FunctionDef) and n.name == 'path_metric'), None)
    if pm is None:
        raise AnchorMissing('ResultElement.path_properties.path_metric')
    pth, req = [a.arg for a in pm.args.args]
    ret = next((n for n in ast.walk(pm) if isinstance(n, ast.Return) and isinstance(n.value, ast.List)), None)
    if ret is None:
        raise CannotAnalyse('path_metric does not return a list literal')
    seen = set()
    for d in ret.value.elts:
        if not isinstance(d, ast.Dict):
            continue
        kv = {k.value: v for k, v in zip(d.keys, d.values) if isinstance(k, ast.Constant)}
        mt, val = kv.get('metric-type'), kv.get('accumulative-value')
        name = mt.id if isinstance(mt, ast.Name) else None
        st = f'{site(pp, d)} {name}'
        if name not in METRICS:
            ctx.bad('R1.metric-table', st, f'{pp.qual}|unknown-metric|{ast.unparse(mt) if mt is not None else None}',
                    f'metric-type {ast.unparse(mt) if mt is not None else None} is not one of the documented metrics')
            continue
        seen.add(name)
        kind, attr = METRICS[name]
        # the value, with hoisted sub-expressions (receiver = pth[-1]) written out
        from .common import through_locals
        txt = ast.unparse(through_locals(val, local_defs(pm), keep={pth, req})).replace(' ', '')
        if kind in ('mean', 'min', 'max'):
            want = f'round({kind}({pth}[-1].{attr}),2)'
        elif kind == 'penalty':
            want = f"get_penalty_from_receiver({pth}[-1],'{attr}')"
        else:
            want = f'{req}.{attr}'
        ctx.check('R1.metric-table', st, txt == want, f'{pp.qual}|metric|{name}',
                  f'{name} is reported as {ast.unparse(val)}; expected {want}: the figure would come from the wrong attribute, '
                  'aggregate, element or object')
    miss = sorted(set(METRICS) - seen)
    ctx.check('R1.metric-table', f'{site(pp)} all metrics', not miss, f'{pp.qual}|missing|{",".join(miss)}', f'metrics {miss} are no longer reported')
    gp = repo.func(RQ, 'get_penalty_from_receiver')
    from ..pattern import find as _pf
    R_, I_ = gp.params[0], gp.params[1]
    # the reported figure is the mean over ALL channels of the receiver's penalty (rounded); an infinite mean (any channel out of
    # range) is reported as "Infinity"; an impairment without table as 'not evaluated'
    vals = _pf(f'round(mean({R_}.penalties[{I_}]), 2)', gp.node)
    ok = len(vals) == 1
    if ok:
        st = stmt_of(gp, vals[0][0])
        pv = st.targets[0].id if isinstance(st, ast.Assign) and isinstance(st.targets[0], ast.Name) else None
        rets = [n for n in walk_no_nested(gp.node) if isinstance(n, ast.Return)]
        kinds = sorted(ast.unparse(r.value) for r in rets)
        inf_if = [n for n in walk_no_nested(gp.node) if isinstance(n, ast.If) and ast.unparse(n.test) in (f'isinf({pv})', f'math.isinf({pv})', f'{pv} == inf')]
        ok = pv is not None and kinds == sorted(["'Infinity'", "'not evaluated'", pv]) and len(inf_if) == 1 and \
            any(isinstance(x, ast.Return) and ast.unparse(x.value) == "'Infinity'" for x in inf_if[0].body)
        guard = [n for n in walk_no_nested(gp.node) if isinstance(n, ast.If) and ast.unparse(n.test) == f'{I_} in {R_}.penalties']
        ok = ok and len(guard) == 1
    ctx.check('R1.metric-table', site(gp), ok, key(gp, 'penalty'),
              'the reported penalty is not round(mean(all channels of the receiver penalty), 2) with "Infinity" for an infinite mean and '
              "'not evaluated' without a table: a blocked request could report a small finite penalty")
    ctx.need('R1.metric-table', 13)


def r2_directions(ctx):
    repo = ctx.repo
    pp = repo.method(result_cls(repo), 'path_properties', 'getter')
    # which key of the returned dict receives which value under which condition (dict literal in one piece, per arm, or filled
    # key by key: all read as (condition, key, value) events)
    from .common import holds_at, through_locals
    ok = False
    det = ''
    pdefs = local_defs(pp.node)
    rets = [n for n in pp.node.body if isinstance(n, ast.Return)]
    dn = rets[-1].value.id if rets and isinstance(rets[-1].value, ast.Name) else None
    events = {}
    BID = 'self.path_request.bidir'
    for n in walk_no_nested(pp.node):
        if not isinstance(n, ast.Assign) or dn is None:
            continue
        conds = set()
        for c in holds_at(n):
            try:
                conds.add(ast.unparse(through_locals(ast.parse(c, mode='eval').body, pdefs)))
            except SyntaxError:
                conds.add(c)
        pol = True if BID in conds else (False if f'not {BID}' in conds else None)
        if isinstance(n.targets[0], ast.Name) and n.targets[0].id == dn and isinstance(n.value, ast.Dict):
            for k, v in zip(n.value.keys, n.value.values):
                if isinstance(k, ast.Constant):
                    events.setdefault(k.value, []).append((pol, ast.unparse(v)))
        elif isinstance(n.targets[0], ast.Subscript) and isinstance(n.targets[0].value, ast.Name) and n.targets[0].value.id == dn and \
                isinstance(n.targets[0].slice, ast.Constant):
            events.setdefault(n.targets[0].slice.value, []).append((pol, ast.unparse(v := n.value)))
    det = str(events)

    def always(k, val):
        ev_ = events.get(k, [])
        return bool(ev_) and all(v == val for _, v in ev_) and sorted(str(p_) for p_, _ in ev_) in (['None'], ['False', 'True'])
    za = events.get('z-a-path-metric', [])
    ok = set(events) == {'path-metric', 'z-a-path-metric', 'path-route-objects'} and \
        always('path-metric', 'path_metric(self.computed_path, self.path_request)') and \
        always('path-route-objects', 'self.detailed_path_json') and \
        za == [(True, 'path_metric(self.reversed_computed_path, self.path_request)')]
    ctx.check('R2.directions', site(pp), ok, key(pp, 'directions'),
              "the forward metrics are not computed from computed_path and the 'z-a-path-metric' from reversed_computed_path exactly for "
              'bidirectional requests', det[:300])
    init = repo.method(result_cls(repo), '__init__')
    txt = ast.unparse(init.node)
    ok = 'self.computed_path = computed_path' in txt and 'self.reversed_computed_path = reversed_computed_path' in txt and \
        'self.path_id = path_request.request_id' in txt and 'self.path_request = path_request' in txt
    ctx.check('R2.directions', site(init), ok, key(init, 'init'), 'ResultElement does not record its request, its id and the two paths under their own names')
    pl = repo.func('gnpy.tools.worker_utils', 'planning')
    rc = [c for c in calls_to(pl, {'ResultElement'})]
    ok = False
    if rc:
        comp = enclosing(rc[0], ast.ListComp)
        d = [s for s in walk_no_nested(pl.node) if isinstance(s, ast.Assign) and isinstance(s.value, ast.Call) and
             getattr(s.value.func, 'id', '') == 'compute_path_with_disjunction']
        ok = comp is not None and len(d) == 1 and isinstance(d[0].targets[0], ast.Tuple) and len(d[0].targets[0].elts) == 3 and len(d[0].value.args) >= 3
        if ok:
            fwd, _, rev = [e.id for e in d[0].targets[0].elts]
            reqs = ast.unparse(d[0].value.args[2])
            ok = ast.unparse(comp.generators[0].iter) == f'zip({reqs}, {fwd}, {rev})' and \
                [ast.unparse(a) for a in rc[0].args] == [e.id for e in comp.generators[0].target.elts]
    ctx.check('R2.directions', site(pl), ok, key(pl, 'result-zip'),
              'planning does not build each result from (request i, propagated path i, propagated reverse path i)')
    ctx.need('R2.directions', 3)


def r3_dispatch(ctx):
    repo = ctx.repo
    pr = repo.method(result_cls(repo), 'pathresult', 'getter')
    # compared as a decision table with the reference dispatch (gscan/casedomain.py): which dict is answered under which outcome of
    # the tests, the dicts compared as values (one literal per arm, or built key by key), the AttributeError of a request that has
    # no blocking_reason read as one more case
    from ..casedomain import same_decisions
    from .common import through_locals
    tr = [n for n in walk_no_nested(pr.node) if isinstance(n, ast.Try)]
    spec = ast.parse('''
def spec(self):
    try:
        if self.path_request.blocking_reason in BLOCKING_NOPATH:
            return {'response-id': self.path_id, 'no-path': {'no-path': self.path_request.blocking_reason}}
        return {'response-id': self.path_id, 'no-path': {'no-path': self.path_request.blocking_reason, 'path-properties': self.path_properties}}
    except AttributeError:
        return {'response-id': self.path_id, 'path-properties': self.path_properties}
''').body[0]
    ok = len(tr) == 1 and len(tr[0].handlers) == 1 and ast.unparse(tr[0].handlers[0].type) == 'AttributeError'
    det = ''
    if ok:
        ok, det = same_decisions(through_locals(pr.node, local_defs(pr.node)), spec)
    ctx.check('R3.dispatch', site(pr), ok, key(pr, 'dispatch'),
              'the response is not: no route -> reason only; blocked with a candidate -> reason + its properties; served -> properties '
              '(always under the request id)', det[:300])
    dj = repo.method(result_cls(repo), 'detailed_path_json', 'getter')
    ifs = [n for n in ast.walk(dj.node) if isinstance(n, ast.If) and 'blocking_reason' in ast.unparse(n.test)]
    ok = False
    if len(ifs) == 1 and ast.unparse(ifs[0].test) == "not hasattr(self.path_request, 'blocking_reason')":
        lab = [n for n in ast.walk(ifs[0]) if isinstance(n, ast.Dict) and any(isinstance(k, ast.Constant) and k.value == 'label-hop' for k in n.keys)]
        in_body = bool(lab) and any(lab[0] is x for s in ifs[0].body for x in ast.walk(s))
        none_else = not any(isinstance(x, ast.Dict) and any(isinstance(k, ast.Constant) and k.value == 'label-hop' for k in x.keys)
                            for s in ifs[0].orelse for x in ast.walk(s))
        lt = ast.unparse(lab[0]).replace(' ', '').replace('\n', '') if lab else ''
        from ..pattern import find as _find
        ok = in_body and none_else and bool(lab) and bool(_find("[{'N': V_n, 'M': V_m} for V_n, V_m in zip(self.path_request.N, self.path_request.M)]", lab[0]))
        ok = ok and any(isinstance(x, ast.Raise) for s in ifs[0].orelse for x in ast.walk(s)) and \
            any(isinstance(x, ast.Raise) for s in ifs[0].body for x in ast.walk(s))
    ctx.check('R3.dispatch', f'{site(dj)} labels', ok, key(dj, 'labels'),
              'label objects (N, M of the request, pairwise) are not emitted exactly for requests without a blocking reason, with the '
              'consistency errors on both sides')
    tp = [n for n in ast.walk(dj.node) if isinstance(n, ast.Dict) and any(isinstance(k, ast.Constant) and k.value == 'transponder-type' for k in n.keys)]
    ok = len(tp) == 1 and ast.unparse(tp[0]).replace(' ', '') == "{'transponder-type':self.path_request.tsp,'transponder-mode':self.path_request.tsp_mode}"
    g_if = enclosing(tp[0], ast.If) if tp else None
    lp = [n for n in walk_no_nested(dj.node) if isinstance(n, ast.For)]
    elv = lp[0].target.id if len(lp) == 1 and isinstance(lp[0].target, ast.Name) else None
    ok = ok and g_if is not None and ast.unparse(g_if.test) == f'isinstance({elv}, Transceiver)'
    ctx.check('R3.dispatch', f'{site(dj)} transponder', ok, key(dj, 'transponder'),
              'the transponder object (type and mode of the request) is not attached to the transceiver hops')
    hop = [n for n in ast.walk(dj.node) if isinstance(n, ast.Dict) and any(isinstance(k, ast.Constant) and k.value == 'node-id' for k in n.keys)]
    ok = len(hop) == 1 and f"'node-id': {elv}.uid" in ast.unparse(hop[0]) and len(lp) == 1 and ast.unparse(lp[0].iter) == 'self.computed_path'
    ctx.check('R3.dispatch', f'{site(dj)} route hops', ok, key(dj, 'hops'), 'the route objects are not one hop per element of the computed path, in order')
    rj = repo.func('gnpy.tools.json_io', 'results_to_json')
    ok = bool(_find(f"{{'response': [V_n.json for V_n in {rj.params[0]}]}}", rj.node))
    ctx.check('R3.dispatch', site(rj), ok, key(rj, 'results'), 'results_to_json does not list the json of every result under "response"')
    ctx.need('R3.dispatch', 5)


def r4_csv(ctx):
    repo = ctx.repo
    jm = repo.func(RQ, '_jsontopath_metric')
    written = set(METRICS)
    reads = {}
    for n in walk_no_nested(jm.node):
        if isinstance(n, ast.Assign) and isinstance(n.value, ast.Call) and getattr(n.value.func, 'id', '') == 'read_property':
            reads[n.targets[0].id] = n.value.args[1].id if isinstance(n.value.args[1], ast.Name) else ast.unparse(n.value.args[1])
    for var, const in reads.items():
        ctx.check('R4.csv', f'{site(jm)} {var}', const in written, key(jm, f'read|{const}'),
                  f'the CSV export looks up metric {const}, which path_metric never writes')
    want = {'output_snr': 'SNR_01NM_STRING', 'output_snrbandwidth': 'SNR_BW_STRING', 'output_osnr': 'OSNR_01NM_STRING',
            'power': 'REF_POWER_STRING', 'path_bandwidth': 'PATH_BW_STRING', 'output_snr_min': 'LOWER_SNR_STRING',
            'output_snr_max': 'UPPER_SNR_STRING', 'pdl': 'PDL_PENALTY_STRING', 'cd': 'CD_PENALTY_STRING', 'pmd': 'PMD_PENALTY_STRING'}
    # role of each variable is fixed by the position it is returned at (the CSV column tuple), not by its name
    ret = next((n for n in walk_no_nested(jm.node) if isinstance(n, ast.Return)), None)
    order = []
    if ret is not None and isinstance(ret.value, ast.Tuple):
        for e in ret.value.elts:
            nm = [x.id for x in ast.walk(e) if isinstance(x, ast.Name) and x.id in reads]
            order.append(reads.get(nm[0]) if nm else None)
    want_order = ['OSNR_01NM_STRING', 'SNR_01NM_STRING', 'SNR_BW_STRING', 'LOWER_SNR_STRING', 'UPPER_SNR_STRING', 'PDL_PENALTY_STRING',
                  'CD_PENALTY_STRING', 'PMD_PENALTY_STRING', 'REF_POWER_STRING', 'PATH_BW_STRING']
    ctx.check('R4.csv', f'{site(jm)} column order', order == want_order, key(jm, 'order'),
              'the metrics are not returned in the order of the CSV columns (OSNR 0.1nm, SNR 0.1nm, SNR bandwidth, min, max, PDL, CD, '
              'PMD penalties, power, bandwidth): a column would show another metric', f'{order}')
    # the entry a column is read from is the one whose metric-type EQUALS the asked name (several names share a suffix / prefix)
    rp = repo.func(RQ, 'read_property')
    want_p = rp.params[1]
    tests = [n for n in ast.walk(rp.node) if isinstance(n, (ast.Compare, ast.Call)) and
             any(isinstance(c, ast.Constant) and c.value == 'metric-type' for c in ast.walk(n)) and
             any(isinstance(c, ast.Name) and c.id == want_p for c in ast.walk(n))]
    tests = [t for t in tests if not any(t is not o and any(x is o for x in ast.walk(t)) for o in tests)]      # innermost
    keyed = [n for n in ast.walk(rp.node) if isinstance(n, ast.DictComp) and 'metric-type' in ast.unparse(n.key)]
    if not tests and not keyed:
        raise CannotAnalyse('read_property: no selection of the entry by its metric-type')
    for t in tests:
        ok = isinstance(t, ast.Compare) and len(t.ops) == 1 and isinstance(t.ops[0], ast.Eq) and \
            {ast.unparse(t.left), ast.unparse(t.comparators[0])} >= {want_p} and \
            any(isinstance(x, ast.Subscript) and isinstance(x.slice, ast.Constant) and x.slice.value == 'metric-type' for x in (t.left, t.comparators[0]))
        ctx.check('R4.csv', f'{site(rp, t)} metric selection', ok, key(rp, 'select'),
                  f"read_property selects the entry with `{ast.unparse(t)[:100]}` instead of metric-type == {want_p}: metric names share "
                  'suffixes (SNR-0.1nm / OSNR-0.1nm, SNR-bandwidth / OSNR-bandwidth), so a response listing them in another order would '
                  'be exported with the wrong figure in a column')
    acc = [n for n in ast.walk(rp.node) if isinstance(n, ast.Subscript) and isinstance(n.slice, ast.Constant) and n.slice.value == 'accumulative-value']
    ctx.check('R4.csv', f'{site(rp)} value read', len(acc) >= 1, key(rp, 'value'), "read_property does not return the entry's accumulative-value")
    jc = repo.func(RQ, 'jsontocsv')
    defs = local_defs(jc.node)
    from ..pattern import find, mstmt, mexpr
    tuples = {nm: v for nm, d in defs.items() for _, v in d if isinstance(v, ast.Tuple)}
    pmf_name = next((nm for nm, v in tuples.items() if v.elts and isinstance(v.elts[0], ast.Constant) and v.elts[0].value == 'OSNR-0.1nm (average)'), None)
    pmf = tuples.get(pmf_name)
    cols = [e.value for e in pmf.elts if isinstance(e, ast.Constant)] if pmf is not None else []
    ok = cols[:8] == ['OSNR-0.1nm (average)', 'SNR-0.1nm (average)', 'SNR-bandwidth (average)', 'SNR-0.1nm (min)', 'SNR-0.1nm (max)',
                      'PDL_penalty', 'CD_penalty', 'PMD_penalty'] and cols[8:] == ['min required OSNR (inc. margin)', 'baud rate (Gbaud)', 'input power (dBm)']
    ctx.check('R4.csv', f'{site(jc)} columns', ok, key(jc, 'columns'), 'the CSV metric columns changed order or meaning', f'{cols}')
    jp = repo.func(RQ, '_jsontoparams')
    ret = [n for n in walk_no_nested(jp.node) if isinstance(n, ast.Return)]
    unp = [n for n in walk_no_nested(jp.node) if isinstance(n, ast.Assign) and isinstance(n.value, ast.Call) and
           getattr(n.value.func, 'id', '') == '_jsontopath_metric']
    ok = len(ret) == 1 and len(unp) == 1 and isinstance(unp[0].targets[0], ast.Tuple) and len(unp[0].targets[0].elts) == 10
    if ok:
        m = [e.id for e in unp[0].targets[0].elts]      # in the (checked) column order of _jsontopath_metric: 8 metrics, power, bandwidth
        EQ = jp.params[3]
        mode = [b for n in walk_no_nested(jp.node) if isinstance(n, ast.Assign) for b in [mstmt(
            "[V_osnr, V_baud, V_bit, V_cost] = next(([V_m['OSNR'], round(V_m['baud_rate'] * 1e-09, 2), round(V_m['bit_rate'] * 1e-09, 2), V_m['cost']] "
            f"for V_m in {EQ}['Transceiver'][{jp.params[1]}].mode if V_m['format'] == {jp.params[2]}))", n)] if b]
        # name -> what is joined with ' | ' (a local list, or the list written in place)
        joins = {n.targets[0].id: n.value.args[0] for n in walk_no_nested(jp.node) if isinstance(n, ast.Assign) and isinstance(n.targets[0], ast.Name)
                 and mexpr("' | '.join(E_t)", n.value) is not None}
        ok = len(mode) == 1 and len(joins) == 2
        if ok:
            b = mode[0]
            jdefs = local_defs(jp.node)

            def is_hops(src):
                if isinstance(src, ast.Name):
                    return any("['num-unnum-hop']['node-id']" in ast.unparse(c) for c in calls_to(jp, {'append'})
                               if ast.unparse(c.func.value) == src.id) or \
                        any(isinstance(v, (ast.ListComp, ast.GeneratorExp)) and "['num-unnum-hop']['node-id']" in ast.unparse(v.elt)
                            for _, v in jdefs.get(src.id, []))
                return isinstance(src, (ast.ListComp, ast.GeneratorExp)) and "['num-unnum-hop']['node-id']" in ast.unparse(src.elt)
            hops = [nm for nm, src in joins.items() if is_hops(src)]
            labs = [nm for nm in joins if nm not in hops]
            ok = len(hops) == 1 and len(labs) == 1
            if ok:
                want_row = f"(({m[9]},{','.join(m[:8])},{b['V_osnr']}+{EQ}['SI']['default'].sys_margins,{b['V_baud']},{m[8]},{hops[0]},{labs[0]},{b['V_bit']}),{b['V_cost']})"
                ok = ast.unparse(ret[0].value).replace(' ', '').replace('\n', '') == want_row
    ctx.check('R4.csv', site(jp), ok, key(jp, 'params'),
              'the values handed to the CSV row are not (bandwidth, the 8 metrics in column order, mode OSNR + system margin, baud rate, '
              'power, path, spectrum, bit rate)')
    consts = {nm: v.value for nm, d in defs.items() for _, v in d if isinstance(v, ast.Constant) and isinstance(v.value, str)}
    brf = next((nm for nm, v in consts.items() if v == 'bit rate'), None)
    pf_name = next((nm for nm, v in consts.items() if v == 'Pass?'), None)
    jf_name = next((nm for nm, v in tuples.items() if ast.unparse(v).replace(' ', '') == f"('path_bandwidth',*{pmf_name},'path','spectrum(N,M)',{brf})"), None)
    zips = find(f'V_vals.update(dict(zip({jf_name}, V_row)))', jc.node) if jf_name else []
    rows = {b['V_row'] for _, b in zips}
    okz = bool(zips) and all(any(isinstance(n, ast.Assign) and isinstance(n.targets[0], ast.Tuple) and isinstance(n.targets[0].elts[0], ast.Name) and
                                 n.targets[0].elts[0].id == r and isinstance(n.value, ast.Call) and getattr(n.value.func, 'id', '') == '_jsontoparams'
                                 for n in walk_no_nested(jc.node)) for r in rows)
    ctx.check('R4.csv', f'{site(jc)} field mapping', jf_name is not None and okz, key(jc, 'field-mapping'),
              'row values and column names are zipped in different orders')
    # pass flag
    vals = {b['V_vals'] for _, b in zips}
    vv = vals.pop() if len(vals) == 1 else None
    # canonical form of  values[pass] = A if c else B :  if c: values[pass] = A  else: values[pass] = B
    pf = [ast.IfExp(test=n.test, body=n.body[0].value, orelse=n.orelse[0].value) for n in walk_no_nested(jc.node)
          if isinstance(n, ast.If) and len(n.body) == 1 and len(n.orelse) == 1 and
          all(isinstance(x, ast.Assign) and ast.unparse(x.targets[0]) == f'{vv}[{pf_name}]' for x in (n.body[0], n.orelse[0]))]
    ok = False
    det = ''
    if len(pf) == 1:
        v = pf[0]
        det = ast.unparse(v)
        d = {k: ast.unparse(x) for k, dd in defs.items() for _, x in dd if isinstance(x, ast.AST)}
        # canonical comparison form:  required <= measured; canonical polarity: `A if rsnr_min == '' else B`
        mn = next((k for k, x in d.items() if x == f"{vv}['SNR-0.1nm (min)']"), None)
        if ast.unparse(v.test) == f"{mn} == ''":
            v = ast.IfExp(test=v.test, body=v.orelse, orelse=v.body)
        elif ast.unparse(v.test) != f"{mn} != ''":
            v = ast.IfExp(test=v.test, body=ast.Constant(value=0), orelse=ast.Constant(value=0))
        ok = isinstance(v.body, ast.Compare) and isinstance(v.body.ops[0], ast.LtE) and isinstance(v.orelse, ast.Compare) and \
            isinstance(v.orelse.ops[0], ast.LtE) and \
            d.get(ast.unparse(v.body.comparators[0])) == f"{vv}['SNR-0.1nm (min)']" and \
            d.get(ast.unparse(v.orelse.comparators[0])) == f"{vv}['SNR-0.1nm (average)']" and \
            d.get(ast.unparse(v.body.left)) == f"{vv}['min required OSNR (inc. margin)']" and \
            ast.unparse(v.body.left) == ast.unparse(v.orelse.left)
    ctx.check('R4.csv', f'{site(jc)} pass flag', ok, key(jc, 'pass-flag'),
              'the CSV pass flag is not  worst-channel (else average) SNR-0.1nm >= required OSNR including margin  (equality passes, as in '
              'the planner\'s fixed-mode verdict)', det)
    from .common import holds_at, resolved
    # the store into the pass column on the no-path side: the blocking reason (through a local or read in place)
    np_ = [n for n in walk_no_nested(jc.node) if isinstance(n, ast.Assign) and ast.unparse(n.targets[0]) == f'{vv}[{pf_name}]'
           and any("'no-path' in" in c and not c.startswith('not ') for c in holds_at(n))]
    ok = len(np_) == 1 and ast.unparse(resolved(defs, np_[0].value)).endswith("['no-path']['no-path']")
    ctx.check('R4.csv', f'{site(jc)} blocked rows', ok, key(jc, 'blocked-rows'), 'a blocked request does not show its blocking reason in the pass column')
    ctx.need('R4.csv', 16)


def r5_aggregation(ctx):
    repo = ctx.repo
    f = repo.func(RQ, 'requests_aggregation')
    from ..pattern import find, mstmt, mexpr
    REQS, DJ = f.params[0], f.params[1]
    # absorbed request = variable of the loop over the caller's list, absorbing one = variable of the loop over the working copy
    cps = [b['V_l'] for n in f.node.body for b in [mstmt(f'V_l = {REQS}.copy()', n) or mstmt(f'V_l = list({REQS})', n)] if b]
    outer = [n for n in f.node.body if isinstance(n, ast.For) and ast.unparse(n.iter) == REQS and isinstance(n.target, ast.Name)]
    inner = [n for n in (outer[0].body if outer else []) if isinstance(n, ast.For) and cps and ast.unparse(n.iter) == cps[0] and isinstance(n.target, ast.Name)]
    if len(cps) != 1 or len(outer) != 1 or len(inner) != 1:
        raise CannotAnalyse('requests_aggregation: loops over the request list and its working copy not found')
    rq, keep, loc = outer[0].target.id, inner[0].target.id, cps[0]
    want = {'bandwidth summed': [f'{keep}.path_bandwidth += {rq}.path_bandwidth', f'{keep}.path_bandwidth = {keep}.path_bandwidth + {rq}.path_bandwidth'],
            'N concatenated': [f'{keep}.N = {keep}.N + {rq}.N', f'{keep}.N += {rq}.N'],
            'M concatenated': [f'{keep}.M = {keep}.M + {rq}.M', f'{keep}.M += {rq}.M'],
            'ids joined': [f"{keep}.request_id = ' | '.join(({keep}.request_id, {rq}.request_id))"],
            'absorbed request removed': [f'{loc}.remove({rq})']}
    for label, frags in want.items():
        ctx.check('R5.aggregation', f'{site(f)} {label}', any(find(fr, inner[0]) for fr in frags), key(f, f'agg|{label}'),
                  f'aggregation: {label}: expected `{frags[0]}`')
    cond = [n for n in walk_no_nested(f.node) if isinstance(n, ast.If) and 'compare_reqs' in ast.unparse(n.test)]
    t = ast.unparse(cond[0].test) if len(cond) == 1 else ''
    ok = len(cond) == 1 and (f'{rq}.request_id != {keep}.request_id' in t or f'{keep}.request_id != {rq}.request_id' in t) and \
        f'{keep}.tsp_mode is not None' in t and (f'compare_reqs({rq}, {keep}, {DJ})' in t or f'compare_reqs({keep}, {rq}, {DJ})' in t)
    ctx.check('R5.aggregation', f'{site(f)} when', ok, key(f, 'agg-when'), 'requests are aggregated without being distinct, comparable and with a defined mode')
    rets = [n for n in walk_no_nested(f.node) if isinstance(n, ast.Return)]
    ctx.check('R5.aggregation', f'{site(f)} result', len(rets) == 1 and ast.unparse(rets[0].value).replace(' ', '') in (f'({loc},{DJ})', f'{loc},{DJ}'),
              key(f, 'agg-result'), 'the aggregated list (working copy) and the group list are not what is returned')
    cr = repo.func(RQ, 'compare_reqs')
    fields = {n.attr for n in ast.walk(cr.node) if isinstance(n, ast.Attribute) and isinstance(n.value, ast.Name) and n.value.id == cr.params[0]}
    need = {'source', 'destination', 'tsp', 'tsp_mode', 'baud_rate', 'nodes_list', 'loose_list', 'spacing', 'power', 'nb_channel', 'f_min', 'f_max',
            'format', 'OSNR', 'roll_off', 'tx_power', 'request_id'}
    ctx.check('R5.aggregation', site(cr), need <= fields, key(cr, 'compare-fields'),
              f'requests are considered identical without comparing {sorted(need - fields)}')
    ctx.need('R5.aggregation', 8)


def r6_own_objects(ctx):
    """what a result reports is read from element objects that belong to that request alone: every propagated path
    (forward and reverse) is a per-request deep copy, otherwise all results sharing a transceiver report the last
    propagation (shared with C16-R1)"""
    from .c16 import r1_isolation

    class P:
        def __init__(self, c):
            self.c = c

        def __getattr__(self, n):
            return getattr(self.c, n)

        def check(self, rule, *a, **k):
            return self.c.check('R6.own-objects', *a, **k)

        def bad(self, rule, *a, **k):
            return self.c.bad('R6.own-objects', *a, **k)

        def need(self, rule, *a, **k):
            return self.c.need('R6.own-objects', *a[0:1], **k) if a else None
    r1_isolation(P(ctx))
    repo = ctx.repo
    f = repo.func(RQ, 'compute_path_with_disjunction')
    apps = {ast.unparse(c.func.value): ast.unparse(c.args[0]) for c in calls_to(f, {'append'}) if isinstance(c.func, ast.Attribute)}
    rets = [n.value for n in walk_no_nested(f.node) if isinstance(n, ast.Return) and isinstance(n.value, ast.Tuple)]
    ok = len(rets) == 1 and len(rets[0].elts) == 3 and all(isinstance(e, ast.Name) for e in rets[0].elts)
    if ok:
        fwd_l, _, rev_l = [e.id for e in rets[0].elts]

        def defs_of(nm):
            return [ast.unparse(n.value) for n in walk_no_nested(f.node) if isinstance(n, ast.Assign) and ast.unparse(n.targets[0]) == nm]
        x, y = apps.get(fwd_l), apps.get(rev_l)
        ok = x is not None and y is not None and bool(set(defs_of(x)) - {'[]'}) and all(d.startswith('deepcopy(') for d in set(defs_of(x)) - {'[]'})
        others = set(defs_of(y)) - {'[]'}
        ok = ok and len(others) == 1 and '[]' in defs_of(y)
        if ok:
            z = others.pop()
            ok = bool(defs_of(z)) and all(d.startswith('deepcopy(') for d in defs_of(z)) and \
                any(ast.unparse(c.args[0]) == z for c in calls_to(f, {'propagate'}) if c.args)
    ctx.check('R6.own-objects', f'{site(f)} returned paths', ok, key(f, 'returned-paths'),
              'the lists returned to planning are not the propagated forward copy and the propagated reverse copy of each request')



def r7_carried(ctx):
    """R7: the CSV writer handles one response per iteration and carries no local from one row to the next"""
    from ..carried import carried_rule
    carried_rule(ctx, 'R7.carried', {('gnpy.topology.request', 'jsontocsv')}, 'a row would show figures of the response before it')
    ctx.need('R7.carried', 1)


def r8_same_request(ctx):
    """R8: two requests are aggregated into one result only if they are the same request: compare_reqs compares the same
    attribute on both sides, for every attribute it looks at"""
    from .common import compare_pairs_rule
    compare_pairs_rule(ctx, 'R8.same-request', 'different requests would be merged under one joined id (or identical ones kept apart), and the '
                       'result would report the figures of another request')
    ctx.need('R8.same-request', 15)


def r9_first_reason(ctx):
    """R9: the blocking reason a response reports is the FIRST one the planner found for the request: a reason that is already
    set is never overwritten by a later check (the reverse-direction verdict is guarded by `not hasattr`)"""
    from .common import first_reason_rule
    first_reason_rule(ctx, 'R9.first-reason', 'the response would report the reason of a later check (e.g. the reverse direction) instead '
                      'of why the request was blocked')
    ctx.need('R9.first-reason', 2)


def r_mode_copy(ctx):
    """R10: a mode selected by the planner is copied onto the request completely and identically in every copy block (offset,
    penalties, baud rate, OSNR threshold, tx OSNR, bit rate, format)"""
    from .common import mode_copy_rule
    mode_copy_rule(ctx, 'R10.mode-copy', 'the response would report a mode the request object does not hold')
    ctx.need('R10.mode-copy', 2)


def rn_arg_roles(ctx):
    """Rn: a variable named like a parameter of the callee is handed to that parameter (no exchanged roles such as
    f(to_degree, from_degree) for def f(from_degree, to_degree)); calls to resolved package functions, canonical form"""
    from .common import arg_roles_rule
    from ..memo import scope_funcs
    n = arg_roles_rule(ctx, 'Rn.arg-roles', scope_funcs(ctx.repo, 'C19'), 'a result would be built from exchanged paths or requests')
    ctx.check('Rn.arg-roles', 'argument / parameter name scan', True, 'C19|arg-roles-scan', '', f'{n} argument(s) named like another parameter judged')



def r11_penalties_rebuilt(ctx):
    """R11: the penalties reported for the selected mode are that mode's: Transceiver.calc_penalties rebuilds the penalties dict on
    every call (nothing of a previously explored mode survives) - rule shared with C13"""
    from .c13 import r4_penalties as _r
    from .common import proxy
    _r(proxy(ctx, 'R11'))


from ..memo import rule_for as _memo_rule

RULES_MEMO = ('Rm.memo', _memo_rule('C19', 'a result would report figures of another request'))


from ..presence import rule_for as _presence_rule

RULES_PRESENCE = ('Rp.presence', _presence_rule('C19', 'a legal zero would be reported as missing'))

RULES = [('R6.own-objects', r6_own_objects), ('R1.metrics', r1_metrics), ('R2.directions', r2_directions), ('R3.dispatch', r3_dispatch), ('R4.csv', r4_csv),
         ('R5.aggregation', r5_aggregation), RULES_MEMO, RULES_PRESENCE, ('R7.carried', r7_carried), ('R8.same-request', r8_same_request), ('R9.first-reason', r9_first_reason), ('R10.mode-copy', r_mode_copy), ('Rn.arg-roles', rn_arg_roles), ('R11.penalties', r11_penalties_rebuilt)]
