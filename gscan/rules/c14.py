"""C14 - spectrum assignment never double-books a slot and a blocked request changes no spectrum state.

 R1 scratch freshness : the OMS returned by aggregate_oms_bitmap captures a must-fresh list on every path (incl.
                        the zero-iteration path of its loop), unless the spectrum-map constructor copies it itself;
                        compute_n_m mutates only that scratch object (never what it was given).
 R2 commit after check: in pth_assign_spectrum every mutation of a real OMS is dominated by the feasibility
                        computation and lies on the pass side of its guard; every blocked exit clears N and M and
                        carries a reason from BLOCKING_NOSPECTRUM; no blocked exit reaches a mutation.
 R3 same slots on every OMS of path + reverse path.
 R4 slot arithmetic   : mvalue_to_slots = (N-M, N+M-1); assign_spectrum marks exactly that index range and each of
                        its bound/type tests raises SpectrumError.
 R6 merge / probe     : bitmap_sum is FREE only when both inputs are FREE (finite-domain table over BitmapValue);
                        a user-fixed (N, M) is probed over its whole width.
 R7 window            : the tested availability window is the granted one (free search, fixed N, widening probe): slice
                        bounds, pattern length, guard-band indices and the candidate triple agree (index algebra).
 R5 first fit         : policy dispatch picks candidate 0 (first) / -1 (last) of an ascending scan.
 Rm memo          : every memoisation construct in the functions behind this property is keyed by everything it reads.
 Rp presence      : optional numeric fields are tested with `is None` / membership, never by truthiness (0 is a value).
 Re for-each      : loops that act on every item are never left early (break / return).
 Ra alias mutation: a local that still names a list of another object (not copied) is never mutated in place.
 Rn arg roles     : a variable named like a parameter of the callee is handed to that parameter (no exchanged roles).
 R8 inputs        : spectrum map layout (shared with C15-R1); slots needed = ceil(spacing/slot width) x ceil(bandwidth/bit rate).
 R9 scratch faithful: the scratch map is built with the range, grid and guard band of the real map.
 R10 reverse / grid  : find_reversed_path over every OMS (shared with C11); n <-> frequency grid (shared with C15).
"""
import ast

from ..model import AnchorMissing, CannotAnalyse, walk_no_nested, Func
from ..cfg import CFG, fmt_path, calls_named
from ..dataflow import Freshness, FRESH, local_defs, derives, single_def, names_in
from ..effects import effects_of, all_effects
from ..poly import Rat, C, mk_atom
from ..vg import Evaluator, vkey, spec
from .common import calls_to, kwarg, stmt_of, enclosing, attr_stores, is_none, module_list_literal, site, key, root_name

MOD = 'gnpy.topology.spectrum_assignment'
EXPLANATION = (
    "Structural obligations of spectrum assignment decided from source: (R1) list-freshness dataflow shows the "
    "aggregated scratch OMS never shares its bitmap list with a real OMS on any path through aggregate_oms_bitmap, "
    "and effect summaries show compute_n_m mutates only that scratch object; (R2) on the flow graph of "
    "pth_assign_spectrum every mutation of a real OMS is dominated by compute_n_m and by the pass edge of the "
    "remaining-slots guard, every blocked exit clears N/M and sets a BLOCKING_NOSPECTRUM reason and reaches no "
    "mutation; (R3) the same (N,M) pairs are applied to every OMS of path+reverse path and recorded on the request; "
    "(R4) value graph: mvalue_to_slots = (N-M, N+M-1), assign_spectrum writes exactly that slice, all its guards "
    "raise SpectrumError with the stated orientation; (R5) first/last-fit dispatch. Not decided: minimality of the "
    "chosen position and non-overlap as such (they follow from R1-R5 plus list semantics, not re-proved)."
)
ASSUMPTIONS = ["Python list semantics: list(x), x[:], a+b, comprehensions and literals create new lists; attribute "
               "and subscript loads return shared references",
               "call resolution by name inside gnpy/topology/spectrum_assignment.py is exact (module-level functions)"]
RULE_TEXT = ("sites: the bitmap handed to the scratch OMS; every OMS-mutating call in compute_n_m and "
             "pth_assign_spectrum; every store to blocking_reason/N/M in pth_assign_spectrum; guards of "
             "assign_spectrum; non-trivial = a construct was matched and a dataflow/CFG/value-graph fact compared")


def oms_mutators(repo):
    oms = repo.cls('OMS', MOD)
    out = set()
    for name, m in oms.methods.items():
        if name == '__init__':
            continue
        if effects_of(repo, m).param_writes.get(0):
            out.add(name)
    if 'assign_spectrum' not in out:
        raise AnchorMissing('OMS.assign_spectrum no longer mutates the spectrum map')
    return out


# ------------------------------------------------------------------------------------------------ R1
def bitmap_ctor_copies(repo):
    """does Bitmap.__init__ (or OMS.update_spectrum) store a fresh copy of the list it is given on every path?"""
    bm = repo.method(repo.cls('Bitmap', MOD), '__init__')
    fr = Freshness(repo, bm).run()
    stores = attr_stores(bm, 'bitmap')
    if not stores:
        raise AnchorMissing('Bitmap.__init__ no longer stores self.bitmap')
    ok = True
    for s, t, v in stores:
        env = fr.at_stmt.get(id(s), {})
        if fr.expr(v, env) != FRESH:
            ok = False
    if ok:
        return True
    up = repo.method(repo.cls('OMS', MOD), 'update_spectrum')
    fr = Freshness(repo, up).run()
    for c in calls_to(up, {'Bitmap'}):
        a = kwarg(c, 'bitmap', 4)
        if a is not None and fr.expr(a, fr.at_call.get(id(c), {})) == FRESH:
            return True
    return False


def r1_fresh(ctx):
    repo = ctx.repo
    agg = repo.func(MOD, 'aggregate_oms_bitmap')
    fr = Freshness(repo, agg).run()
    sinks = []
    for c in calls_to(agg, {'update_spectrum', 'Bitmap'}):
        nm = c.func.attr if isinstance(c.func, ast.Attribute) else c.func.id
        a = kwarg(c, 'existing_spectrum', 3) if nm == 'update_spectrum' else kwarg(c, 'bitmap', 4)
        sinks.append((c, a))
    if not sinks:
        raise AnchorMissing('aggregate_oms_bitmap no longer builds a spectrum map (update_spectrum / Bitmap call)')
    copies = bitmap_ctor_copies(repo)
    for c, a in sinks:
        st = FRESH if a is None else fr.expr(a, fr.at_call.get(id(c), {}))
        ctx.check('R1.scratch-fresh', site(agg, c), st == FRESH or copies, key(agg, 'scratch-bitmap-alias'),
                  'the scratch OMS returned by aggregate_oms_bitmap may share its bitmap list with a real OMS '
                  '(not a fresh list on every path, e.g. the zero-iteration path of the aggregation loop)',
                  f'bitmap argument {ast.unparse(a) if a is not None else None!r} is {st}; constructor copies: {copies}')
    # compute_n_m mutates only the scratch object
    cnm = repo.func(MOD, 'compute_n_m')
    muts = oms_mutators(repo)
    defs = local_defs(cnm.node)
    n = 0
    for c in calls_to(cnm, muts):
        n += 1
        recv = c.func.value if isinstance(c.func, ast.Attribute) else None
        ok = False
        why = ast.unparse(c)
        if isinstance(recv, ast.Name):
            d = defs.get(recv.id, [])
            ok = len(d) == 1 and isinstance(d[0][1], ast.Call) and \
                repo.resolve_call(cnm, d[0][1]) is agg
        ctx.check('R1.scratch-only', site(cnm, c), ok, key(cnm, f'mutates|{ast.unparse(recv) if recv is not None else "?"}'),
                  f'compute_n_m applies {why} to something other than the scratch OMS built by aggregate_oms_bitmap')
    eff = effects_of(repo, cnm)
    for pname in ('oms_list', 'rq'):
        if pname in cnm.params:
            w = eff.param_writes.get(cnm.params.index(pname), set())
            ctx.check('R1.scratch-only', f'{site(cnm)} param {pname}', not w, key(cnm, f'writes-param|{pname}'),
                      f'compute_n_m (or a callee) may write state reachable from its parameter {pname}: {sorted(w)}')
    ctx.need('R1.scratch-fresh', 1)
    ctx.need('R1.scratch-only', 2)


# ------------------------------------------------------------------------------------------------ R2 / R3
def r2_commit(ctx):
    repo = ctx.repo
    f = repo.func(MOD, 'pth_assign_spectrum')
    cnm = repo.func(MOD, 'compute_n_m')
    g = CFG(f.node)
    muts = oms_mutators(repo)
    oms_param = 'oms_list' if 'oms_list' in f.params else None
    if oms_param is None:
        raise AnchorMissing('pth_assign_spectrum has no oms_list parameter')
    mut_calls = [c for c in calls_to(f, muts) if root_name(c.func) is not None and
                 oms_param in derives(f.node, c.func.value, stop=f.params)]
    if not mut_calls:
        raise AnchorMissing('pth_assign_spectrum no longer mutates the OMS list')
    loops = [n for n in walk_no_nested(f.node) if isinstance(n, ast.For) and getattr(n, '_parent', None) is f.node]
    if len(loops) != 1:
        raise CannotAnalyse('pth_assign_spectrum is expected to be one loop over the requests')
    head = g.node_of(loops[0])
    ccalls = [c for c in calls_to(f, {cnm.name}) if repo.resolve_call(f, c) is cnm]
    if len(ccalls) != 1:
        raise AnchorMissing('pth_assign_spectrum calls compute_n_m exactly once')
    cstmt = stmt_of(f, ccalls[0])
    cnode = g.node_of(cstmt)
    # the third result = remaining slots
    rem = None
    if isinstance(cstmt, ast.Assign) and isinstance(cstmt.targets[0], ast.Tuple) and len(cstmt.targets[0].elts) == 3:
        sel_n, sel_m, rem = [e.id if isinstance(e, ast.Name) else None for e in cstmt.targets[0].elts]
    if rem is None:
        raise CannotAnalyse('result of compute_n_m is not unpacked into three names')
    guards = [n for n in g.nodes if n.kind == 'test' and isinstance(n.stmt, ast.If) and rem in names_in(n.expr)]
    if not guards:
        ctx.bad('R2.guarded-commit', site(f, cstmt), key(f, 'no-remaining-guard'),
                'the number of slots left unserved by compute_n_m is never tested before committing')
        return
    guard = guards[0]
    t = guard.expr
    blocked_edge = None

    def simple(t):
        if isinstance(t, ast.Compare) and len(t.ops) == 1 and isinstance(t.left, ast.Name) and t.left.id == rem and \
                isinstance(t.comparators[0], ast.Constant) and t.comparators[0].value == 0:
            if isinstance(t.ops[0], (ast.Gt, ast.NotEq)):
                return True
            if isinstance(t.ops[0], (ast.Eq, ast.LtE)):
                return False
        if isinstance(t, ast.Compare) and len(t.ops) == 1 and isinstance(t.comparators[0], ast.Name) and \
                t.comparators[0].id == rem and isinstance(t.left, ast.Constant) and t.left.value == 0:
            if isinstance(t.ops[0], (ast.Lt, ast.NotEq)):
                return True
            if isinstance(t.ops[0], (ast.Eq, ast.GtE)):
                return False
        if isinstance(t, ast.Name) and t.id == rem:
            return True
        if isinstance(t, ast.UnaryOp) and isinstance(t.op, ast.Not) and isinstance(t.operand, ast.Name) and \
                t.operand.id == rem:
            return False
        return None
    blocked_edge = simple(t)
    if blocked_edge is None and isinstance(t, ast.BoolOp):
        parts = [simple(v) for v in t.values]
        if isinstance(t.op, ast.Or) and True in parts:
            blocked_edge = True          # blocks at least whenever slots remain
        elif isinstance(t.op, ast.And) and False in parts:
            blocked_edge = False         # passes only when nothing remains (and more)
        elif (isinstance(t.op, ast.And) and True in parts) or (isinstance(t.op, ast.Or) and False in parts):
            ctx.bad('R2.guarded-commit', site(f, guard.stmt), key(f, f'guard-weakened|{ast.unparse(t)}'),
                    f'the guard on unserved slots is weakened by an extra condition ({ast.unparse(t)}): a request with '
                    'slots left unserved can pass it and commit spectrum')
            blocked_edge = True if isinstance(t.op, ast.And) else False
    if blocked_edge is None:
        raise CannotAnalyse(f'guard on remaining slots has an unforeseen form: {ast.unparse(t)}')
    blocked_succ = [g.nodes[y] for y in g.succ[guard.id] if g.label.get((guard.id, y)) == blocked_edge]
    is_head = lambda n: n.id == head.id
    for c in mut_calls:
        m = g.node_of(stmt_of(f, c))
        s = site(f, c)
        # (a) dominated by the feasibility computation within the iteration
        p = g.path_avoiding(head, m, lambda n: n.id == cnode.id, skip_labels=('exc',))
        ctx.check('R2.guarded-commit', f'{s} after compute_n_m', p is None, key(f, f'commit-before-check|{ast.unparse(c)}'),
                  f'{ast.unparse(c)} can run in an iteration before the feasibility computation',
                  fmt_path(f, p) if p else '')
        # (b) not reachable from the blocked side of the guard without starting a new iteration
        bad = None
        for b in blocked_succ:
            if b.id == m.id:
                bad = [guard, b]
                break
            bad = g.path_avoiding(b, m, is_head, skip_labels=('exc',))
            if bad:
                bad = [guard] + bad
                break
        ctx.check('R2.guarded-commit', f'{s} pass-side of guard', bad is None,
                  key(f, f'commit-when-blocked|{ast.unparse(c)}'),
                  f'{ast.unparse(c)} is reachable when slots remain unserved (blocked request changes spectrum state)',
                  fmt_path(f, bad) if bad else '')
        # (c) the guard itself dominates the commit
        p = g.path_avoiding(cnode, m, lambda n: n.id == guard.id, skip_labels=('exc',))
        ctx.check('R2.guarded-commit', f'{s} guard dominates', p is None, key(f, f'commit-unguarded|{ast.unparse(c)}'),
                  f'{ast.unparse(c)} can be reached from compute_n_m without testing the remaining slots',
                  fmt_path(f, p) if p else '')
    # blocked exits
    allowed = set(module_list_literal(repo, 'gnpy.topology.request', 'BLOCKING_NOSPECTRUM'))
    mut_nodes = {g.node_of(stmt_of(f, c)).id for c in mut_calls}
    nstores = {a: [g.node_of(s) for s, t, v in attr_stores(f, a) if is_none(v)] for a in ('N', 'M')}
    for s, t, v in attr_stores(f, 'blocking_reason'):
        b = g.node_of(s)
        st = site(f, s)
        lit = v.value if isinstance(v, ast.Constant) else None
        ctx.check('R2.blocked-exit', f'{st} reason', lit in allowed, key(f, f'reason|{ast.unparse(v)}'),
                  f'blocking reason {ast.unparse(v)} is not one of BLOCKING_NOSPECTRUM {sorted(allowed)}')
        p = None
        for mid in mut_nodes:
            p = g.path_avoiding(b, g.nodes[mid], is_head, skip_labels=('exc',))
            if p:
                break
        ctx.check('R2.blocked-exit', f'{st} no commit after block', p is None, key(f, f'commit-after-block|{ast.unparse(s)}'),
                  'a request marked blocked can still reach a spectrum commit in the same iteration',
                  fmt_path(f, p) if p else '')
        for a in ('N', 'M'):
            ids = {n.id for n in nstores[a]}
            before = g.path_avoiding(head, b, lambda n: n.id in ids, skip_labels=('exc',)) is None
            after = g.path_avoiding(b, head, lambda n: n.id in ids, skip_labels=('exc',)) is None and \
                g.path_avoiding(b, g.exit, lambda n: n.id in ids or n.id == head.id, skip_labels=('exc',)) is None
            ctx.check('R2.blocked-exit', f'{st} clears {a}', before or after, key(f, f'block-keeps-{a}|{ast.unparse(s)}'),
                      f'a blocked exit does not reset the request\'s {a} to None on every path')
    # the already-blocked arm (hasattr(rq, 'blocking_reason'))
    pre = [n for n in g.nodes if n.kind == 'test' and isinstance(n.expr, ast.Call) and
           isinstance(n.expr.func, ast.Name) and n.expr.func.id == 'hasattr' and
           any(isinstance(a, ast.Constant) and a.value == 'blocking_reason' for a in n.expr.args)]
    ctx.check('R2.blocked-exit', f'{site(f)} already-blocked test', bool(pre), key(f, 'no-already-blocked-test'),
              'requests that are already blocked are not filtered out before spectrum assignment')
    for n in pre:
        for y in g.succ[n.id]:
            if g.label.get((n.id, y)) is True:
                p = None
                for mid in mut_nodes:
                    if y == mid:
                        p = [n, g.nodes[y]]
                        break
                    p = g.path_avoiding(g.nodes[y], g.nodes[mid], is_head, skip_labels=('exc',))
                    if p:
                        break
                ctx.check('R2.blocked-exit', f'{site(f, n.stmt)} already-blocked arm', p is None,
                          key(f, 'already-blocked-commits'),
                          'a request that arrives blocked can still reach a spectrum commit', fmt_path(f, p) if p else '')
    ctx.need('R2.guarded-commit', 6, '2 mutating calls x 3 obligations')
    ctx.need('R2.blocked-exit', 8, '2 blocked exits x 4 + already-blocked test and arm')

    # ---------------- R3: same pairs on every OMS of pth + rpth
    defs = local_defs(f.node)
    loopvars = [e.id for e in loops[0].target.elts] if isinstance(loops[0].target, ast.Tuple) else []
    it = loops[0].iter
    pnames = [a.id for a in it.args if isinstance(a, ast.Name)] if isinstance(it, ast.Call) and \
        isinstance(it.func, ast.Name) and it.func.id == 'zip' else []
    role = dict(zip(pnames, loopvars))       # parameter -> loop variable
    fwd, rev = role.get('pths'), role.get('rpths')
    bcalls = calls_to(f, {'build_path_oms_id_list'})
    if not bcalls or fwd is None or rev is None:
        raise AnchorMissing('pth_assign_spectrum: path / reverse-path loop variables or build_path_oms_id_list call')
    used = names_in(bcalls[0].args[0]) if bcalls[0].args else set()
    ctx.check('R3.both-directions', site(f, bcalls[0]), fwd in used and rev in used, key(f, 'oms-of-both-directions'),
              'the OMS set of a request is not built from both the path and its reverse path',
              f'argument {ast.unparse(bcalls[0].args[0]) if bcalls[0].args else None}')
    bstmt = stmt_of(f, bcalls[0])
    oms_name = bstmt.targets[0].id if isinstance(bstmt, ast.Assign) and isinstance(bstmt.targets[0], ast.Name) else None
    same_def = oms_name is not None and len(defs.get(oms_name, [])) == 1
    carg = [a.id for a in ccalls[0].args if isinstance(a, ast.Name)] + \
           [k.value.id for k in ccalls[0].keywords if isinstance(k.value, ast.Name)]
    ctx.check('R3.both-directions', site(f, ccalls[0]), same_def and oms_name in carg, key(f, 'feasibility-on-same-oms-set'),
              'feasibility is not computed on the same OMS set that is committed')
    for c in mut_calls:
        if (c.func.attr if isinstance(c.func, ast.Attribute) else None) != 'assign_spectrum':
            continue
        outer = enclosing(c, ast.For)
        chain = []
        while outer is not None and outer is not loops[0]:
            chain.append(outer)
            outer = enclosing(outer, ast.For)
        iters = [ast.unparse(l.iter) for l in chain]
        over_oms = any(isinstance(l.iter, ast.Name) and l.iter.id == oms_name for l in chain)
        def is_zip(e):
            return isinstance(e, ast.Call) and isinstance(e.func, ast.Name) and e.func.id == 'zip' and \
                [a.id for a in e.args if isinstance(a, ast.Name)] == [sel_n, sel_m]

        def pair_source(e):
            # zip(N, M) itself, or a list of the (n, m) pairs of that zip kept in the same order (a filtered copy held in a local)
            if is_zip(e):
                return True
            if isinstance(e, ast.Name) and len(defs.get(e.id, [])) == 1 and isinstance(defs[e.id][0][1], ast.ListComp):
                lc = defs[e.id][0][1]
                g_ = lc.generators
                return len(g_) == 1 and is_zip(g_[0].iter) and isinstance(g_[0].target, ast.Tuple) and isinstance(lc.elt, ast.Tuple) and \
                    [ast.unparse(x) for x in lc.elt.elts] == [ast.unparse(x) for x in g_[0].target.elts]
            return False
        pairs = [l for l in chain if pair_source(l.iter)]
        ok_args = False
        if pairs and isinstance(pairs[0].target, ast.Tuple):
            tv = [e.id for e in pairs[0].target.elts if isinstance(e, ast.Name)]
            ok_args = [a.id for a in c.args if isinstance(a, ast.Name)] == tv
        ctx.check('R3.same-slots', site(f, c), over_oms and bool(pairs) and ok_args, key(f, 'commit-loop-shape'),
                  'the committed (N, M) pairs are not the computed ones applied, in order, to every OMS of the request',
                  f'enclosing loops over {iters}; args {ast.unparse(c)}')
    for attr, want in (('N', sel_n), ('M', sel_m)):
        vals = [v for s, t, v in attr_stores(f, attr) if not is_none(v)]
        ok = len(vals) >= 1 and all(isinstance(v, ast.Name) and v.id == want for v in vals)
        ctx.check('R3.same-slots', f'{site(f)} rq.{attr}', ok, key(f, f'recorded-{attr}'),
                  f'the {attr} recorded on the request is not the list returned by the feasibility computation',
                  f'{[ast.unparse(v) for v in vals]}')
    ctx.need('R3.both-directions', 2)
    ctx.need('R3.same-slots', 3)


# ------------------------------------------------------------------------------------------------ R4
def int_le0(cond_key):
    return cond_key


def r4_slots(ctx):
    repo = ctx.repo
    f = repo.func(MOD, 'mvalue_to_slots')
    ev = Evaluator(repo, f).run_function()
    r = ev.ret()
    n, m = Rat.sym(f.params[0]), Rat.sym(f.params[1])
    ok = isinstance(r, tuple) and len(r) == 2 and r[0].eq(n - m) and r[1].eq(n + m - C(1))
    ctx.check('R4.slot-range', site(f), ok, key(f, 'range'), 'mvalue_to_slots is not (N - M, N + M - 1)', f'got {vkey(r)}')
    oms = repo.cls('OMS', MOD)
    a = repo.method(oms, 'assign_spectrum')
    ev = Evaluator(repo, a, types={'self': oms}).run_function()
    nv, mv = Rat.sym(a.params[1]), Rat.sym(a.params[2])
    startn, stopn = nv - mv, nv + mv - C(1)
    # the slice store
    subs = [s for s in ev.substores if s[0].endswith('.bitmap')]
    ok = False
    detail = ''
    for n_ in walk_no_nested(a.node):
        if isinstance(n_, ast.Assign) and isinstance(n_.targets[0], ast.Subscript) and \
                isinstance(n_.targets[0].slice, ast.Slice):
            sl = n_.targets[0].slice
            st = None
            # re-evaluate bounds in the final state of the (single) normal path
            from ..vg import State
            if ev.outcomes:
                env = {a.params[1]: nv, a.params[2]: mv, 'self': Rat.sym('self')}
            lo = lower_upper(ev, a, sl.lower, nv, mv)
            up = lower_upper(ev, a, sl.upper, nv, mv)
            val = lower_upper(ev, a, n_.value, nv, mv)
            want_lo = f'.geti({vkey(startn)})'
            lo_ok = lo is not None and vkey(lo).endswith(f',{vkey(startn)})') and '.geti' in vkey(lo)
            up_ok = up is not None and isinstance(up, Rat) and '.geti' in vkey(up - C(1)) and \
                vkey(up - C(1)).endswith(f',{vkey(stopn)})')
            cnt_ok = count_of(val) is not None and count_of(val).eq(stopn - startn + C(1))
            ok = lo_ok and up_ok and cnt_ok
            detail = f'slice [{vkey(lo)} : {vkey(up)}] = {vkey(val)}'
    ctx.check('R4.slot-range', f'{site(a)} slice', ok, key(a, 'slice'),
              'assign_spectrum does not mark exactly the slots N-M .. N+M-1 (index range or length differs)', detail)
    # guards: each raises SpectrumError; orientation of the four bound tests
    raises = [n_ for n_ in walk_no_nested(a.node) if isinstance(n_, ast.Raise)]
    for r_ in raises:
        exc = r_.exc.func.id if isinstance(r_.exc, ast.Call) and isinstance(r_.exc.func, ast.Name) else None
        ctx.check('R4.guards', site(a, r_), exc == 'SpectrumError', key(a, f'raise|{exc}'),
                  f'assign_spectrum rejects with {exc}, not SpectrumError')
    # raising conditions, integer comparisons normalised to "expr <= 0" (a < b  <=>  a - b + 1 <= 0 on integers)
    conds, le0 = set(), []
    for pc, node in ev.raises:
        if pc:
            ck, val = pc[-1]
            conds.add(ck if val else f'not({ck})')
            info = ev.cond_info.get(ck)
            if info and val and info[0] in ('lt', 'le') and isinstance(info[1], Rat) and isinstance(info[2], Rat):
                le0.append(info[1] - info[2] + (C(1) if info[0] == 'lt' else C(0)))
            elif info and not val and info[0] in ('lt', 'le') and isinstance(info[1], Rat) and isinstance(info[2], Rat):
                # not(a < b) = b <= a ; not(a <= b) = b < a
                le0.append(info[2] - info[1] + (C(0) if info[0] == 'lt' else C(1)))
    sb = 'self.spectrum_bitmap'
    fld = lambda x: Rat.of(mk_atom('fld', f'{sb}.{x}'))
    want_type = {'N type': f'not(isinstance({a.params[1]},int))', 'M type': f'not(isinstance({a.params[2]},int))'}
    for label, form in want_type.items():
        ctx.check('R4.guards', f'{site(a)} {label}', form in conds, key(a, f'guard|{label}'),
                  f'assign_spectrum has no rejecting test for "{label}"', f'raising conditions found: {sorted(conds)}')
    want = {
        'M >= 1': mv,                                   # rejects when M <= 0
        'N <= freq_index_max': fld('freq_index_max') - nv + C(1),     # rejects when N > max
        'N >= freq_index_min': nv - fld('freq_index_min') + C(1),     # rejects when N < min
        'stop <= n_max': fld('n_max') - stopn + C(1),                 # rejects when stop > n_max
        'start > n_min': startn - fld('n_min'),                      # rejects when start <= n_min
    }
    for label, expr in want.items():
        ctx.check('R4.guards', f'{site(a)} {label}', any(e.eq(expr) for e in le0), key(a, f'guard|{label}'),
                  f'assign_spectrum has no rejecting test equivalent to "{label}" (bound or orientation differs)',
                  f'rejecting integer conditions (<= 0 form): {[e.key() for e in le0]}')
    ctx.need('R4.slot-range', 2)
    ctx.need('R4.guards', 12)


def lower_upper(ev, a, node, nv, mv):
    """evaluate an expression of assign_spectrum in its final normal-path environment"""
    if node is None:
        return None
    from ..vg import State
    oms = ev.types.get('self')
    e2 = Evaluator(ev.repo, a, types={'self': oms})
    st = State({p: Rat.sym(p) for p in a.params})
    # replay the straight-line assignments (guards raise, so the surviving path is the fall-through)
    for s in a.node.body:
        if isinstance(s, (ast.Assign, ast.AnnAssign)) and not isinstance(
                (s.targets[0] if isinstance(s, ast.Assign) else s.target), ast.Subscript):
            e2.stmt(s, st)
    return e2.ev(node, st)


def count_of(val):
    """k such that val = [x] * k"""
    from ..vg import SymList
    if isinstance(val, SymList):
        return val.length if val.segs and len(val.segs) == 1 and val.segs[0][0] == '0' else None
    if not isinstance(val, Rat):
        return None
    a = val.single_atom()
    if a is not None and a.kind == 'fn' and a.name == 'mult' and len(a.args) == 2 and isinstance(a.args[1], Rat):
        return a.args[1]
    return None


# ------------------------------------------------------------------------------------------------ R5
def r5_first_fit(ctx):
    repo = ctx.repo
    m = repo.module(MOD)
    f = repo.func(MOD, 'select_candidate')
    ev = Evaluator(repo, f).run_function()
    first = vkey(ev.global_name('FIRST_FIT')) if 'FIRST_FIT' in m.constants else None
    # syntactic decision list: first arm whose test mentions FIRST_FIT returns candidates[0], LAST_FIT -> [-1]
    arms = {}
    for n in walk_no_nested(f.node):
        if isinstance(n, ast.If):
            names = names_in(n.test)
            ret = next((s for s in n.body if isinstance(s, ast.Return)), None)
            for pol in ('FIRST_FIT', 'LAST_FIT'):
                if pol in names and ret is not None:
                    arms[pol] = ret.value
    for pol, idx in (('FIRST_FIT', 0), ('LAST_FIT', -1)):
        v = arms.get(pol)
        ok = isinstance(v, ast.Subscript) and isinstance(v.value, ast.Name) and v.value.id == f.params[0] and \
            ((isinstance(v.slice, ast.Constant) and v.slice.value == idx) or
             (isinstance(v.slice, ast.UnaryOp) and isinstance(v.slice.op, ast.USub) and
              isinstance(v.slice.operand, ast.Constant) and -v.slice.operand.value == idx))
        ctx.check('R5.first-fit', f'{site(f)} {pol}', ok, key(f, pol),
                  f'{pol} does not select candidates[{idx}]', f'returns {ast.unparse(v) if v is not None else None}')
    ss = repo.func(MOD, 'spectrum_selection')
    comps = [n for n in walk_no_nested(ss.node) if isinstance(n, ast.ListComp)]
    ok = False
    det = ''
    for c in comps:
        it = c.generators[0].iter
        det = ast.unparse(it)
        if isinstance(it, ast.Call) and isinstance(it.func, ast.Name) and it.func.id == 'range' and len(it.args) == 1:
            ok = True
    ctx.check('R5.first-fit', f'{site(ss)} ascending scan', ok, key(ss, 'scan-order'),
              'candidate positions are not enumerated by an ascending range(len(...)) scan', det)
    # policy is passed through
    passed = all(kwarg(c, 'policy') is not None and isinstance(kwarg(c, 'policy'), ast.Name)
                 for c in calls_to(ss, {'select_candidate'}))
    ctx.check('R5.first-fit', f'{site(ss)} policy passed', passed and bool(calls_to(ss, {'select_candidate'})),
              key(ss, 'policy-pass'), 'spectrum_selection does not pass the requested policy to select_candidate')
    ctx.need('R5.first-fit', 4)


def r6_merge_and_probe(ctx):
    """R6: (a) the per-path aggregate treats a slot as free only if it is FREE on every OMS (finite-domain evaluation
    of bitmap_sum over the three BitmapValue members); (b) a user-fixed (N, M) is accepted only if the whole width M is
    free: the availability probe for a fixed slot steps by M (result in {0, M}) or its result is compared with M"""
    from ..enumdomain import pairwise_table, members_of
    repo = ctx.repo
    bs = repo.func(MOD, 'bitmap_sum')
    bv = repo.cls('BitmapValue', MOD)
    mem = members_of(bv)
    for need in ('FREE', 'OCCUPIED', 'UNUSABLE'):
        if need not in mem:
            raise AnchorMissing(f'BitmapValue.{need}')
    table = pairwise_table(bs, bv)
    for (m1, m2), r in sorted(table.items(), key=lambda kv: (kv[0][0].name, kv[0][1].name)):
        want = mem['FREE'] if (m1 == mem['FREE'] and m2 == mem['FREE']) else mem['OCCUPIED']
        ctx.check('R6.merge', f'{site(bs)} ({m1.name}, {m2.name})', r == want, key(bs, f'merge|{m1.name}|{m2.name}'),
                  f'bitmap_sum({m1.name}, {m2.name}) = {r}, expected {want.name}: a slot that is not FREE on every OMS of the path would be '
                  'offered to the request (or a free one withheld)')
    agg = repo.func(MOD, 'aggregate_oms_bitmap')
    bc = calls_to(agg, {'bitmap_sum'})
    lp = enclosing(bc[0], ast.For) if bc else None
    ok = len(bc) == 1 and lp is not None and ast.unparse(lp.iter) == f'{agg.params[0]}[1:]' and \
        not any(isinstance(n, (ast.Break, ast.Continue)) for n in ast.walk(lp))
    ctx.check('R6.merge', f'{site(agg)} every OMS of the path', ok, key(agg, 'all-oms'),
              'the aggregate does not merge the bitmap of every OMS of the path after the first')
    cnm = repo.func(MOD, 'compute_n_m')
    from ..pattern import mexpr
    arms = [n for n in walk_no_nested(cnm.node) if isinstance(n, ast.If) and 'is not None' in ast.unparse(n.test)]
    fixed = None
    nv = mv = None
    for n in arms:
        lp = enclosing(n, ast.For)
        b = mexpr('V_a is not None and V_b is not None', n.test)
        # the slot loop  for n, m in zip(<N list>, <M list>)
        if b is not None and lp is not None and isinstance(lp.target, ast.Tuple) and len(lp.target.elts) == 2 and \
                {b['V_a'], b['V_b']} == {e.id for e in lp.target.elts if isinstance(e, ast.Name)}:
            fixed = n
            nv, mv = lp.target.elts[0].id, lp.target.elts[1].id
    if fixed is None:
        raise CannotAnalyse('compute_n_m: arm for a user-fixed (N, M) not found')
    dc = [c for s in fixed.body for c in ast.walk(s) if isinstance(c, ast.Call) and getattr(c.func, 'id', '') == 'determine_slot_numbers']
    ok = False
    det = ''
    if len(dc) == 1 and len(dc[0].args) == 4:
        a = [ast.unparse(x) for x in dc[0].args]
        det = ast.unparse(dc[0])
        # the probe's result: a local, or the call written in the test itself
        res = stmt_of(cnm, dc[0]).targets[0].id if isinstance(stmt_of(cnm, dc[0]), ast.Assign) else ast.unparse(dc[0]).replace(' ', '')
        tests = [ast.unparse(n.test).replace(' ', '') for s in fixed.body for n in ast.walk(s) if isinstance(n, ast.If)]
        full_step = a[1] == nv and a[2] == mv and a[3] == mv
        against_m = res is not None and any(t in (f'{res}<{mv}', f'{res}!={mv}', f'{mv}>{res}', f'{res}<{a[2]}') for t in tests)
        zero_test = res is not None and any(t in (f'{res}==0', f'not{res}') for t in tests)
        ok = (full_step and zero_test) or against_m
        det += f' ; tests {tests}'
    ctx.check('R6.fixed-slot', site(cnm, fixed), ok, key(cnm, 'fixed-probe'),
              'a user-fixed (N, M) is accepted without checking that the WHOLE width M around N is free (the probe must step by M, '
              'or its result be compared with M): a fixed slot whose edge overlaps an existing service would be double-booked', det)
    ctx.need('R6.merge', 10)
    ctx.need('R6.fixed-slot', 1)

# ------------------------------------------------------------------------------------------------ R7
def _ix(n, env=None):
    """integer index expression -> normal form (names are symbols)"""
    env = env or {}
    if isinstance(n, ast.Constant) and isinstance(n.value, int) and not isinstance(n.value, bool):
        return C(n.value)
    if isinstance(n, ast.Name):
        return env.get(n.id, Rat.sym(n.id))
    if isinstance(n, ast.UnaryOp) and isinstance(n.op, ast.USub):
        return C(0) - _ix(n.operand, env)
    if isinstance(n, ast.BinOp) and isinstance(n.op, (ast.Add, ast.Sub, ast.Mult)):
        a, b = _ix(n.left, env), _ix(n.right, env)
        return a + b if isinstance(n.op, ast.Add) else a - b if isinstance(n.op, ast.Sub) else a * b
    raise CannotAnalyse(f'index expression {ast.unparse(n)}')


def _window(test, avail, index, lo_name, hi_name, free_name='BitmapValue.FREE'):
    """decompose  avail[a:b] == [FREE] * w  and  index[x] >= lo  and  index[y] <= hi  (any order of conjuncts, either
    orientation of the comparisons); returns a, b, w, x, y as normal forms plus the remaining conjuncts"""
    conj = test.values if isinstance(test, ast.BoolOp) and isinstance(test.op, ast.And) else [test]
    out = {}
    rest = []
    for c in conj:
        if not (isinstance(c, ast.Compare) and len(c.ops) == 1):
            rest.append(c)
            continue
        le, op, ri = c.left, c.ops[0], c.comparators[0]
        if isinstance(op, ast.Eq):
            for x, y in ((le, ri), (ri, le)):
                if isinstance(x, ast.Subscript) and isinstance(x.slice, ast.Slice) and ast.unparse(x.value) == avail and \
                        isinstance(y, ast.BinOp) and isinstance(y.op, ast.Mult):
                    lst, k = (y.left, y.right) if isinstance(y.left, ast.List) else (y.right, y.left)
                    if isinstance(lst, ast.List) and len(lst.elts) == 1 and ast.unparse(lst.elts[0]) == free_name and \
                            x.slice.lower is not None and x.slice.upper is not None and x.slice.step is None:
                        out['a'], out['b'], out['w'] = _ix(x.slice.lower), _ix(x.slice.upper), _ix(k)
            if 'a' not in out:
                rest.append(c)
            continue
        # orient as  index[e] >= lo  /  index[e] <= hi
        for x, y, o in ((le, ri, op), (ri, le, {ast.GtE: ast.LtE, ast.LtE: ast.GtE, ast.Gt: ast.Lt, ast.Lt: ast.Gt}.get(type(op), type(None))())):
            if isinstance(x, ast.Subscript) and ast.unparse(x.value) == index and isinstance(y, ast.Name):
                if isinstance(o, ast.GtE) and y.id == lo_name:
                    out['x'] = _ix(x.slice)
                    break
                if isinstance(o, ast.LtE) and y.id == hi_name:
                    out['y'] = _ix(x.slice)
                    break
        else:
            rest.append(c)
    return out, rest


def r7_window(ctx):
    """R7: the availability window that is tested is the window that is granted.  For a free search the candidate
    (centre, start, stop) built at scan position i is (index[a] + m, index[a], index[a] + 2m - 1) where [a, b) is the
    tested slice, b - a = 2m = the length of the all-FREE pattern, and the guard-band tests look at index[a] and
    index[b-1]; for a fixed N the tested slice is [geti(N) - m, geti(N) + m) and the candidate (N, N-m, N+m-1); the
    widening probe tests [c - i, c + i) against 2i FREE slots with the same edge tests and returns the last width that
    passed"""
    repo = ctx.repo
    ss = repo.func(MOD, 'spectrum_selection')
    m = Rat.sym('requested_m')
    s = site(ss)
    # ---- free search
    comps = [n for n in walk_no_nested(ss.node) if isinstance(n, ast.ListComp)]
    if len(comps) != 1 or len(comps[0].generators) != 1:
        raise CannotAnalyse('spectrum_selection: candidate comprehension not found')
    g = comps[0].generators[0]
    test = g.ifs[0] if len(g.ifs) == 1 else ast.BoolOp(op=ast.And(), values=list(g.ifs))
    defs = {t.targets[0].id: ast.unparse(t.value) for t in ss.node.body if isinstance(t, ast.Assign) and isinstance(t.targets[0], ast.Name)}
    inv = {v.split('.')[-1]: k for k, v in defs.items() if '.spectrum_bitmap.' in v}
    for need in ('bitmap', 'freq_index', 'freq_index_min', 'freq_index_max'):
        if need not in inv:
            raise CannotAnalyse(f'spectrum_selection: local for spectrum_bitmap.{need} not found')
    av, fi, lo, hi = inv['bitmap'], inv['freq_index'], inv['freq_index_min'], inv['freq_index_max']
    w, rest = _window(test, av, fi, lo, hi)
    ok = all(k in w for k in 'abwxy') and not rest
    ctx.check('R7.window', f'{s} free search: window tests', ok, key(ss, 'free|shape'),
              'the candidate filter is not (slice all FREE) and (lower edge >= freq_index_min) and (upper edge <= freq_index_max)',
              ast.unparse(test))
    if ok:
        i = Rat.sym(g.target.id)
        ctx.check('R7.window', f'{s} free search: width', (w['b'] - w['a']).eq(C(2) * m) and w['w'].eq(C(2) * m) and w['a'].eq(i),
                  key(ss, 'free|width'), 'the tested slice is not the 2*M slots starting at the scan position', ast.unparse(test))
        ctx.check('R7.window', f'{s} free search: guard bands', w['x'].eq(w['a']) and w['y'].eq(w['b'] - C(1)), key(ss, 'free|edges'),
                  'the guard-band tests do not look at the first and the last slot of the tested window', ast.unparse(test))
        elt = comps[0].elt
        okc = isinstance(elt, ast.Tuple) and len(elt.elts) == 3
        if okc:
            def idx(e):
                # e = index[a] + k  ->  (a, k)
                subs = [n for n in ast.walk(e) if isinstance(n, ast.Subscript) and ast.unparse(n.value) == fi]
                if len(subs) != 1:
                    raise CannotAnalyse(f'candidate component {ast.unparse(e)}')
                base = _ix(subs[0].slice)
                sub_txt = ast.unparse(subs[0])
                e2 = ast.parse(ast.unparse(e).replace(sub_txt, '__base__'), mode='eval').body
                return base, _ix(e2) - Rat.sym('__base__')
            (a0, k0), (a1, k1), (a2, k2) = idx(elt.elts[0]), idx(elt.elts[1]), idx(elt.elts[2])
            okc = a0.eq(w['a']) and a1.eq(w['a']) and a2.eq(w['a']) and k0.eq(m) and k1.eq(C(0)) and k2.eq(C(2) * m - C(1))
        ctx.check('R7.window', f'{s} free search: granted = tested', okc, key(ss, 'free|candidate'),
                  'the candidate is not (index[a] + M, index[a], index[a] + 2M - 1) for the tested window starting at a: slots outside the '
                  'tested window would be granted', ast.unparse(elt))
    # ---- fixed N
    ifs = [n for n in walk_no_nested(ss.node) if isinstance(n, ast.If) and any(isinstance(c, ast.Compare) for c in ast.walk(n.test))
           and av in names_in(n.test)]
    if len(ifs) != 1:
        raise CannotAnalyse('spectrum_selection: fixed-N test not found')
    w2, rest2 = _window(ifs[0].test, av, fi, lo, hi)
    ok = all(k in w2 for k in 'abwxy') and not rest2
    gi = [t for t in ast.walk(ss.node) if isinstance(t, ast.Assign) and isinstance(t.value, ast.Call) and
          getattr(t.value.func, 'attr', '') == 'geti' and ast.unparse(t.value.args[0]) == 'requested_n']
    ok = ok and len(gi) == 1
    ctx.check('R7.window', f'{s} fixed N: window tests', ok, key(ss, 'fixed|shape'),
              'the fixed-N test is not (slice all FREE) and both guard-band tests around geti(requested_n)', ast.unparse(ifs[0].test))
    if ok:
        c = Rat.sym(gi[0].targets[0].id)
        ctx.check('R7.window', f'{s} fixed N: width and edges',
                  w2['a'].eq(c - m) and w2['b'].eq(c + m) and w2['w'].eq(C(2) * m) and w2['x'].eq(w2['a']) and w2['y'].eq(w2['b'] - C(1)),
                  key(ss, 'fixed|width'), 'the tested slice is not [geti(N) - M, geti(N) + M) with its two edge tests', ast.unparse(ifs[0].test))
        rets = [t.value for t in ifs[0].body if isinstance(t, ast.Assign) and isinstance(t.value, ast.Tuple)]
        n_ = Rat.sym('requested_n')
        okc = len(rets) == 1 and len(rets[0].elts) == 3 and _ix(rets[0].elts[0]).eq(n_) and _ix(rets[0].elts[1]).eq(n_ - m) and \
            _ix(rets[0].elts[2]).eq(n_ + m - C(1))
        ctx.check('R7.window', f'{s} fixed N: granted = tested', okc, key(ss, 'fixed|candidate'),
                  'the fixed candidate is not (N, N - M, N + M - 1)', ast.unparse(rets[0]) if rets else '')
        orelse = [t.value for t in ifs[0].orelse if isinstance(t, ast.Assign)]
        ctx.check('R7.window', f'{s} fixed N: refused otherwise', len(orelse) == 1 and ast.unparse(orelse[0]).replace(' ', '') == '(None,None,None)',
                  key(ss, 'fixed|refuse'), 'a fixed N whose window is not free does not give (None, None, None)')
    # ---- widening probe
    ds = repo.func(MOD, 'determine_slot_numbers')
    loops = [n for n in walk_no_nested(ds.node) if isinstance(n, ast.While)]
    if len(loops) != 1:
        raise CannotAnalyse('determine_slot_numbers: loop not found')
    defs = {t.targets[0].id: ast.unparse(t.value) for t in ds.node.body if isinstance(t, ast.Assign) and isinstance(t.targets[0], ast.Name)}
    # the spectrum map: a local holding <oms>.spectrum_bitmap, or that expression written out
    bm = next((k for k, v in defs.items() if v.endswith('.spectrum_bitmap')), None) or f'{ds.params[0]}.spectrum_bitmap'
    inv = {v.split('.')[-1]: k for k, v in defs.items() if bm and v.startswith(bm + '.') and '(' not in v}
    cen = next((k for k, v in defs.items() if 'geti(' in v and v.endswith(f'({ds.params[1]})')), None)
    miss = [k for k in ('bitmap', 'freq_index', 'freq_index_min', 'freq_index_max') if k not in inv]
    if cen is not None and miss and set(miss) <= {'freq_index_min', 'freq_index_max'}:
        ctx.bad('R7.window', f'{site(ds)} probe: guard bands', key(ds, 'probe|guard-source'),
                f'the widening probe does not compare the window edges with the spectrum map\'s {miss} (the usable range inside the guard '
                'bands): a fixed slot reaching into a guard band would be accepted', str({k: v for k, v in defs.items() if bm and v.startswith(bm + '.')}))
        ctx.need('R7.window', 8)
        return
    if cen is None or miss:
        raise CannotAnalyse('determine_slot_numbers: locals not recognised')
    w3, rest3 = _window(loops[0].test, inv['bitmap'], inv['freq_index'], inv['freq_index_min'], inv['freq_index_max'])
    step = ds.params[3]
    var = next((t.target.id for t in loops[0].body if isinstance(t, ast.AugAssign) and isinstance(t.op, ast.Add)
                and ast.unparse(t.value) == step), None)
    sd = site(ds)
    ok = all(k in w3 for k in 'abwxy') and var is not None and len(loops[0].body) == 1 and defs.get(var) == step
    ctx.check('R7.window', f'{sd} probe: shape', ok, key(ds, 'probe|shape'),
              'the widening probe is not a loop over widths i = step, 2*step, ... testing slice and both edges', ast.unparse(loops[0].test))
    if ok:
        c, i = Rat.sym(cen), Rat.sym(var)
        ctx.check('R7.window', f'{sd} probe: window', w3['a'].eq(c - i) and w3['b'].eq(c + i) and w3['w'].eq(C(2) * i) and
                  w3['x'].eq(w3['a']) and w3['y'].eq(w3['b'] - C(1)), key(ds, 'probe|width'),
                  'the probe does not test [c - i, c + i) against 2i FREE slots with both edge tests', ast.unparse(loops[0].test))
        lim = [ast.unparse(r).replace(' ', '') for r in rest3]
        ctx.check('R7.window', f'{sd} probe: bounded by the request', lim in ([f'{var}<={ds.params[2]}'], [f'{ds.params[2]}>={var}']),
                  key(ds, 'probe|limit'), 'the probe is not limited to the required width', str(lim))
        rets = [n.value for n in walk_no_nested(ds.node) if isinstance(n, ast.Return)]
        ctx.check('R7.window', f'{sd} probe: returns the last width that passed', len(rets) == 1 and _ix(rets[0]).eq(i - Rat.sym(step)),
                  key(ds, 'probe|return'), 'the probe does not return the last width for which the test passed (i - step)',
                  ast.unparse(rets[0]) if rets else '')
    ctx.need('R7.window', 11)



def re_foreach(ctx):
    """Re: loops that act on EVERY item (store on the item / call a function that writes it) are never left early (break / return):
    the items after the exit would silently be skipped; the two search loops of the package are a frozen table"""
    from .common import foreach_rule
    from ..memo import scope_funcs
    foreach_rule(ctx, 'Re.for-each', scope_funcs(ctx.repo, 'C14'), 'OMS later on the path keep their spectrum unassigned')
    ctx.need('Re.for-each', 2)


def ra_alias(ctx):
    """Ra: a local that still names a list / dict of another object (bound from an attribute or an item, not copied on that path:
    freshness lattice) is never mutated in place"""
    from .common import alias_mutation_rule
    from ..memo import scope_funcs
    alias_mutation_rule(ctx, 'Ra.alias-mutation', scope_funcs(ctx.repo, 'C14'), 'the real spectrum map would change while only a scratch copy should')
    ctx.need('Ra.alias-mutation', 5)


def rn_arg_roles(ctx):
    """Rn: a variable named like a parameter of the callee is handed to that parameter (no exchanged roles such as
    f(to_degree, from_degree) for def f(from_degree, to_degree)); calls to resolved package functions, canonical form"""
    from .common import arg_roles_rule
    from ..memo import scope_funcs
    n = arg_roles_rule(ctx, 'Rn.arg-roles', scope_funcs(ctx.repo, 'C14'), 'N and M (or start and stop) would be exchanged')
    ctx.check('Rn.arg-roles', 'argument / parameter name scan', True, 'C14|arg-roles-scan', '', f'{n} argument(s) named like another parameter judged')


def r8_inputs(ctx):
    """R8: what the assignment works ON: the spectrum map marks as FREE exactly the amplified bands, each at its own slot positions
    (layout of create_oms_bitmap, shared with C15-R1), and the number of slots a request needs is
    ceil(spacing / slot width) x ceil(bandwidth / bit rate) (value graph of compute_spectrum_slot_vs_bandwidth)"""
    from .c15 import r1_layout
    from .common import proxy
    r1_layout(proxy(ctx, 'R8'))
    repo = ctx.repo
    f = repo.func('gnpy.topology.request', 'compute_spectrum_slot_vs_bandwidth')
    ev = Evaluator(repo, f).run_function()
    r = ev.ret()
    bw, sp, br, sw = (Rat.sym(p) for p in f.params[:4])
    from ..poly import fn
    ok = isinstance(r, (tuple, list)) and len(r) == 2 and isinstance(r[0], Rat) and isinstance(r[1], Rat) and \
        r[0].eq(fn('ceil', bw / br)) and r[1].eq(fn('ceil', sp / sw) * fn('ceil', bw / br))
    ctx.check('R8.slots-needed', site(f), ok, key(f, 'slots-needed'),
              'the slots a request needs are not ceil(spacing / slot_width) per wavelength times ceil(bandwidth / bit_rate) wavelengths: '
              'a spacing that is not a multiple of the slot width would be under-served (and an insufficient fixed M accepted)',
              vkey(r)[:200] if not isinstance(r, (tuple, list)) else ' , '.join(vkey(x)[:90] for x in r))
    ctx.need('R8.slots-needed', 1)


def r9_scratch_faithful(ctx):
    """R9: the scratch spectrum map a path is probed on is built like the real ones: same slot range, grid AND guard band as the
    first OMS of the path (update_spectrum(.., guardband=<that OMS's guardband>, existing_spectrum=<the merged bitmap>))"""
    repo = ctx.repo
    f = repo.func(MOD, 'aggregate_oms_bitmap')
    us = calls_to(f, {'update_spectrum'})
    ok = len(us) == 1
    det = ''
    if ok:
        from .common import named_args
        a = named_args(us[0])
        det = ast.unparse(us[0])[:160]
        gb, ex = a.get('guardband'), a.get('existing_spectrum')
        ok = gb is not None and isinstance(gb, ast.Attribute) and gb.attr == 'guardband' and ex is not None and isinstance(ex, ast.Name)
        if ok:
            # the guard band comes from the same spectrum object whose n_min / n_max give the range
            rng = {ast.unparse(x.value) for x in ast.walk(f.node) if isinstance(x, ast.Attribute) and x.attr in ('n_min', 'n_max')}
            ok = ast.unparse(gb.value) in rng
    ctx.check('R9.scratch-faithful', site(f, us[0]) if us else site(f), ok, key(f, 'guardband'),
              'the scratch map of a path is not built with the guard band of the real spectrum map: slots inside a configured guard band '
              'would be offered to requests', det)
    ctx.need('R9.scratch-faithful', 1)



def r10_reverse_and_grid(ctx):
    """R10: both directions of a service are booked: find_reversed_path goes through the reverse OMS of EVERY crossed OMS (shared
    with C11); slot numbers and frequencies convert back and forth on one grid, truncating towards the band (shared with C15)"""
    from .c11 import r5_helpers as _r11
    from .c15 import r3_grid as _r15
    from .common import proxy
    _r11(proxy(ctx, 'R10'))
    _r15(proxy(ctx, 'R10'))


def r11_aligned_maps(ctx):
    """R11: after the maps of all OMS were padded to one range, position i of a map still is slot freq_index[i]: insert_left /
    insert_right put the padding on the side on which they extend the index run - otherwise occupancy is read and written at
    other slots than the ones assigned, and a slot can be booked twice (contiguous-run rule shared with C15-R2)"""
    from .c15 import r2_indices as _r
    from .common import proxy
    _r(proxy(ctx, 'R11'))


from ..memo import rule_for as _memo_rule

RULES_MEMO = ('Rm.memo', _memo_rule('C14', 'spectrum availability computed for another state would be reused'))


from ..presence import rule_for as _presence_rule

RULES_PRESENCE = ('Rp.presence', _presence_rule('C14', 'a user-fixed slot N = 0 (the grid anchor) would be treated as not given and placed elsewhere'))

RULES = [('R7.window', r7_window), ('R6.merge-probe', r6_merge_and_probe), ('R1.fresh', r1_fresh), ('R2.commit', r2_commit), ('R4.slots', r4_slots), ('R5.first-fit', r5_first_fit), RULES_MEMO, RULES_PRESENCE, ('Re.for-each', re_foreach), ('Ra.alias-mutation', ra_alias), ('Rn.arg-roles', rn_arg_roles), ('R8.inputs', r8_inputs), ('R9.scratch-faithful', r9_scratch_faithful), ('R10.reverse-and-grid', r10_reverse_and_grid), ('R11.aligned-maps', r11_aligned_maps)]
