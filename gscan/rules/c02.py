"""C02 - signal quality never improves along a path; passive elements leave it unchanged.

 R1 effect sets : which SpectralInformation mutators each element's __call__ can reach (call graph over resolved
                  callees, unresolved x.m() over-approximated by every repo method named m):
                  Roadm, Fused, Transceiver must not reach add_ase / add_nli / apply_gain_*; a plain Fiber must not
                  reach add_ase / apply_gain_*; Edfa must not reach add_nli; the solvers mutate nothing they are given;
                  nobody outside SpectralInformation assigns the power through the pch setter.
                  With C01 (ratios change only in add_ase / add_nli; attenuation and gain scale pch only) this IS
                  "exactly unchanged" for passive elements.
 R2 which share : polynomial identities on the mutator value graphs: add_nli leaves S/A untouched, add_ase leaves
                  S/N untouched; S/A after add_ase = S p/(A p + a), S/N after add_nli = S(1-r)/(N(1-r)+r): each is
                  <= the old ratio iff the injected term is >= 0.
 R3 sign        : sign domain: Edfa.noise_profile > 0; GN-analytic eta >= 0 (asinh difference with non-negative
                  scale: needs |beta2| and the ordered extremes); the analytic NLI is a sum of non-negative terms;
                 every per-pump contribution to the spontaneous Raman ASE is gated by pump frequency > channel frequency,
                 under which the phonon factor E/(E-1) and the Raman coefficient are non-negative (R3.raman-ase).
 Rm memo          : every memoisation construct in the functions behind this property is keyed by everything it reads.
 Rp presence      : optional numeric fields are tested with `is None` / membership, never by truthiness (0 is a value).
 R4 no reset      : no function of elements.py / science_utils.py builds a spectrum anew (factories are for launch and design
                    only): accumulated ASE / NLI cannot be dropped inside an element.
 R5 NLI spreading : between the per-cut sums and add_nli only sign-preserving operations (numpy.interp clamps; no extrapolation).
 R6 own arrays    : the constructor copies (fancy index) and permutes every per-channel array: in-place share updates cannot alias.
 Rn arg roles     : a variable named like a parameter of the callee is handed to that parameter (no exchanged roles).
 R7 arrays private : no shallow copy of a spectrum, no element-wise patch of a share array (shared with C01).
"""
import ast

from ..model import AnchorMissing, CannotAnalyse, walk_no_nested, Func
from ..effects import effects_of, reachable, all_effects
from ..poly import Rat, C, mk_atom, subst, REG, fn
from ..vg import Evaluator, vkey, atoms_of
from ..domains import sign, POS, NONNEG, ZERO, UNK, NEG, NONPOS
from ..model import CannotAnalyse
from .common import site, key, all_attr_stores, calls_to, enclosing

EL = 'gnpy.core.elements'
GAIN = {'apply_gain_db', 'apply_gain_lin'}
NOISE_A, NOISE_N = {'add_ase'}, {'add_nli'}
FORBIDDEN = {
    'Transceiver': GAIN | NOISE_A | NOISE_N,
    'Roadm': GAIN | NOISE_A | NOISE_N,
    'Fused': GAIN | NOISE_A | NOISE_N,
    'Fiber': GAIN | NOISE_A,
    'Edfa': NOISE_N,
}
EXPLANATION = (
    "Effect-set analysis over the whole-package call graph gives, per element class, the set of "
    "SpectralInformation mutators its __call__ can reach; passive elements reach only attenuations, a plain fibre "
    "never reaches add_ase or a gain, an amplifier never reaches add_nli, the solvers mutate none of their arguments. "
    "Value-graph identities show which share each noise update moves and that the affected ratio is "
    "S p/(A p + a) resp. S(1-r)/(N(1-r)+r), non-increasing iff the injected term is non-negative; a sign domain "
    "shows the amplifier ASE and the GN-analytic NLI efficiency are non-negative for every input. Not decided: sign "
    "of Raman spontaneous-scattering ASE and of the GGN integrals; per-path monotonicity is the composition of the "
    "per-element facts."
)
ASSUMPTIONS = ["physical positivity of: pi, h, channel frequency, baud rate, fibre attenuation alpha, fibre length",
               "asinh is odd and increasing", "C01 holds (ratios only change in add_ase / add_nli)"]
RULE_TEXT = ("sites: each element class x each forbidden mutator; each solver method x each argument; the two mutator "
             "identities; the sign of each injected term; non-trivial = a reachable-set, identity or sign was computed")


def r1_effects(ctx):
    repo = ctx.repo
    si = repo.cls('SpectralInformation', 'gnpy.core.info')
    mutators = {n for n, m in si.methods.items() if n != '__init__' and effects_of(repo, m).param_writes.get(0)}
    for need in GAIN | NOISE_A | NOISE_N | {'apply_attenuation_db', 'apply_attenuation_lin'}:
        if need not in mutators:
            raise AnchorMissing(f'SpectralInformation.{need} is no longer a mutator')
    ctx.extra['spectral_information_mutators'] = sorted(mutators)
    for cname, bad in FORBIDDEN.items():
        cls = repo.cls(cname, EL)
        call = repo.method(cls, '__call__')
        # RamanFiber overrides propagate: for the plain Fiber resolve self.* against Fiber itself
        reach = reachable(repo, [call])
        # self.m() resolution inside reachable() uses the defining class; good for the exact class
        hit = {}
        for q, f in reach.items():
            if f.cls is si and f.name in mutators:
                hit[f.name] = q
        allowed = sorted(set(hit) - bad)
        for m in sorted(bad):
            why = ''
            if m in hit:
                # find a caller for the report
                eff = all_effects(repo)
                for q, f in reach.items():
                    e = eff.get(q)
                    if e and any(c is not None and c.cls is si and c.name == m for c, _, _ in e.calls):
                        why = f'called from {q}'
                        break
            ctx.check('R1.effect-set', f'{site(call)} -> {m}', m not in hit, f'{cls.qual}|reaches|{m}',
                      f'{cname} can reach SpectralInformation.{m}: a {"passive element" if cname in ("Roadm", "Fused", "Transceiver") else cname} '
                      f'must not {"add noise" if m.startswith("add_") else "amplify"}', why or f'reaches only {allowed}')
    # solvers do not mutate what they are given
    for sname in ('RamanSolver', 'NliSolver'):
        cls = repo.cls(sname, 'gnpy.core.science_utils')
        for name, m in sorted(cls.methods.items()):
            w = effects_of(repo, m).param_writes
            bad = {m.params[i] if i < len(m.params) else str(i): sorted(a) for i, a in w.items() if a}
            ctx.check('R1.solver-pure', site(m), not bad, f'{m.qual}|mutates',
                      f'{sname}.{name} may mutate its argument(s) {bad}: a solver must only compute')
    # nobody outside the class drives the power through the setter
    for f, s, t, v in all_attr_stores(repo, 'pch'):
        ctx.check('R1.effect-set', f'{site(f, s)} pch setter', f.cls is si, f'{f.qual}|pch-store|{ast.unparse(s)}',
                  'channel power is assigned from outside SpectralInformation (bypasses the attenuate/gain API)',
                  ast.unparse(s))
    ctx.need('R1.effect-set', 14)
    ctx.need('R1.solver-pure', 8)


def r2_identities(ctx):
    repo = ctx.repo
    si = repo.cls('SpectralInformation', 'gnpy.core.info')
    S, A, N, P = (Rat.of(mk_atom('fld', f'self.{x}')) for x in ('_signal_ratio', '_ase_ratio', '_nli_ratio', '_pch'))
    for name, untouched, moved in (('add_nli', 'A', 'N'), ('add_ase', 'N', 'A')):
        m = repo.method(si, name)
        ev = Evaluator(repo, m, types={'self': si}).run_function()
        S1, A1, N1, P1 = (ev.exit_field(f'self.{x}') for x in ('_signal_ratio', '_ase_ratio', '_nli_ratio', '_pch'))
        x = Rat.sym([p for p in m.params if p != 'self'][0])
        old = {'A': A, 'N': N}
        new = {'A': A1, 'N': N1}
        s = site(m)
        # untouched ratio: S'/U' = S/U  <=> S' U = S U'
        ctx.check('R2.which-share', f'{s} S/{untouched} untouched', (S1 * old[untouched]).eq(S * new[untouched]),
                  key(m, f'untouched-{untouched}'),
                  f'{name} changes signal/{untouched}: it must only move the {"NLI" if moved == "N" else "ASE"} share')
        if name == 'add_ase':
            want = S * P / (A * P + x)
            got = S1 / A1
        else:
            r = x / P
            want = S * (C(1) - r) / (N * (C(1) - r) + r)
            got = S1 / N1
        ctx.check('R2.which-share', f'{s} S/{moved} after', got.eq(want), key(m, f'moved-{moved}'),
                  f'{name}: signal/{moved} after the update is not the stated one (S p/(A p + a) or S(1-r)/(N(1-r)+r)); '
                  'non-increase for a non-negative injected term is no longer guaranteed', f'got {got.key()[:200]}')
        # monotone: old - new >= 0 when x >= 0 :  S/M - want = S*x*(...)/... ; check the difference has the factor x
        diff = (S / old[moved]) - want
        zero_at_0 = subst(diff, lambda at: C(0) if at.kind == 'sym' and at.name == x.single_atom().name else None)
        ctx.check('R2.which-share', f'{s} no change for zero noise', zero_at_0.is_zero(), key(m, f'zero-{moved}'),
                  f'{name}(0) changes signal/{moved}')
        # old - new must be a product of non-negative factors for shares in [0,1], power > 0 and injected term >= 0
        if name == 'add_ase':
            fact = S * x / (A * (A * P + x))                   # S a / (A (A p + a))
        else:
            r = x / P
            fact = S * r / (N * (N + r * (C(1) - N)))          # S r / (N (N + r (1 - N))),  1 - N = S + A >= 0
        ctx.check('R2.which-share', f'{s} non-increasing for noise >= 0', diff.eq(fact), key(m, f'mono-{moved}'),
                  f'{name}: old - new signal/{moved} is not the expected product of non-negative factors: the ratio may '
                  'increase for a non-negative injected term', f'old - new = {diff.key()[:200]}')
    ctx.need('R2.which-share', 8)


def r3_sign(ctx):
    repo = ctx.repo
    si = repo.cls('SpectralInformation', 'gnpy.core.info')
    edfa = repo.cls('Edfa', EL)
    npf = repo.method(edfa, 'noise_profile')
    ev = Evaluator(repo, npf, types={'self': edfa, npf.params[1]: si}).run_function()
    val = ev.ret()
    positive = lambda at: (at.kind == 'sym' and at.name in ('h', 'pi', 'k')) or \
        (at.kind == 'fld' and at.name.split('.')[-1] in ('_baud_rate', '_frequency', '_slot_width'))
    sg = sign(val, positive) if isinstance(val, Rat) else UNK
    ctx.check('R3.sign', site(npf), sg == POS, key(npf, 'ase-sign'),
              f'the amplifier ASE is not positive by form (sign domain: {sg}): an amplifier could raise OSNR',
              f'ase = {vkey(val)[:200]}')
    # it is what add_ase receives
    pr = repo.method(edfa, 'propagate')
    evp = Evaluator(repo, pr, types={'self': edfa, pr.params[1]: si},
                    no_inline={'interpol_params', 'noise_profile', 'add_ase', 'apply_gain_db', 'apply_attenuation_db'}).run_function()
    aa = [c for c in evp.calls if c.name == 'add_ase']
    ok = len(aa) == 1 and isinstance(aa[0].args[0], Rat) and aa[0].args[0].single_atom() is not None and \
        'noise_profile' in aa[0].args[0].single_atom().name
    ctx.check('R3.sign', f'{site(pr)} add_ase(noise_profile(..))', ok, key(pr, 'ase-passthrough'),
              'the amplifier does not add exactly the ASE computed by noise_profile',
              f'add_ase({vkey(aa[0].args[0])[:120] if aa else None})')
    # GN analytic eta >= 0
    K = repo.cls('NliSolver', 'gnpy.core.science_utils')
    psi = repo.method(K, '_psi')
    sym = {n: Rat.sym(n.upper() + '#') for n in psi.params}
    ev = Evaluator(repo, psi).run_function(bind=dict(sym))
    val = ev.ret()
    pos_names = {psi.params[1].upper() + '#', psi.params[3].upper() + '#', psi.params[4].upper() + '#', 'pi'}
    positive = lambda at: at.kind == 'sym' and at.name in pos_names
    ok, det = asinh_difference_nonneg(val, positive)
    ctx.check('R3.sign', site(psi), ok, key(psi, 'psi-sign'),
              'the GN kernel psi is not non-negative by form for every dispersion sign and channel spacing '
              '(a fibre could lower the NLI share, i.e. raise SNR_NLI)', det)
    gn = repo.method(K, '_gn_analytic')
    evg = Evaluator(repo, gn, types={gn.params[0]: si}, no_inline={'alpha', 'beta2', 'gamma', '_psi'})
    evg.run_function(bind={p: evg.ev_default(d, gn) for p, d in gn.defaults().items()})
    eta = evg.ret()

    def positive2(at):
        if at.kind == 'fn' and at.name.endswith('_psi'):
            return True          # >= 0 by the previous obligation (treated as positive factor)
        if at.kind == 'fld' and at.name.split('.')[-1] in ('_baud_rate', '_frequency'):
            return True
        return False
    # IDENTITY is 0/1: check both cases
    sgs = []
    for iv in (0, 1):
        e2 = subst(eta, lambda at: C(iv) if at.kind == 'sym' and at.name == 'IDENTITY' else None)
        sgs.append(sign(e2, positive2))
    ctx.check('R3.sign', site(gn), all(s in (POS, NONNEG, ZERO) for s in sgs), key(gn, 'eta-sign'),
              f'the NLI efficiency eta is not non-negative by form (diagonal/off-diagonal signs {sgs})',
              f'eta = {vkey(eta)[:240]}')
    ctx.need('R3.sign', 4)


def asinh_difference_nonneg(val, positive):
    """val = K * (asinh(a1) - asinh(a2)) with K >= 0 and a1 - a2 >= 0 (or both reversed)"""
    if not isinstance(val, Rat) or not val.d.is_const():
        return False, f'psi is not a polynomial in its atoms: {vkey(val)[:200]}'
    terms = []
    for k, c in val.n.t.items():
        as_ = [(a, e) for a, e in k if REG[a].kind == 'fn' and REG[a].name == 'asinh']
        if len(as_) != 1 or as_[0][1] != 1:
            return False, f'psi is not linear in two asinh terms: {vkey(val)[:200]}'
        rest = tuple((a, e) for a, e in k if a != as_[0][0])
        from ..poly import Poly
        terms.append((REG[as_[0][0]], Rat(Poly({rest: c / val.d.constval()}))))
    if len(terms) != 2:
        return False, f'psi has {len(terms)} asinh terms, expected 2'
    (a1, k1), (a2, k2) = terms
    if not (k1 + k2).is_zero():
        return False, 'the two asinh terms do not have opposite coefficients'
    s1 = sign(k1, positive)
    d = a1.args[0] - a2.args[0]
    sd = sign(d, positive)
    ok = (s1 in (POS, NONNEG) and sd in (POS, NONNEG, ZERO)) or (s1 in (NEG, NONPOS) and sd in (NEG, NONPOS, ZERO))
    return ok, f'scale sign {s1}; argument difference {d.key()[:160]} sign {sd}'


def r3b_raman_ase(ctx):
    """sign of the spontaneous Raman ASE of a Raman fibre: every additive contribution (one per pump) must be
    non-negative.  It is, by form, when it carries the indicator  pump frequency > channel frequency : under it the
    phonon factor 1 + eta = E/(E - 1), E = exp(h df / kT) > 1, is positive and the Raman coefficient is a gain."""
    from ..vg import loopvar
    from ..poly import Poly
    repo = ctx.repo
    si = repo.cls('SpectralInformation', 'gnpy.core.info')
    RS = repo.cls('RamanSolver', 'gnpy.core.science_utils')
    f = repo.method(RS, 'calculate_spontaneous_raman_scattering')
    sp = f.params[0]
    ev = Evaluator(repo, f, types={sp: si}, no_inline={'cr'}).run_function()
    lbs = [(lid, lb) for lid, lb in ev.loop_bodies.items() if 'raman_pumps' in ast.unparse(lb['node'].iter if hasattr(lb['node'], 'iter') else lb['node'])]
    if len(lbs) != 1:
        raise CannotAnalyse('calculate_spontaneous_raman_scattering: loop over the Raman pumps not found')
    lid, lb = lbs[0]
    ret = ev.ret()
    acc = [nm for nm in lb['post'] if isinstance(lb['post'][nm], Rat) and isinstance(ret, Rat) and f"loop#{lid}('{nm}'" in vkey(ret)]
    if len(acc) != 1:
        raise CannotAnalyse('cannot identify the ASE accumulator of the pump loop')
    inc = lb['post'][acc[0]] - loopvar(lid, acc[0])
    s = site(f)
    fch = Rat.of(mk_atom('fld', f'{sp}._frequency'))
    masks = [a for a in atoms_of(inc).values() if a.kind == 'fn' and a.name == 'cond' and isinstance(a.args[0], str) and a.args[0].startswith('lt(0,')]
    mask = None
    for a in masks:
        info = ev.cond_info.get(a.args[0])
        if info and isinstance(info[2], Rat):
            d = info[2] + fch            # = pump frequency
            if d.single_atom() is not None and 'frequency' in d.single_atom().key and 'pump' in d.single_atom().key:
                mask = (a, d)
    pos_names = ('h', 'k')

    def positive(at, under_mask):
        if at.kind == 'sym' and at.name in pos_names or at.kind == 'sym' and at.name.endswith('#pos'):
            return True
        if at.kind == 'fld' and (at.name.endswith('._baud_rate') or at.name.endswith('._frequency') or at.name.endswith('.temperature')
                                 or at.name.endswith('.frequency')):
            return True
        if at.kind == 'fn' and at.name == 'trapz':
            return True                       # integral of a ratio of positive power / loss profiles
        if at.kind == 'fn' and at.name == 'cond':
            return True                       # indicator in {0, 1}: treated as a non-negative factor
        if under_mask and at.kind == 'fn' and at.name == 'sub' and '.cr(' in at.key:
            return True                       # Raman coefficient is a gain (>= 0) for a pump above the channel
        return False
    rest = inc
    if mask is not None:
        # under the mask exp(h f_pump / kT) = exp(h f_ch / kT) * (1 + P), P > 0
        pump_f = mask[1]
        P = Rat.sym('P#pos')

        def sub_exp(at):
            if at.kind == 'fn' and at.name == 'exp' and isinstance(at.args[0], Rat) and pump_f.single_atom().key in at.args[0].key():
                other = subst(Rat.of(at), lambda b: fch if b.key == pump_f.single_atom().key else None)
                return other * (C(1) + P)
            return None
        rest = subst(inc, sub_exp)
    sg = sign(rest, lambda at: positive(at, mask is not None))
    ctx.check('R3.raman-ase', s, mask is not None and sg in (POS, NONNEG, ZERO), key(f, 'raman-ase-sign'),
              'a per-pump contribution to the spontaneous Raman ASE is not non-negative by form (it is not gated by  pump frequency > '
              'channel frequency, outside which the phonon factor and the Raman coefficient change sign): a Raman fibre could raise OSNR',
              f'mask {"present" if mask else "absent"}; sign {sg}; contribution = {vkey(inc)[:300]}')
    rf = repo.cls('RamanFiber', EL)
    pr = repo.method(rf, 'propagate')
    evp = Evaluator(repo, pr, types={'self': rf, pr.params[1]: si},
                    no_inline={'compute_nli', 'calculate_stimulated_raman_scattering', 'calculate_spontaneous_raman_scattering', 'add_nli',
                               'add_ase', 'gnpy.core.elements.Fiber.chromatic_dispersion', 'apply_attenuation_db', 'apply_attenuation_lin'}).run_function()
    aa = [c for c in evp.calls if c.name == 'add_ase']
    ok = len(aa) == 1 and isinstance(aa[0].args[0], Rat) and 'calculate_spontaneous_raman_scattering' in vkey(aa[0].args[0])
    ctx.check('R3.raman-ase', f'{site(pr)} add_ase(spontaneous scattering)', ok, key(pr, 'raman-ase-passthrough'),
              'the Raman fibre does not add exactly the ASE computed by calculate_spontaneous_raman_scattering')
    ctx.need('R3.raman-ase', 2)



def r5_nli_interp(ctx):
    """R5: where the NLI is computed on a subset of channels and spread to the others, the spreading keeps the sign: it is
    numpy.interp (piecewise linear, clamped at the ends: every value is a convex combination of computed ones).  An
    extrapolating interpolation can hand a NEGATIVE NLI to the outer channels, which add_nli would turn into an SNR_NLI
    that improves through a fibre.  Every operation between the per-cut sum and the value given to add_nli is from the
    sign-preserving set."""
    from ..dataflow import local_defs
    repo = ctx.repo
    ns = repo.cls('NliSolver', 'gnpy.core.science_utils')
    f = repo.method(ns, 'compute_nli')
    KEEP = {'sum', 'interp', 'outer', 'ones', 'maximum', 'clip', 'abs', 'full', 'array', 'asarray', 'zeros', 'len', 'round', 'range'}
    rets = [n for n in walk_no_nested(f.node) if isinstance(n, ast.Return) and isinstance(n.value, ast.Name)]
    if len(rets) != 1:
        raise CannotAnalyse('compute_nli: single named result expected')
    res = rets[0].value.id
    n = 0
    for st in [x for x in walk_no_nested(f.node) if isinstance(x, ast.Assign) and isinstance(x.targets[0], ast.Name) and x.targets[0].id == res]:
        # the chain of local definitions feeding this assignment, inside the same branch
        branch = enclosing(st, ast.If)
        scope = list(ast.walk(branch)) if branch is not None else list(ast.walk(f.node))
        names, work = set(), [st.value]
        chain = [st]
        while work:
            e = work.pop()
            for x in ast.walk(e):
                if isinstance(x, ast.Name) and x.id not in names:
                    names.add(x.id)
                    for d in scope:
                        if isinstance(d, ast.Assign) and isinstance(d.targets[0], ast.Name) and d.targets[0].id == x.id and d.lineno <= st.lineno:
                            chain.append(d)
                            work.append(d.value)
        for d in chain:
            for c in ast.walk(d.value):
                if isinstance(c, ast.Call):
                    nm = c.func.id if isinstance(c.func, ast.Name) else (c.func.attr if isinstance(c.func, ast.Attribute) else None)
                    if isinstance(c.func, ast.Call):
                        nm = ast.unparse(c.func.func) + '(..)(..)'
                    if isinstance(c.func, ast.Attribute) and ast.unparse(c.func.value).startswith('NliSolver'):
                        continue            # the eta kernels (sign: R3 for the analytic model; not decided for the GGN integrals)
                    if isinstance(c.func, ast.Name):
                        # a local that only ever names one of the eta kernels (`compute_eta = NliSolver._ggn_approx`)
                        ad = [v for _, v in local_defs(f.node).get(c.func.id, []) if isinstance(v, ast.AST)]
                        if ad and all(isinstance(v, ast.Attribute) and ast.unparse(v.value).startswith('NliSolver') for v in ad):
                            continue
                    n += 1
                    ctx.check('R5.nli-interp', f'{site(f, c)} {nm}', nm in KEEP, key(f, f'nli-op|{nm}'),
                              f'{nm}(..) takes part in spreading the NLI over the channels; it is not in the sign-preserving set '
                              f'({", ".join(sorted(KEEP))}): an extrapolated / fitted value can be negative and improve SNR_NLI through a fibre',
                              ast.unparse(c)[:120])
    ctx.need('R5.nli-interp', 6)


def r6_own_arrays(ctx):
    """R6: a spectrum owns its per-channel arrays: the constructor stores param[argsort(frequency)] (a fancy index, hence a copy)
    for every field, so the in-place share updates of add_ase / add_nli can never write into an array that another field or
    the caller also holds (shared with C01-R2) - otherwise a passive fibre could change the ASE share"""
    from .c01 import r2_base
    from .common import proxy
    r2_base(proxy(ctx, 'R6'))        # constructor permutation + field-by-field mapping of select_channels / __add__
    ctx.need('R6.init-permutation', 16)


def r4_no_reset(ctx):
    """R4: noise accumulated upstream is never dropped inside an element: the elements (and the physics they call) never build
    a spectrum anew - only request.propagate (launch) and the design code (reference comb) call the spectral-information
    factories; band filtering inside elements goes through demux / mux, which carry signal, ASE and NLI of the kept
    channels (C07-R2)"""
    repo = ctx.repo
    FACT = {'create_arbitrary_spectral_information', 'create_input_spectral_information', 'carriers_to_spectral_information',
            'SpectralInformation'}
    n = 0
    for mod in ('gnpy.core.elements', 'gnpy.core.science_utils'):
        m = repo.module(mod)
        funcs = list(m.functions.values()) + [f for c in m.classes.values() for f in c.all_funcs()]
        for f in funcs:
            n += 1
            hits = [c for c in calls_to(f, FACT)]
            ctx.check('R4.no-reset', site(f, hits[0]) if hits else site(f), not hits, key(f, 'factory'),
                      f'{f.name} builds a spectrum with {ast.unparse(hits[0].func) if hits else ""}: the ASE and NLI accumulated by the '
                      'upstream elements are dropped (GSNR, OSNR and SNR_NLI jump up through the element); elements must filter '
                      'with demux / mux, which keep the noise of the surviving channels')
    ctx.need('R4.no-reset', 80)


def rn_arg_roles(ctx):
    """Rn: a variable named like a parameter of the callee is handed to that parameter (no exchanged roles such as
    f(to_degree, from_degree) for def f(from_degree, to_degree)); calls to resolved package functions, canonical form"""
    from .common import arg_roles_rule
    from ..memo import scope_funcs
    n = arg_roles_rule(ctx, 'Rn.arg-roles', scope_funcs(ctx.repo, 'C02'), 'an element would be given the wrong quantity')
    ctx.check('Rn.arg-roles', 'argument / parameter name scan', True, 'C02|arg-roles-scan', '', f'{n} argument(s) named like another parameter judged')



def r7_arrays_private(ctx):
    """R7: a spectrum is never shallow-copied and its share arrays are never patched element-wise (rule shared with C01): a loss or
    gain applied to a copy must not reach the original, and no carrier may have a share rewritten on its own"""
    from .c01 import r9_no_shallow_copy_or_patch as _r
    from .common import proxy
    _r(proxy(ctx, 'R7'))


from ..memo import rule_for as _memo_rule

RULES_MEMO = ('Rm.memo', _memo_rule('C02', 'an element would apply noise computed for another spectrum or configuration'))


from ..presence import rule_for as _presence_rule

RULES_PRESENCE = ('Rp.presence', _presence_rule('C02', 'a legal zero would be read as missing'))

RULES = [('R3.raman-ase', r3b_raman_ase), ('R1.effects', r1_effects), ('R2.identities', r2_identities), ('R3.sign', r3_sign), RULES_MEMO, RULES_PRESENCE, ('R4.no-reset', r4_no_reset), ('R5.nli-interp', r5_nli_interp), ('R6.own-arrays', r6_own_arrays), ('Rn.arg-roles', rn_arg_roles), ('R7.no-shallow-copy', r7_arrays_private)]
