"""C12 - requests declared disjoint never share a link in either direction.

Soundness skeleton of compute_path_dsjctn (returned combinations are pairwise disjoint), as an invariant argument
whose legs are structural; completeness of the search is NOT decided.
 R1 acceptance : in step 2 a candidate is appended to a combination only when the accumulated test is 0; the test
                 accumulates isdisjoint(candidate, p) AND isdisjoint(reversed candidate, p) for EVERY path p already in
                 the combination (both calls inside the loop over the combination, which has no break / continue); the
                 reversed candidate is the same-index entry of the reversed table; the accumulator is reset per combination.
 R2 shrink-only: after step 2 the candidate sets only shrink: every later assignment to candidates[k] is built from
                 elements enumerated out of candidates[k]; remove_candidate only removes; the result is combination 0.
 R3 must raise : an empty candidate set raises DisjunctionError (never falls through to a result).
 R4 cut-off    : the enumeration cut-off is the documented 80.
 R5 helper     : isdisjoint compares consecutive pairs of both lists and returns non-zero on the first common pair;
                 the short lists keep one entry per ROADM crossing with its direction.
 R6 groups     : deduplicate_disjunctions removes a group only when another group has exactly the same request set.
 Rm memo          : every memoisation construct in the functions behind this property is keyed by everything it reads.
 Rp presence      : optional numeric fields are tested with `is None` / membership, never by truthiness (0 is a value).
 R7 group constraints: the scan of a combination stops early only after a STRICT failure (shared with C11-R6).
 Rn arg roles     : a variable named like a parameter of the callee is handed to that parameter (no exchanged roles).
 R8 inputs        : every synchronization entry becomes a group; hop flags stay attached when route lists are edited (shared with C11-R4).
 R9 reverse pairing : reversed_oms pairs OMS on swapped end uids (shared with C15).
"""
import ast

from ..model import AnchorMissing, CannotAnalyse, walk_no_nested
from ..cfg import CFG, fmt_path
from ..dataflow import names_in, local_defs, derives
from .common import calls_to, site, key, stmt_of, enclosing, kwarg, holds_at

RQ = 'gnpy.topology.request'
EXPLANATION = (
    "Structural legs of the soundness argument for disjoint-path selection: both-direction disjointness is tested "
    "against every path of a partial combination before it is extended (loop nesting, accumulator reset, guard "
    "dominance); candidate sets only shrink after the combination step; an empty set raises; the enumeration cut-off "
    "and the link-pair comparison helper; group de-duplication on set equality. Completeness (a solution is found "
    "whenever one exists), consistency across overlapping groups and that ROADM short lists identify links for every "
    "topology are not decided."
)
ASSUMPTIONS = ["networkx.all_simple_paths enumerates simple paths up to the cut-off", "pairwise yields consecutive pairs"]
RULE_TEXT = ("sites: the isdisjoint calls and the extension of combinations in step 2; each later assignment to a candidate set; "
             "the result selection; the raise; the cut-off; isdisjoint; deduplicate_disjunctions")


def roles(f):
    """locals of compute_path_dsjctn by what they are, not by how they are called"""
    from ..pattern import find, mstmt, mexpr
    R = {'groups': f.params[3], 'requests': f.params[2], 'network': f.params[0]}
    # candidate table: X[<group>.disjunction_id] = ...
    for n in walk_no_nested(f.node):
        if isinstance(n, ast.Assign) and isinstance(n.targets[0], ast.Subscript) and isinstance(n.targets[0].value, ast.Name) and \
                isinstance(n.targets[0].slice, ast.Attribute) and n.targets[0].slice.attr == 'disjunction_id':
            R.setdefault('candidates', n.targets[0].value.id)
    # path record table: X[id(s)] = Pth(req, full, short)
    for n, b in find('V_all[id(V_s)] = V_cls(V_req, V_full, V_s)', f.node):
        R['allpaths'], R['grouped_req'] = b['V_all'], b['V_req']
    # enumerated paths per request and their reversed twins
    for n, b in find('V_rev.append(find_reversed_path(V_p))', f.node):
        lp = enclosing(n, ast.For)
        if lp is not None and isinstance(lp.iter, ast.Name) and isinstance(lp.target, ast.Name) and lp.target.id == b['V_p']:
            R['all_rev'], R['all_fwd'], R['twin_stmt'] = b['V_rev'], lp.iter.id, lp
    for n, b in find('V_rev = [find_reversed_path(V_p) for V_p in V_fwd]', f.node):
        R['all_rev'], R['all_fwd'], R['twin_stmt'] = b['V_rev'], b['V_fwd'], n
    # the grouped requests: [e for e in requests if e.request_id in <ids of the groups>]
    for n in walk_no_nested(f.node):
        if isinstance(n, ast.Assign) and isinstance(n.targets[0], ast.Name):
            b = mexpr(f"[V_e for V_e in {R['requests']} if V_e.request_id in V_ids]", n.value)
            if b is not None:
                R['grouped'] = n.targets[0].id
            b = mexpr(f"[V_e for V_e in {R['requests']} if V_e.request_id not in V_ids]", n.value)
            if b is not None:
                R['simple'] = n.targets[0].id
    # result table: X[all[id(p)].req] = all[id(p)].pth
    if 'allpaths' in R:
        for n, b in find(f"V_res[{R['allpaths']}[id(V_p)].req] = {R['allpaths']}[id(V_p)].pth", f.node):
            R['result'] = b['V_res']
    return R


def short_table_of(f, R, src):
    """name of the dict D with  D[req.request_id] = T  where T collects one short list per path of `src`, in order"""
    out = []
    for n in walk_no_nested(f.node):
        if isinstance(n, ast.Assign) and isinstance(n.targets[0], ast.Subscript) and isinstance(n.targets[0].value, ast.Name) and \
                isinstance(n.value, ast.ListComp) and ast.unparse(n.targets[0].slice).endswith('.request_id'):
            # the table written in place:  D[req.request_id] = [<short list> for pth in src]
            g = n.value.generators
            if len(g) == 1 and isinstance(g[0].iter, ast.Name) and g[0].iter.id == src and not g[0].ifs:
                out.append(n.targets[0].value.id)
        if isinstance(n, ast.Assign) and isinstance(n.targets[0], ast.Subscript) and isinstance(n.targets[0].value, ast.Name) and \
                isinstance(n.value, ast.Name) and ast.unparse(n.targets[0].slice).endswith('.request_id'):
            t = n.value.id
            body = getattr(n, '_parent').body
            # the closest preceding definition of t: an append loop over src, or (canonical form of such a loop) a comprehension over src
            lps = [x for x in body if isinstance(x, ast.For) and isinstance(x.iter, ast.Name) and x.iter.id == src
                   and x.lineno < n.lineno and any(isinstance(c, ast.Call) and ast.unparse(c.func) == f'{t}.append' for c in ast.walk(x))]
            comps = [x for x in body if isinstance(x, ast.Assign) and ast.unparse(x.targets[0]) == t and isinstance(x.value, ast.ListComp) and
                     len(x.value.generators) == 1 and isinstance(x.value.generators[0].iter, ast.Name) and x.value.generators[0].iter.id == src
                     and x.lineno < n.lineno]
            cands = sorted(lps + comps, key=lambda x: x.lineno)
            later_reset = [x for x in body if isinstance(x, ast.Assign) and ast.unparse(x.targets[0]) == t and
                           cands and cands[-1].lineno < x.lineno < n.lineno and x not in comps]
            if cands and not later_reset:
                out.append(n.targets[0].value.id)
    return out


def r1_acceptance(ctx):
    repo = ctx.repo
    f = repo.func(RQ, 'compute_path_dsjctn')
    iso = repo.func(RQ, 'isdisjoint')
    calls = [c for c in calls_to(f, {'isdisjoint'}) if repo.resolve_call(f, c) is iso]
    s = site(f)
    ctx.check('R1.acceptance', f'{s} two directions tested', len(calls) == 2, key(f, 'two-calls'),
              f'{len(calls)} disjointness test(s) in the combination step, expected the candidate and its reversed twin')
    if len(calls) != 2:
        return
    gens = [enclosing(c, ast.GeneratorExp) for c in calls]
    if gens[0] is not None and gens[0] is gens[1]:
        # the same acceptance written as one expression:  if not any(isdisjoint(c, p) or isdisjoint(c_rev, p) for p in comb): extend
        gen = gens[0]
        g0 = gen.generators[0]
        comb = g0.iter.id if len(gen.generators) == 1 and isinstance(g0.iter, ast.Name) and not g0.ifs else None
        pv = g0.target.id if isinstance(g0.target, ast.Name) else None
        ctx.check('R1.acceptance', f'{s} both inside the loop over the combination', comb is not None, key(f, 'same-loop'),
                  'the two disjointness tests are not made over the paths of the combination')
        for c in calls:
            second = c.args[1].id if len(c.args) > 1 and isinstance(c.args[1], ast.Name) else None
            ctx.check('R1.acceptance', f'{site(f, c)} against every path', second == pv and pv is not None, key(f, f'every-path|{ast.unparse(c.args[0])}'),
                      f'{ast.unparse(c)} is not evaluated for every path of the combination')
        elt = gen.elt
        both = isinstance(elt, (ast.BoolOp, ast.BinOp)) and (isinstance(elt, ast.BinOp) and isinstance(elt.op, (ast.Add, ast.BitOr)) or
                                                             isinstance(elt, ast.BoolOp) and isinstance(elt.op, ast.Or)) and \
            all(any(x is c for x in (elt.values if isinstance(elt, ast.BoolOp) else [elt.left, elt.right])) for c in calls)
        anyc = getattr(gen, '_parent', None)
        is_any = isinstance(anyc, ast.Call) and getattr(anyc.func, 'id', '') == 'any' and len(anyc.args) == 1
        ctx.check('R1.acceptance', f'{site(f, gen)} no early exit', is_any, key(f, 'no-early-exit'),
                  'the paths of the combination are not all covered by one any(..) over them')
        ctx.check('R1.acceptance', f'{s} accumulated', both, key(f, 'accumulate'),
                  'the results of the disjointness tests are not accumulated into one acceptance value')
        test = enclosing(gen, ast.If)
        guard_ok = test is not None and isinstance(test.test, ast.UnaryOp) and isinstance(test.test.op, ast.Not) and test.test.operand is anyc
        outer = enclosing(test, ast.For) if test is not None else None
        ok = outer is not None and isinstance(outer.target, ast.Name) and outer.target.id == comb
        ctx.check('R1.acceptance', f'{site(f, outer) if outer is not None else s} reset per combination', ok, key(f, 'reset'),
                  'the acceptance is not decided separately for each partial combination')
        cands = {ast.unparse(c.args[0]) for c in calls}
        ext = [c for c in ast.walk(test) if isinstance(c, ast.Call) and isinstance(c.func, ast.Attribute) and c.func.attr == 'append'] if test else []
        ok = guard_ok and len(ext) == 1 and any(ast.unparse(ext[0].args[0]) == f'{comb} + [{cd}]' for cd in cands)
        appended_elsewhere = [c for c in ast.walk(outer) if isinstance(c, ast.Call) and isinstance(c.func, ast.Attribute) and
                              c.func.attr == 'append' and not any(c is x for x in ast.walk(test))] if outer is not None else []
        ctx.check('R1.acceptance', f'{s} extension only when disjoint', bool(ok) and not appended_elsewhere, key(f, 'guarded-extension'),
                  'a combination is extended by the candidate without the acceptance being established (or the extension is not the '
                  'combination plus the candidate)')
        _reversed_twin(ctx, f, s, calls, outer)
        return
    inner = [enclosing(c, ast.For) for c in calls]
    same_loop = inner[0] is inner[1] and inner[0] is not None
    ctx.check('R1.acceptance', f'{s} both inside the loop over the combination', same_loop, key(f, 'same-loop'),
              'the two disjointness tests are not made in the same loop over the paths of the combination: one direction is checked '
              'against fewer paths than the other')
    # each call must sit in a loop whose variable is its second argument
    for c in calls:
        lp = enclosing(c, ast.For)
        second = c.args[1].id if len(c.args) > 1 and isinstance(c.args[1], ast.Name) else None
        ok = lp is not None and isinstance(lp.target, ast.Name) and lp.target.id == second
        ctx.check('R1.acceptance', f'{site(f, c)} against every path', ok, key(f, f'every-path|{ast.unparse(c.args[0])}'),
                  f'{ast.unparse(c)} is not evaluated for every path of the combination (its second argument is not the variable of '
                  'the loop it sits in: outside the loop it only sees the last path)')
    lp = inner[0] if same_loop else enclosing(calls[0], ast.For)
    comb = lp.iter.id if isinstance(lp.iter, ast.Name) else None
    ctx.check('R1.acceptance', f'{site(f, lp)} no early exit', not any(isinstance(n, (ast.Break, ast.Continue, ast.Return)) for n in ast.walk(lp)),
              key(f, 'no-early-exit'), 'the loop over the combination can be left before every path was tested')
    # accumulation
    accs = set()
    for c in calls:
        st = stmt_of(f, c)
        if isinstance(st, ast.AugAssign) and isinstance(st.op, (ast.Add, ast.BitOr)) and isinstance(st.target, ast.Name):
            accs.add(st.target.id)
        elif isinstance(st, ast.Assign) and isinstance(st.targets[0], ast.Name) and st.targets[0].id in names_in(st.value):
            accs.add(st.targets[0].id)
        else:
            accs.add(None)
    ok = len(accs) == 1 and None not in accs
    ctx.check('R1.acceptance', f'{s} accumulated', ok, key(f, 'accumulate'),
              'the results of the disjointness tests are not accumulated into one acceptance value')
    if not ok:
        return
    acc = accs.pop()
    outer = enclosing(lp, ast.For)           # loop over the partial combinations
    resets = [n for n in (outer.body if outer is not None else []) if isinstance(n, ast.Assign) and isinstance(n.targets[0], ast.Name)
              and n.targets[0].id == acc and isinstance(n.value, ast.Constant) and n.value.value == 0]
    ok = outer is not None and isinstance(outer.target, ast.Name) and outer.target.id == comb and len(resets) == 1 and resets[0].lineno < lp.lineno
    ctx.check('R1.acceptance', f'{site(f, outer) if outer is not None else s} reset per combination', ok, key(f, 'reset'),
              'the acceptance value is not reset to 0 for each partial combination before testing its paths')
    # guarded extension
    g = CFG(f.node)
    tests = [n for n in (outer.body if outer is not None else []) if isinstance(n, ast.If) and isinstance(n.test, ast.Compare) and
             isinstance(n.test.left, ast.Name) and n.test.left.id == acc and isinstance(n.test.ops[0], ast.Eq) and
             isinstance(n.test.comparators[0], ast.Constant) and n.test.comparators[0].value == 0]
    ok = len(tests) == 1 and tests[0].lineno > lp.end_lineno
    ext = []
    if ok:
        ext = [c for c in ast.walk(tests[0]) if isinstance(c, ast.Call) and isinstance(c.func, ast.Attribute) and c.func.attr == 'append']
        cand = calls[0].args[0].id if isinstance(calls[0].args[0], ast.Name) else None
        cand2 = calls[1].args[0].id if isinstance(calls[1].args[0], ast.Name) else None
        # the extended copy: X = comb.copy(); X.append(candidate); new_list.append(X)
        copies = [n for n in outer.body if isinstance(n, ast.Assign) and ast.unparse(n.value) in (f'{comb}.copy()', f'list({comb})', f'{comb}[:]')]
        ok = len(ext) == 2 and len(copies) == 1 and any(ast.unparse(c.args[0]) in (cand, cand2) and
                                                        ast.unparse(c.func.value) == copies[0].targets[0].id for c in ext)
    appended_elsewhere = [c for c in ast.walk(outer) if isinstance(c, ast.Call) and isinstance(c.func, ast.Attribute) and
                          c.func.attr == 'append' and not (tests and any(c is x for x in ast.walk(tests[0])))] if outer is not None else []
    ctx.check('R1.acceptance', f'{s} extension only when disjoint', bool(ok) and not appended_elsewhere, key(f, 'guarded-extension'),
              'a combination is extended by the candidate without the acceptance value being 0 (or the extension does not copy the '
              'combination and add the candidate)')
    _reversed_twin(ctx, f, s, calls, outer)


def _reversed_twin(ctx, f, s, calls, outer):
    # the reversed twin is the same-index entry of the reversed table
    cloop = enclosing(outer, ast.For) if outer is not None else None
    ok = False
    if cloop is not None and isinstance(cloop.iter, ast.Call) and getattr(cloop.iter.func, 'id', '') == 'enumerate' and \
            isinstance(cloop.target, ast.Tuple):
        idx, cnd = [e.id for e in cloop.target.elts]
        tab = ast.unparse(cloop.iter.args[0])               # simple_rqs[elem1]
        firsts = {ast.unparse(c.args[0]) for c in calls}
        other = (firsts - {cnd})
        R = roles(f)
        if len(other) == 1 and 'all_fwd' in R:
            d = local_defs(f.node).get(other.pop(), [])
            fwd_tabs, rev_tabs = short_table_of(f, R, R['all_fwd']), short_table_of(f, R, R['all_rev'])
            if len(d) == 1 and isinstance(d[0][1], ast.Subscript):
                txt = ast.unparse(d[0][1])
                base, _, k = tab.partition('[')
                ok = base in fwd_tabs and len(rev_tabs) == 1 and txt == f'{rev_tabs[0]}[{k}[{idx}]' and cnd in firsts
    elif cloop is not None and isinstance(cloop.iter, ast.Call) and getattr(cloop.iter.func, 'id', '') == 'zip' and \
            len(cloop.iter.args) == 2 and isinstance(cloop.target, ast.Tuple) and len(cloop.target.elts) == 2 and \
            all(isinstance(e, ast.Name) for e in cloop.target.elts):
        # the same pairing written as a parallel walk: for <cand>, <twin> in zip(<fwd table>[k], <rev table>[k])
        cnd, twin = [e.id for e in cloop.target.elts]
        ta, tb = (ast.unparse(a) for a in cloop.iter.args)
        R = roles(f)
        if 'all_fwd' in R:
            fwd_tabs, rev_tabs = short_table_of(f, R, R['all_fwd']), short_table_of(f, R, R['all_rev'])
            (ba, _, ka), (bb, _, kb) = ta.partition('['), tb.partition('[')
            ok = ba in fwd_tabs and len(rev_tabs) == 1 and bb == rev_tabs[0] and ka == kb and bool(ka) and \
                {ast.unparse(c.args[0]) for c in calls} == {cnd, twin}
    ctx.check('R1.acceptance', f'{s} reversed twin', ok, key(f, 'reversed-twin'),
              'the reversed candidate tested is not the same-index entry of the reversed-path table of the same request')
    # the reversed table is built from find_reversed_path of each path, in the same order
    R = roles(f)
    ok = 'all_rev' in R and len(short_table_of(f, R, R['all_rev'])) == 1 and len(short_table_of(f, R, R['all_fwd'])) >= 1
    if ok:
        # nothing reorders one list after the twins were computed
        lp_rev = R['twin_stmt']
        later = [n for n in lp_rev._parent.body if n.lineno > lp_rev.lineno and (
            (isinstance(n, ast.Assign) and ast.unparse(n.targets[0]) in (R['all_fwd'], R['all_rev'])) or
            (isinstance(n, ast.Expr) and isinstance(n.value, ast.Call) and isinstance(n.value.func, ast.Attribute) and
             n.value.func.attr in ('sort', 'reverse', 'insert', 'pop', 'remove') and ast.unparse(n.value.func.value) in (R['all_fwd'], R['all_rev'])))]
        ok = not later
    ctx.check('R1.acceptance', f'{s} reversed table', ok, key(f, 'reversed-table'),
              'the reversed table is not find_reversed_path of every enumerated path in the same order')
    ctx.need('R1.acceptance', 10)


def r2_shrink(ctx):
    repo = ctx.repo
    f = repo.func(RQ, 'compute_path_dsjctn')
    R = roles(f)
    CAND = R.get('candidates')
    assigns = [n for n in walk_no_nested(f.node) if isinstance(n, ast.Assign) and isinstance(n.targets[0], ast.Subscript) and
               isinstance(n.targets[0].value, ast.Name) and n.targets[0].value.id == CAND]
    if not assigns:
        raise AnchorMissing('compute_path_dsjctn: candidates[...] assignments')
    assigns.sort(key=lambda n: n.lineno)
    first = assigns[0]
    for a in assigns[1:]:
        v = a.value
        k = ast.unparse(a.targets[0].slice)
        ok = False
        det = ast.unparse(a)
        if isinstance(v, ast.List) and not v.elts:
            ok = True
        elif isinstance(v, ast.Name):
            # every append to v inside the enclosing loop adds the loop variable of a loop over candidates[k]
            lp = enclosing(a, ast.For)
            apps = [c for c in ast.walk(lp) if isinstance(c, ast.Call) and isinstance(c.func, ast.Attribute) and c.func.attr == 'append'
                    and isinstance(c.func.value, ast.Name) and c.func.value.id == v.id] if lp is not None else []
            good = []
            for c in apps:
                il = enclosing(c, ast.For)
                while il is not None and not (f'{CAND}[{k}]' in ast.unparse(il.iter)):
                    il = enclosing(il, ast.For)
                var = None
                if il is not None:
                    t = il.target
                    var = t.elts[-1].id if isinstance(t, ast.Tuple) else (t.id if isinstance(t, ast.Name) else None)
                good.append(il is not None and ast.unparse(c.args[0]) == var)
            inits = [n for n in ast.walk(lp) if isinstance(n, ast.Assign) and isinstance(n.targets[0], ast.Name) and
                     n.targets[0].id == v.id] if lp is not None else []
            ok = bool(apps) and all(good) and all(isinstance(i.value, ast.List) and not i.value.elts for i in inits)
        ctx.check('R2.shrink-only', site(f, a), ok, key(f, f'shrink|{ast.unparse(a.value)}'),
                  'after the combination step a candidate set is assigned something that is not a subset of its previous value '
                  '(a combination that was never checked for disjointness could be selected)', det)
    # whole-dict reassignment only through remove_candidate
    whole = [n for n in walk_no_nested(f.node) if isinstance(n, ast.Assign) and isinstance(n.targets[0], ast.Name) and
             n.targets[0].id == CAND and n.lineno > first.lineno]
    for n in whole:
        ok = isinstance(n.value, ast.Call) and getattr(n.value.func, 'id', '') == 'remove_candidate'
        ctx.check('R2.shrink-only', site(f, n), ok, key(f, 'whole-reassign'), 'the candidate table is replaced by something other than remove_candidate(..)')
    rc = repo.func(RQ, 'remove_candidate')
    from ..pattern import find, mstmt
    muts = [c for c in walk_no_nested(rc.node) if isinstance(c, ast.Call) and isinstance(c.func, ast.Attribute) and
            c.func.attr in ('append', 'extend', 'insert', 'add')]
    ok = False
    for lp in [n for n in rc.node.body if isinstance(n, ast.For)]:
        b = mstmt(f'for V_k, V_c in {rc.params[0]}.items():\n    S_rest', ast.For(target=lp.target, iter=lp.iter, body=lp.body[:1], orelse=[]))
        if b is None:
            continue
        kk, cc = b['V_k'], b['V_c']
        cp = [x for n in lp.body for x in [mstmt(f'V_t = {cc}.copy()', n)] if x]
        if len(cp) == 1:
            tt = cp[0]['V_t']
            rm = find(f'{tt}.remove(V_s)', lp)
            ok = len(rm) == 1 and any(mstmt(f'{rc.params[0]}[{kk}] = {tt}', n) is not None for n in lp.body) and not muts
            # a combination is dropped exactly when THIS request uses another path object in it: identity, no other filter
            scan = [n for n in lp.body if isinstance(n, ast.For)]
            ok = ok and len(scan) == 1 and mstmt(
                f'for V_s in {cc}:\n    for V_p in V_s:\n        if {rc.params[1]}[id(V_p)].req.request_id == {rc.params[2]}.request_id and '
                f'id(V_p) != id({rc.params[3]}):\n            {tt}.remove(V_s)\n            break', scan[0]) is not None
    ctx.check('R2.shrink-only', site(rc), ok, key(rc, 'only-removes'), 'remove_candidate does more than remove combinations from each candidate set')
    # other mutators on candidates[...] in the main function are removes
    for c in walk_no_nested(f.node):
        if isinstance(c, ast.Call) and isinstance(c.func, ast.Attribute) and isinstance(c.func.value, ast.Subscript) and \
                ast.unparse(c.func.value.value) == CAND:
            ctx.check('R2.shrink-only', site(f, c), c.func.attr in ('remove', 'copy', 'index'), key(f, f'mutator|{c.func.attr}'),
                      f'candidates[..].{c.func.attr}(..) can add to a candidate set after the combination step')
    # selection
    sel = [n for n in walk_no_nested(f.node) if isinstance(n, ast.For) and ast.unparse(n.iter).startswith(f'{CAND}[') and
           ast.unparse(n.iter).endswith('][0]')]
    ctx.check('R2.shrink-only', f'{site(f)} selection', len(sel) == 1, key(f, 'select-first'),
              'the returned combination is not element 0 of the (checked) candidate set of the group')
    if sel:
        pv = sel[0].target.id if isinstance(sel[0].target, ast.Name) else None
        from .common import through_locals
        st = find(f"V_res[{R.get('allpaths')}[id({pv})].req] = {R.get('allpaths')}[id({pv})].pth",
                  through_locals(sel[0], local_defs(f.node), keep={pv, R.get('allpaths')}))
        ok = len(st) == 1 and 'allpaths' in R
        ctx.check('R2.shrink-only', f'{site(f, sel[0])} result mapping', ok, key(f, 'result-mapping'),
                  'the path recorded for a request is not the full path of the selected short list of that same request')
    ctx.need('R2.shrink-only', 7)      # (the trivial empty-list arm may be folded into `a or b`)


def r3_raise(ctx):
    repo = ctx.repo
    f = repo.func(RQ, 'compute_path_dsjctn')
    g = CFG(f.node)
    R = roles(f)
    CAND = R.get('candidates')
    from ..pattern import mexpr
    # the selection loop  for <p> in CAND[<group>][0]  is reached only with a non-empty candidate set, and the empty case raises
    # (guard clause or two-armed if: both read off the structure)
    sel = [(n, b) for n in walk_no_nested(f.node) if isinstance(n, ast.For) for b in [mexpr(f'{CAND}[E_k][0]', n.iter)] if b]
    ok = False
    outer = None
    if len(sel) == 1:
        n, b = sel[0]
        grp = f'{CAND}[{ast.unparse(b["E_k"])}]'
        outer = enclosing(n, ast.For)
        raises = [x for x in walk_no_nested(f.node) if isinstance(x, ast.Raise) and 'DisjunctionError' in ast.unparse(x) and
                  f'not {grp}' in holds_at(x) and enclosing(x, ast.For) is outer]
        ok = grp in holds_at(n) and len(raises) >= 1
    ctx.check('R3.must-raise', site(f), ok, key(f, 'empty-raises'),
              'an empty candidate set for a group does not raise DisjunctionError: overlapping or missing paths would be returned instead')
    # step 5 loops over all groups
    ok = outer is not None and ast.unparse(outer.iter) == R['groups'] and \
        not any(isinstance(x, (ast.Break, ast.Continue)) and enclosing(x, ast.For) is outer for x in ast.walk(outer))
    ctx.check('R3.must-raise', f'{site(f)} every group', ok,
              key(f, 'every-group'), 'the selection step does not visit every synchronisation group')
    ctx.need('R3.must-raise', 2)


def r4_cutoff(ctx):
    repo = ctx.repo
    f = repo.func(RQ, 'compute_path_dsjctn')
    cs = calls_to(f, {'all_simple_paths'})
    ok = len(cs) == 1 and isinstance(kwarg(cs[0], 'cutoff'), ast.Constant) and kwarg(cs[0], 'cutoff').value == 80
    ctx.check('R4.cutoff', site(f, cs[0]) if cs else site(f), ok, key(f, 'cutoff'),
              'candidate paths are not enumerated up to the documented cut-off of 80 elements')
    if cs:
        src, tgt = kwarg(cs[0], 'source', 1), kwarg(cs[0], 'target', 2)
        lp = enclosing(cs[0], ast.For)
        rq = lp.target.id if lp is not None and isinstance(lp.target, ast.Name) else None
        from ..pattern import mexpr
        NETW = f.params[0]
        ok = src is not None and tgt is not None and rq is not None and any(
            mexpr(pat.format(n=NETW, r=rq, a='source'), src) is not None and mexpr(pat.format(n=NETW, r=rq, a='destination'), tgt) is not None
            for pat in ('next((V_e for V_e in {n}.nodes() if V_e.uid == {r}.{a}))', 'next((V_e for V_e in {n} if V_e.uid == {r}.{a}))'))
        ctx.check('R4.cutoff', f'{site(f, cs[0])} endpoints', ok, key(f, 'endpoints'), 'candidates are not enumerated between the request endpoints')
    ctx.need('R4.cutoff', 2)


def r5_helper(ctx):
    repo = ctx.repo
    f = repo.func(RQ, 'isdisjoint')
    a, b = f.params
    defs = local_defs(f.node)
    from .common import resolved
    lp = [n for n in walk_no_nested(f.node) if isinstance(n, ast.For)]
    rets = sorted([n for n in walk_no_nested(f.node) if isinstance(n, ast.Return)], key=lambda n: n.lineno)
    ok = ok2 = False
    if len(lp) == 1 and len(rets) == 2:
        # the pairs of one path are walked, each looked up among the pairs of the other (held in locals or written in place)
        tests = [n for n in walk_no_nested(lp[0]) if isinstance(n, ast.If)]
        walked = ast.unparse(resolved(defs, lp[0].iter))
        looked = ast.unparse(resolved(defs, tests[0].test.comparators[0])) if len(tests) == 1 and isinstance(tests[0].test, ast.Compare) and \
            isinstance(tests[0].test.ops[0], ast.In) else None
        forms = {a: (f'list(pairwise({a}))', f'pairwise({a})'), b: (f'list(pairwise({b}))', f'set(pairwise({b}))', f'pairwise({b})')}
        ok = any(walked in forms[x] and looked in (f'list(pairwise({y}))', f'set(pairwise({y}))', f'tuple(pairwise({y}))')
                 for x, y in ((a, b), (b, a)))
        ok2 = ok and len(tests) == 1 and ast.unparse(tests[0].test.left) == ast.unparse(lp[0].target) and \
            any(isinstance(x, ast.Return) and isinstance(x.value, ast.Constant) and x.value.value not in (0, False, None) for x in tests[0].body) and \
            isinstance(rets[-1].value, ast.Constant) and rets[-1].value.value == 0 and enclosing(rets[-1], ast.For) is None
    if not (ok and ok2):
        # the same test as one expression: int(any(e in <pairs of one path> for e in <pairs of the other>))
        from .common import through_locals
        from ..pattern import mexpr
        rr = [n for n in walk_no_nested(f.node) if isinstance(n, ast.Return)]
        if len(rr) == 1 and rr[0].value is not None and not lp:
            v = through_locals(rr[0].value, defs, keep={a, b}, fresh_ok=True)      # only membership is asked of the list
            for x, y in ((a, b), (b, a)):
                for wrap in ('int(any((V_e in {Y} for V_e in {X})))', 'any((V_e in {Y} for V_e in {X}))', '1 if any((V_e in {Y} for V_e in {X})) else 0'):
                    for X in (f'pairwise({x})', f'list(pairwise({x}))'):
                        for Y in (f'list(pairwise({y}))', f'set(pairwise({y}))', f'tuple(pairwise({y}))'):
                            if mexpr(wrap.format(X=X, Y=Y), v) is not None:
                                ok = ok2 = True
    ctx.check('R5.helper', site(f), ok and ok2, key(f, 'isdisjoint'),
              'isdisjoint does not return non-zero exactly when a consecutive pair of one list is a consecutive pair of the other')
    g = repo.func(RQ, 'compute_path_dsjctn')
    from ..pattern import find
    comps = find('[V_e.uid for V_i, V_e in enumerate(V_p[1:-1]) if isinstance(V_e, Roadm) | isinstance(V_p[V_i], Roadm)]', g.node) + \
        find('[V_e.uid for V_i, V_e in enumerate(V_p[1:-1]) if isinstance(V_e, Roadm) or isinstance(V_p[V_i], Roadm)]', g.node)
    allc = [n for n in walk_no_nested(g.node) if isinstance(n, ast.ListComp) and 'Roadm' in ast.unparse(n)]
    def path_var_ok(n, b):
        lp = enclosing(n, ast.For)
        outer = enclosing(n, ast.ListComp)
        if outer is not None and outer.elt is n and len(outer.generators) == 1 and isinstance(outer.generators[0].target, ast.Name):
            return outer.generators[0].target.id == b['V_p']
        return lp is not None and isinstance(lp.target, ast.Name) and lp.target.id == b['V_p']
    allc = [n for n in allc if not any(isinstance(x, ast.ListComp) and x is not n and 'Roadm' in ast.unparse(x) for x in ast.walk(n))]
    ok = len(comps) == 2 and len(allc) == 2 and all(path_var_ok(n, b) for n, b in comps)
    ctx.check('R5.helper', f'{site(g)} short lists', ok, key(g, 'short-lists'),
              'the per-path short lists (direct and reversed) are not built the same way: every ROADM and the element following a ROADM')
    ctx.need('R5.helper', 2)


def r6_groups(ctx):
    repo = ctx.repo
    f = repo.func(RQ, 'deduplicate_disjunctions')
    tests = [n.test for n in walk_no_nested(f.node) if isinstance(n, ast.If)]
    ok = False
    det = ''
    for t in tests:
        det = ast.unparse(t)
        parts = t.values if isinstance(t, ast.BoolOp) and isinstance(t.op, ast.And) else [t]
        eq = [p for p in parts if isinstance(p, ast.Compare) and isinstance(p.ops[0], ast.Eq) and 'set(' in ast.unparse(p.left)
              and 'set(' in ast.unparse(p.comparators[0]) and 'disjunctions_req' in ast.unparse(p)]
        ne = [p for p in parts if isinstance(p, ast.Compare) and isinstance(p.ops[0], ast.NotEq) and 'disjunction_id' in ast.unparse(p)]
        ok = ok or (len(eq) == 1 and len(ne) == 1 and len(parts) == 2)
    ctx.check('R6.groups', site(f), ok, key(f, 'set-equality'),
              'a synchronisation group is dropped although no other group has exactly the same set of requests (e.g. a group nested in '
              'a larger one): its requests would be routed without the constraint', det)
    rem = [c for c in walk_no_nested(f.node) if isinstance(c, ast.Call) and isinstance(c.func, ast.Attribute) and c.func.attr == 'remove']
    from ..pattern import mstmt
    cps = [b['V_l'] for n in f.node.body for b in [mstmt(f'V_l = {f.params[0]}.copy()', n) or mstmt(f'V_l = list({f.params[0]})', n)] if b]
    rets = [n for n in walk_no_nested(f.node) if isinstance(n, ast.Return)]
    okc = len(cps) == 1 and len(rem) == 1 and ast.unparse(rem[0].func.value) == cps[0] and len(rets) == 1 and ast.unparse(rets[0].value) == cps[0]
    ctx.check('R6.groups', f'{site(f)} works on a copy', okc,
              key(f, 'copy'), 'de-duplication edits the caller\'s list or removes more than the duplicate')
    ctx.need('R6.groups', 2)



def r7_group_constraints(ctx):
    """R7: a combination that violates a STRICT include of any request of the group is never returned: the scan of a combination
    stops early only after a STRICT failure (shared with C11-R6)"""
    from .c11 import r6_group_constraints
    r6_group_constraints(ctx)


def rn_arg_roles(ctx):
    """Rn: a variable named like a parameter of the callee is handed to that parameter (no exchanged roles such as
    f(to_degree, from_degree) for def f(from_degree, to_degree)); calls to resolved package functions, canonical form"""
    from .common import arg_roles_rule
    from ..memo import scope_funcs
    n = arg_roles_rule(ctx, 'Rn.arg-roles', scope_funcs(ctx.repo, 'C12'), 'paths of the two requests would be exchanged')
    ctx.check('Rn.arg-roles', 'argument / parameter name scan', True, 'C12|arg-roles-scan', '', f'{n} argument(s) named like another parameter judged')


def r8_inputs(ctx):
    """R8: the groups and the route lists the search works on are the ones that were asked: disjunctions_from_json turns EVERY
    synchronization entry into a Disjunction (the append is unconditional in the loop over the entries) carrying its
    request-id-number list; STRICT / LOOSE flags stay attached to their hops when invalid hops are removed (route-list
    editing rules shared with C11-R4)"""
    from .c11 import r4_route_lists
    from .common import proxy
    repo = ctx.repo
    f = repo.func('gnpy.tools.json_io', 'disjunctions_from_json')
    lps = [n for n in walk_no_nested(f.node) if isinstance(n, ast.For) and "'synchronization'" in ast.unparse(n.iter)]
    ok = len(lps) == 1
    if ok:
        lp = lps[0]
        apps = [c for c in ast.walk(lp) if isinstance(c, ast.Call) and isinstance(c.func, ast.Attribute) and c.func.attr == 'append' and
                c.args and isinstance(c.args[0], ast.Call) and getattr(c.args[0].func, 'id', '') == 'Disjunction']
        ok = len(apps) == 1 and getattr(stmt_of(f, apps[0]), '_parent', None) is lp and \
            not any(isinstance(x, (ast.Continue, ast.Break)) for x in ast.walk(lp))
        ids = [v for d in ast.walk(lp) if isinstance(d, ast.Dict) for k, v in zip(d.keys, d.values)
               if isinstance(k, ast.Constant) and k.value == 'disjunctions_req'] + \
              [n.value for n in ast.walk(lp) if isinstance(n, ast.Assign) and "'disjunctions_req'" in ast.unparse(n.targets[0])]
        ok = ok and len(ids) == 1 and ast.unparse(ids[0]).endswith("['svec']['request-id-number']")
    ctx.check('R8.every-group', site(f), ok, key(f, 'every-group'),
              'not every synchronization entry of the request file becomes a disjunction group (with its request-id-number list): the '
              'requests of a dropped group would be routed independently and may share links')
    r4_route_lists(proxy(ctx, 'R8'))
    ctx.need('R8.every-group', 1)



def r9_reverse_pairing(ctx):
    """R9: the reversed twin of a path is found through the reverse OMS of each crossed OMS, which reversed_oms pairs on swapped end
    uids (first = other.last and last = other.first, two separate comparisons) - rule shared with C15"""
    from .c15 import r4_walk as _r
    from .common import proxy
    _r(proxy(ctx, 'R9'))


def r10_include_order(ctx):
    """R10: the include constraint of a request is tested on every path of a disjoint combination with ispart: it accepts exactly the
    paths that hold the listed nodes in order, counting positions from the first element (0) - otherwise every disjoint combination
    of a constrained request is discarded and the requests fall back to routes that share links (rule shared with C11-R5)"""
    from .c11 import r5_helpers as _r
    from .common import proxy
    _r(proxy(ctx, 'R10'))


from ..memo import rule_for as _memo_rule

RULES_MEMO = ('Rm.memo', _memo_rule('C12', 'candidates computed for another request would be reused'))


from ..presence import rule_for as _presence_rule

RULES_PRESENCE = ('Rp.presence', _presence_rule('C12', 'a legal zero would be read as missing'))

RULES = [('R1.acceptance', r1_acceptance), ('R2.shrink-only', r2_shrink), ('R3.must-raise', r3_raise), ('R4.cutoff', r4_cutoff),
         ('R5.helper', r5_helper), ('R6.groups', r6_groups), RULES_MEMO, RULES_PRESENCE, ('R7.group-constraints', r7_group_constraints), ('Rn.arg-roles', rn_arg_roles), ('R8.inputs', r8_inputs), ('R9.reversed', r9_reverse_pairing), ('R10.include-order', r10_include_order)]
