"""C12 - requests declared disjoint never share a link in either direction.

Soundness skeleton of compute_path_dsjctn (returned combinations are pairwise disjoint), as an invariant argument
whose legs are structural; completeness of the search is NOT decided.
 R1 acceptance : in step 2 a candidate is appended to a combination only when the accumulated test is 0; the test
                 accumulates isdisjoint(candidate, p) AND isdisjoint(reversed candidate, p) for EVERY path p already in
                 the combination (both calls inside the loop over the combination, which has no break / continue); the
                 reversed candidate is the same-index entry of the reversed table; the accumulator is reset per combination.
 R2 shrink-only: after step 2 the candidate sets only shrink: every later assignment to candidates[k] is built from
                 elements enumerated out of candidates[k]; remove_candidate only removes; the result is combination 0.
 R3 must raise : an empty candidate set raises DisjunctionError (never falls through to a result).
 R4 cut-off    : the enumeration cut-off is the documented 80.
 R5 helper     : isdisjoint compares consecutive pairs of both lists and returns non-zero on the first common pair;
                 the short lists keep one entry per ROADM crossing with its direction.
 R6 groups     : deduplicate_disjunctions removes a group only when another group has exactly the same request set.
"""
import ast

from ..model import AnchorMissing, CannotAnalyse, walk_no_nested
from ..cfg import CFG, fmt_path
from ..dataflow import names_in, local_defs, derives
from .common import calls_to, site, key, stmt_of, enclosing, kwarg

RQ = 'gnpy.topology.request'
EXPLANATION = (
    "Structural legs of the soundness argument for disjoint-path selection: both-direction disjointness is tested "
    "against every path of a partial combination before it is extended (loop nesting, accumulator reset, guard "
    "dominance); candidate sets only shrink after the combination step; an empty set raises; the enumeration cut-off "
    "and the link-pair comparison helper; group de-duplication on set equality. Completeness (a solution is found "
    "whenever one exists), consistency across overlapping groups and that ROADM short lists identify links for every "
    "topology are not decided."
)
ASSUMPTIONS = ["networkx.all_simple_paths enumerates simple paths up to the cut-off", "pairwise yields consecutive pairs"]
RULE_TEXT = ("sites: the isdisjoint calls and the extension of combinations in step 2; each later assignment to a candidate set; "
             "the result selection; the raise; the cut-off; isdisjoint; deduplicate_disjunctions")


def r1_acceptance(ctx):
    repo = ctx.repo
    f = repo.func(RQ, 'compute_path_dsjctn')
    iso = repo.func(RQ, 'isdisjoint')
    calls = [c for c in calls_to(f, {'isdisjoint'}) if repo.resolve_call(f, c) is iso]
    s = site(f)
    ctx.check('R1.acceptance', f'{s} two directions tested', len(calls) == 2, key(f, 'two-calls'),
              f'{len(calls)} disjointness test(s) in the combination step, expected the candidate and its reversed twin')
    if len(calls) != 2:
        return
    inner = [enclosing(c, ast.For) for c in calls]
    same_loop = inner[0] is inner[1] and inner[0] is not None
    ctx.check('R1.acceptance', f'{s} both inside the loop over the combination', same_loop, key(f, 'same-loop'),
              'the two disjointness tests are not made in the same loop over the paths of the combination: one direction is checked '
              'against fewer paths than the other')
    # each call must sit in a loop whose variable is its second argument
    for c in calls:
        lp = enclosing(c, ast.For)
        second = c.args[1].id if len(c.args) > 1 and isinstance(c.args[1], ast.Name) else None
        ok = lp is not None and isinstance(lp.target, ast.Name) and lp.target.id == second
        ctx.check('R1.acceptance', f'{site(f, c)} against every path', ok, key(f, f'every-path|{ast.unparse(c.args[0])}'),
                  f'{ast.unparse(c)} is not evaluated for every path of the combination (its second argument is not the variable of '
                  'the loop it sits in: outside the loop it only sees the last path)')
    lp = inner[0] if same_loop else enclosing(calls[0], ast.For)
    comb = lp.iter.id if isinstance(lp.iter, ast.Name) else None
    ctx.check('R1.acceptance', f'{site(f, lp)} no early exit', not any(isinstance(n, (ast.Break, ast.Continue, ast.Return)) for n in ast.walk(lp)),
              key(f, 'no-early-exit'), 'the loop over the combination can be left before every path was tested')
    # accumulation
    accs = set()
    for c in calls:
        st = stmt_of(f, c)
        if isinstance(st, ast.AugAssign) and isinstance(st.op, (ast.Add, ast.BitOr)) and isinstance(st.target, ast.Name):
            accs.add(st.target.id)
        elif isinstance(st, ast.Assign) and isinstance(st.targets[0], ast.Name) and st.targets[0].id in names_in(st.value):
            accs.add(st.targets[0].id)
        else:
            accs.add(None)
    ok = len(accs) == 1 and None not in accs
    ctx.check('R1.acceptance', f'{s} accumulated', ok, key(f, 'accumulate'),
              'the results of the disjointness tests are not accumulated into one acceptance value')
    if not ok:
        return
    acc = accs.pop()
    outer = enclosing(lp, ast.For)           # loop over the partial combinations
    resets = [n for n in (outer.body if outer is not None else []) if isinstance(n, ast.Assign) and isinstance(n.targets[0], ast.Name)
              and n.targets[0].id == acc and isinstance(n.value, ast.Constant) and n.value.value == 0]
    ok = outer is not None and isinstance(outer.target, ast.Name) and outer.target.id == comb and len(resets) == 1 and resets[0].lineno < lp.lineno
    ctx.check('R1.acceptance', f'{site(f, outer) if outer is not None else s} reset per combination', ok, key(f, 'reset'),
              'the acceptance value is not reset to 0 for each partial combination before testing its paths')
    # guarded extension
    g = CFG(f.node)
    tests = [n for n in (outer.body if outer is not None else []) if isinstance(n, ast.If) and isinstance(n.test, ast.Compare) and
             isinstance(n.test.left, ast.Name) and n.test.left.id == acc and isinstance(n.test.ops[0], ast.Eq) and
             isinstance(n.test.comparators[0], ast.Constant) and n.test.comparators[0].value == 0]
    ok = len(tests) == 1 and tests[0].lineno > lp.end_lineno
    ext = []
    if ok:
        ext = [c for c in ast.walk(tests[0]) if isinstance(c, ast.Call) and isinstance(c.func, ast.Attribute) and c.func.attr == 'append']
        cand = calls[0].args[0].id if isinstance(calls[0].args[0], ast.Name) else None
        cand2 = calls[1].args[0].id if isinstance(calls[1].args[0], ast.Name) else None
        # the extended copy: X = comb.copy(); X.append(candidate); new_list.append(X)
        copies = [n for n in outer.body if isinstance(n, ast.Assign) and ast.unparse(n.value) in (f'{comb}.copy()', f'list({comb})', f'{comb}[:]')]
        ok = len(ext) == 2 and len(copies) == 1 and any(ast.unparse(c.args[0]) in (cand, cand2) and
                                                        ast.unparse(c.func.value) == copies[0].targets[0].id for c in ext)
    appended_elsewhere = [c for c in ast.walk(outer) if isinstance(c, ast.Call) and isinstance(c.func, ast.Attribute) and
                          c.func.attr == 'append' and not (tests and any(c is x for x in ast.walk(tests[0])))] if outer is not None else []
    ctx.check('R1.acceptance', f'{s} extension only when disjoint', bool(ok) and not appended_elsewhere, key(f, 'guarded-extension'),
              'a combination is extended by the candidate without the acceptance value being 0 (or the extension does not copy the '
              'combination and add the candidate)')
    # the reversed twin is the same-index entry of the reversed table
    cloop = enclosing(outer, ast.For) if outer is not None else None
    ok = False
    if cloop is not None and isinstance(cloop.iter, ast.Call) and getattr(cloop.iter.func, 'id', '') == 'enumerate' and \
            isinstance(cloop.target, ast.Tuple):
        idx, cnd = [e.id for e in cloop.target.elts]
        tab = ast.unparse(cloop.iter.args[0])               # simple_rqs[elem1]
        firsts = {ast.unparse(c.args[0]) for c in calls}
        other = (firsts - {cnd})
        if len(other) == 1:
            d = local_defs(f.node).get(other.pop(), [])
            if len(d) == 1 and isinstance(d[0][1], ast.Subscript):
                txt = ast.unparse(d[0][1])
                base, _, k = tab.partition('[')
                ok = txt.endswith(f'[{idx}]') and txt.startswith(base + '_reversed[' + k) and cnd in firsts
    ctx.check('R1.acceptance', f'{s} reversed twin', ok, key(f, 'reversed-twin'),
              'the reversed candidate tested is not the same-index entry of the reversed-path table of the same request')
    # the reversed table is built from find_reversed_path of each path, in the same order
    txt = ast.unparse(f.node)
    ok = 'all_simp_pths_reversed.append(find_reversed_path(pth))' in txt
    ctx.check('R1.acceptance', f'{s} reversed table', ok, key(f, 'reversed-table'),
              'the reversed table is not find_reversed_path of every enumerated path in the same order')
    ctx.need('R1.acceptance', 10)


def r2_shrink(ctx):
    repo = ctx.repo
    f = repo.func(RQ, 'compute_path_dsjctn')
    assigns = [n for n in walk_no_nested(f.node) if isinstance(n, ast.Assign) and isinstance(n.targets[0], ast.Subscript) and
               isinstance(n.targets[0].value, ast.Name) and n.targets[0].value.id == 'candidates']
    if not assigns:
        raise AnchorMissing('compute_path_dsjctn: candidates[...] assignments')
    assigns.sort(key=lambda n: n.lineno)
    first = assigns[0]
    for a in assigns[1:]:
        v = a.value
        k = ast.unparse(a.targets[0].slice)
        ok = False
        det = ast.unparse(a)
        if isinstance(v, ast.List) and not v.elts:
            ok = True
        elif isinstance(v, ast.Name):
            # every append to v inside the enclosing loop adds the loop variable of a loop over candidates[k]
            lp = enclosing(a, ast.For)
            apps = [c for c in ast.walk(lp) if isinstance(c, ast.Call) and isinstance(c.func, ast.Attribute) and c.func.attr == 'append'
                    and isinstance(c.func.value, ast.Name) and c.func.value.id == v.id] if lp is not None else []
            good = []
            for c in apps:
                il = enclosing(c, ast.For)
                while il is not None and not (f'candidates[{k}]' in ast.unparse(il.iter)):
                    il = enclosing(il, ast.For)
                var = None
                if il is not None:
                    t = il.target
                    var = t.elts[-1].id if isinstance(t, ast.Tuple) else (t.id if isinstance(t, ast.Name) else None)
                good.append(il is not None and ast.unparse(c.args[0]) == var)
            inits = [n for n in ast.walk(lp) if isinstance(n, ast.Assign) and isinstance(n.targets[0], ast.Name) and
                     n.targets[0].id == v.id] if lp is not None else []
            ok = bool(apps) and all(good) and all(isinstance(i.value, ast.List) and not i.value.elts for i in inits)
        ctx.check('R2.shrink-only', site(f, a), ok, key(f, f'shrink|{ast.unparse(a.value)}'),
                  'after the combination step a candidate set is assigned something that is not a subset of its previous value '
                  '(a combination that was never checked for disjointness could be selected)', det)
    # whole-dict reassignment only through remove_candidate
    whole = [n for n in walk_no_nested(f.node) if isinstance(n, ast.Assign) and isinstance(n.targets[0], ast.Name) and
             n.targets[0].id == 'candidates' and n.lineno > first.lineno]
    for n in whole:
        ok = isinstance(n.value, ast.Call) and getattr(n.value.func, 'id', '') == 'remove_candidate'
        ctx.check('R2.shrink-only', site(f, n), ok, key(f, 'whole-reassign'), 'the candidate table is replaced by something other than remove_candidate(..)')
    rc = repo.func(RQ, 'remove_candidate')
    txt = ast.unparse(rc.node)
    muts = [c for c in walk_no_nested(rc.node) if isinstance(c, ast.Call) and isinstance(c.func, ast.Attribute) and
            c.func.attr in ('append', 'extend', 'insert', 'add')]
    ok = 'temp = candidate.copy()' in txt and 'temp.remove(sol)' in txt and 'candidates[key] = temp' in txt and not muts
    ctx.check('R2.shrink-only', site(rc), ok, key(rc, 'only-removes'), 'remove_candidate does more than remove combinations from each candidate set')
    # other mutators on candidates[...] in the main function are removes
    for c in walk_no_nested(f.node):
        if isinstance(c, ast.Call) and isinstance(c.func, ast.Attribute) and isinstance(c.func.value, ast.Subscript) and \
                ast.unparse(c.func.value.value) == 'candidates':
            ctx.check('R2.shrink-only', site(f, c), c.func.attr in ('remove', 'copy', 'index'), key(f, f'mutator|{c.func.attr}'),
                      f'candidates[..].{c.func.attr}(..) can add to a candidate set after the combination step')
    # selection
    sel = [n for n in walk_no_nested(f.node) if isinstance(n, ast.For) and ast.unparse(n.iter).startswith('candidates[') and
           ast.unparse(n.iter).endswith('][0]')]
    ctx.check('R2.shrink-only', f'{site(f)} selection', len(sel) == 1, key(f, 'select-first'),
              'the returned combination is not element 0 of the (checked) candidate set of the group')
    if sel:
        st = [n for n in ast.walk(sel[0]) if isinstance(n, ast.Assign) and ast.unparse(n.targets[0]).startswith('pathreslist_disjoint[')]
        ok = len(st) == 1 and ast.unparse(st[0].value) == 'allpaths[id(pth)].pth' and 'allpaths[id(pth)].req' in ast.unparse(st[0].targets[0])
        ctx.check('R2.shrink-only', f'{site(f, sel[0])} result mapping', ok, key(f, 'result-mapping'),
                  'the path recorded for a request is not the full path of the selected short list of that same request')
    ctx.need('R2.shrink-only', 8)


def r3_raise(ctx):
    repo = ctx.repo
    f = repo.func(RQ, 'compute_path_dsjctn')
    g = CFG(f.node)
    sel = [n for n in walk_no_nested(f.node) if isinstance(n, ast.If) and ast.unparse(n.test).startswith('candidates[')]
    ok = False
    for n in sel:
        if n.orelse and any(isinstance(x, ast.Raise) and 'DisjunctionError' in ast.unparse(x) for x in n.orelse) and \
                any(isinstance(x, ast.For) for x in n.body):
            ok = True
    ctx.check('R3.must-raise', site(f), ok, key(f, 'empty-raises'),
              'an empty candidate set for a group does not raise DisjunctionError: overlapping or missing paths would be returned instead')
    # step 5 loops over all groups
    lp = [n for n in walk_no_nested(f.node) if isinstance(n, ast.For) and ast.unparse(n.iter) == 'disjunctions_list' and
          any(isinstance(x, ast.If) and ast.unparse(x.test).startswith('candidates[') for x in n.body)]
    ctx.check('R3.must-raise', f'{site(f)} every group', len(lp) == 1 and not any(isinstance(x, (ast.Break, ast.Continue)) for x in ast.walk(lp[0])),
              key(f, 'every-group'), 'the selection step does not visit every synchronisation group')
    ctx.need('R3.must-raise', 2)


def r4_cutoff(ctx):
    repo = ctx.repo
    f = repo.func(RQ, 'compute_path_dsjctn')
    cs = calls_to(f, {'all_simple_paths'})
    ok = len(cs) == 1 and isinstance(kwarg(cs[0], 'cutoff'), ast.Constant) and kwarg(cs[0], 'cutoff').value == 80
    ctx.check('R4.cutoff', site(f, cs[0]) if cs else site(f), ok, key(f, 'cutoff'),
              'candidate paths are not enumerated up to the documented cut-off of 80 elements')
    if cs:
        src, tgt = kwarg(cs[0], 'source', 1), kwarg(cs[0], 'target', 2)
        ok = src is not None and 'pathreq.source' in ast.unparse(src) and tgt is not None and 'pathreq.destination' in ast.unparse(tgt)
        ctx.check('R4.cutoff', f'{site(f, cs[0])} endpoints', ok, key(f, 'endpoints'), 'candidates are not enumerated between the request endpoints')
    ctx.need('R4.cutoff', 2)


def r5_helper(ctx):
    repo = ctx.repo
    f = repo.func(RQ, 'isdisjoint')
    a, b = f.params
    defs = local_defs(f.node)
    pw = {nm: v for nm, d in defs.items() for _, v in d if isinstance(v, ast.AST) and 'pairwise(' in ast.unparse(v)}
    ok = {ast.unparse(v) for v in pw.values()} == {f'list(pairwise({a}))', f'list(pairwise({b}))'}
    lp = [n for n in walk_no_nested(f.node) if isinstance(n, ast.For)]
    rets = sorted([n for n in walk_no_nested(f.node) if isinstance(n, ast.Return)], key=lambda n: n.lineno)
    ok2 = False
    if ok and len(lp) == 1 and len(rets) == 2:
        e1 = [k for k, v in pw.items() if a in ast.unparse(v)][0]
        e2 = [k for k, v in pw.items() if b in ast.unparse(v)][0]
        tests = [n for n in walk_no_nested(lp[0]) if isinstance(n, ast.If)]
        ok2 = ast.unparse(lp[0].iter) in (e1, e2) and len(tests) == 1 and isinstance(tests[0].test, ast.Compare) and \
            isinstance(tests[0].test.ops[0], ast.In) and ast.unparse(tests[0].test.comparators[0]) in (e1, e2) and \
            ast.unparse(tests[0].test.comparators[0]) != ast.unparse(lp[0].iter) and \
            any(isinstance(x, ast.Return) and isinstance(x.value, ast.Constant) and x.value.value not in (0, False, None) for x in tests[0].body) and \
            isinstance(rets[-1].value, ast.Constant) and rets[-1].value.value == 0 and enclosing(rets[-1], ast.For) is None
    ctx.check('R5.helper', site(f), ok and ok2, key(f, 'isdisjoint'),
              'isdisjoint does not return non-zero exactly when a consecutive pair of one list is a consecutive pair of the other')
    g = repo.func(RQ, 'compute_path_dsjctn')
    comps = [n for n in walk_no_nested(g.node) if isinstance(n, ast.ListComp) and 'isinstance(e, Roadm)' in ast.unparse(n)]
    ok = len(comps) == 2 and all('enumerate(pth[1:-1])' in ast.unparse(c) and 'isinstance(pth[i], Roadm)' in ast.unparse(c) and
                                 ast.unparse(c.elt) == 'e.uid' for c in comps)
    ctx.check('R5.helper', f'{site(g)} short lists', ok, key(g, 'short-lists'),
              'the per-path short lists (direct and reversed) are not built the same way: every ROADM and the element following a ROADM')
    ctx.need('R5.helper', 2)


def r6_groups(ctx):
    repo = ctx.repo
    f = repo.func(RQ, 'deduplicate_disjunctions')
    tests = [n.test for n in walk_no_nested(f.node) if isinstance(n, ast.If)]
    ok = False
    det = ''
    for t in tests:
        det = ast.unparse(t)
        parts = t.values if isinstance(t, ast.BoolOp) and isinstance(t.op, ast.And) else [t]
        eq = [p for p in parts if isinstance(p, ast.Compare) and isinstance(p.ops[0], ast.Eq) and 'set(' in ast.unparse(p.left)
              and 'set(' in ast.unparse(p.comparators[0]) and 'disjunctions_req' in ast.unparse(p)]
        ne = [p for p in parts if isinstance(p, ast.Compare) and isinstance(p.ops[0], ast.NotEq) and 'disjunction_id' in ast.unparse(p)]
        ok = ok or (len(eq) == 1 and len(ne) == 1 and len(parts) == 2)
    ctx.check('R6.groups', site(f), ok, key(f, 'set-equality'),
              'a synchronisation group is dropped although no other group has exactly the same set of requests (e.g. a group nested in '
              'a larger one): its requests would be routed without the constraint', det)
    rem = [c for c in walk_no_nested(f.node) if isinstance(c, ast.Call) and isinstance(c.func, ast.Attribute) and c.func.attr == 'remove']
    ctx.check('R6.groups', f'{site(f)} works on a copy', 'local_disjn = disjn.copy()' in ast.unparse(f.node) and len(rem) == 1,
              key(f, 'copy'), 'de-duplication edits the caller\'s list or removes more than the duplicate')
    ctx.need('R6.groups', 2)


RULES = [('R1.acceptance', r1_acceptance), ('R2.shrink-only', r2_shrink), ('R3.must-raise', r3_raise), ('R4.cutoff', r4_cutoff),
         ('R5.helper', r5_helper), ('R6.groups', r6_groups)]
