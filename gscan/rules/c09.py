"""C09 - designed gains close the power budget and follow the documented power rule.

 R1 budget relation : compute_gain_power_and_tilt_target: in both modes
                        gain - dp = loss(previous span) + deviation - prev_dp + prev_voa + in_voa;
                      dp = target_power(next node) + own out_voa when the operator set no offset, else the operator's
                      offset; gain mode keeps the operator's gain; power_target = pref_total_db + dp.
 R2 power rule      : target_power = 0 before a ROADM, else
                        min(hi, max(lo, round2float((span_loss + deviation - span_loss_ref) * slope, step)))
                      with (lo, hi, step) = delta_power_range_db.
 R3 saturation      : set_one_amplifier reduces dp and gain by the same
                        min(0, p_max - (pref_total_db + dp))                                         (power mode)
                        min(0, p_max - (pref_total_db + prev_dp - loss - prev_voa + gain))            (gain mode)
                      computed on TOTAL design power; auto-selected models use select_edfa's reduction; the stored
                      effective_gain / delta_p / _delta_p are those values; the function returns (dp, voa) with voa the
                      operator-set output VOA used in R1.
 R4 VOA             : set_amplifier_voa adds the same optimised voa to delta_p and effective_gain, only when out_voa is
                      unset and power mode with out_voa_auto:
                        voa = max(round2float(min(p_max - power_target, gain_flatmax - gain), step) - margin, 0).
 R6 span loss       : span_loss = (own loss if passive + losses of all fused predecessors and successors) - Raman gain
                      estimated for the same elements, cached in design_span_loss.
 R5 chaining        : in set_egress_amplifier the (dp, voa) returned for one amplifier are what the next one receives as
                      (prev_dp, prev_voa); the walk starts from the ROADM/transceiver output target.
 Rm memo          : every memoisation construct in the functions behind this property is keyed by everything it reads.
 Rp presence      : optional numeric fields are tested with `is None` / membership, never by truthiness (0 is a value).
 Rv verbose       : blocks guarded by the verbose flag only report; the design does not depend on the logging flag.
 Re for-each      : loops that act on every item are never left early (break / return).
 R7 selected budget: power reduction of the SELECTED model; cached span loss includes the padding (shared with C10-R3, C17-R6).
 Rn arg roles     : a variable named like a parameter of the callee is handed to that parameter (no exchanged roles).
 R8 design helpers: span walk class pairs (shared with C08-R7); dual-stage composite p_max / gain (shared with C04-R9).
 Rz sentinel      : fields defaulted when None are None when absent from the input (loader .get without another default).
 R9 ROADM input  : upstream walk sums losses; upstream ROADM target read for the degree the walk came from.
 R10 targets/budget : unconfigured-degree test over all three tables (shared with C06); Fiber.loss budget (shared with C05).
"""
import ast

from ..model import AnchorMissing, CannotAnalyse, walk_no_nested
from ..poly import Rat, C, mk_atom, lem_min, lem_max, restrict, gamma_conds, fn, subst
from ..vg import Evaluator, vkey, atoms_of, Const
from .common import calls_to, site, key, stmt_of, enclosing, kwarg, resolved, iter_value
from ..dataflow import names_in, local_defs

NW = 'gnpy.core.network'
EXPLANATION = (
    "Value graphs (gated SSA, rational normal form, min/max through |x|) of compute_gain_power_and_tilt_target, "
    "target_power, set_one_amplifier and set_amplifier_voa are compared, arm by arm, with the documented design rule: "
    "the gain/offset budget relation in both modes, the slope rule with rounding before clamping, the saturation "
    "reduction on total design power in both modes, the VOA optimisation; the chaining of (dp, voa) between "
    "consecutive amplifiers in set_egress_amplifier is checked structurally. Not decided: that propagating the design "
    "comb reproduces these powers (composition with C04-C06 plus accumulated noise), span_loss with Raman estimation."
)
ASSUMPTIONS = ["round2float uninterpreted (identical on both sides)", "span_loss / select_edfa uninterpreted here (C08/C10)"]
RULE_TEXT = ("sites: the return tuple of compute_gain_power_and_tilt_target per mode arm; return of target_power; state "
             "before/after the VOA step of set_one_amplifier per arm; exit state of set_amplifier_voa per arm; each "
             "set_one_amplifier call of set_egress_amplifier")


def fld(p):
    return Rat.of(mk_atom('fld', p))


def pick(conds, *words):
    c = [x for x in conds if all(w in x for w in words)]
    if len(c) != 1:
        raise CannotAnalyse(f'expected exactly one condition mentioning {words}, found {c}')
    return c[0]


def r1_budget(ctx):
    repo = ctx.repo
    f = repo.func(NW, 'compute_gain_power_and_tilt_target')
    ev = Evaluator(repo, f, no_inline={'span_loss', 'target_power'}).run_function()
    r = ev.ret()
    if not (isinstance(r, tuple) and len(r) == 6):
        raise CannotAnalyse('compute_gain_power_and_tilt_target does not return a 6-tuple')
    gain, ptarget, tilt, dp, voa, nloss = r
    conds = set()
    for x in r:
        conds |= gamma_conds(x)
    c_mode = pick(conds, 'power_mode')
    c_dp = pick(conds, 'operational.delta_p')
    c_inv = pick(conds, 'node.in_voa')
    c_ov = pick(conds, 'node.out_voa')
    sl = [c for c in ev.calls if c.name == 'span_loss']
    tp = [c for c in ev.calls if c.name == 'target_power']
    if len(sl) != 1 or len(tp) != 1:
        raise AnchorMissing('compute_gain_power_and_tilt_target: span_loss / target_power call')
    s = site(f)
    P = {p: Rat.sym(p) for p in f.params}
    ok = len(sl[0].args) >= 2 and isinstance(sl[0].args[1], Rat) and sl[0].args[1].eq(P['prev_node'])
    ctx.check('R1.budget', f'{s} loss of the previous span', ok and isinstance(nloss, Rat) and nloss.single_atom() is not None and
              'span_loss' in nloss.single_atom().name, key(f, 'loss-prev'),
              'node_loss is not span_loss(network, prev_node, equipment)', vkey(nloss)[:160])
    ok = len(tp[0].args) >= 4 and tp[0].args[1].eq(P['next_node']) and tp[0].args[3].eq(P['deviation_db'])
    ctx.check('R1.budget', f'{s} target of the next span', ok, key(f, 'target-next'),
              'the automatic offset is not target_power(network, next_node, equipment, deviation_db)')
    TP = Rat.of(mk_atom('fn', f'call:{NW}.target_power', ev.argkeys(tp[0].args, tp[0].kwargs)))
    opdp = fld('node.operational.delta_p')
    for inv in (True, False):
        invv = fld('node.in_voa') if inv else C(0)
        for mode in (True, False):
            for auto in (True, False):
                for ov in (True, False):
                    a = {c_mode: mode, c_dp: auto, c_inv: inv, c_ov: ov}
                    g, d = restrict(gain, a), restrict(dp, a)
                    label = f'{"power" if mode else "gain"} mode, {"auto" if auto else "operator"} offset, in_voa {"set" if inv else "0"}, out_voa {"set" if ov else "0"}'
                    want = nloss + P['deviation_db'] - P['prev_dp'] + P['prev_voa'] + invv
                    ctx.check('R1.budget', f'{s} [{label}] relation', isinstance(g, Rat) and isinstance(d, Rat) and (g - d).eq(want),
                              key(f, f'relation|{mode}|{auto}|{inv}|{ov}'),
                              'gain - dp is not loss since the previous amplifier + deviation - prev_dp + prev_voa + in_voa: the '
                              'reference channel would not leave this amplifier at reference power + its offset',
                              f'gain - dp = {vkey(g - d)[:200] if isinstance(g, Rat) and isinstance(d, Rat) else "?"}')
                    if mode:
                        ovv = fld('node.out_voa') if ov else C(0)
                        wd = (TP + ovv) if auto else opdp
                        ctx.check('R1.budget', f'{s} [{label}] offset', isinstance(d, Rat) and d.eq(wd), key(f, f'dp|{auto}|{inv}|{ov}'),
                                  'dp is not (documented rule for the next span + own output VOA) when the operator set none, '
                                  'or the operator-set offset otherwise', vkey(d)[:160])
                    else:
                        ctx.check('R1.budget', f'{s} [{label}] operator gain kept', isinstance(g, Rat) and g.eq(fld('node.effective_gain')),
                                  key(f, f'gain-kept|{auto}|{inv}|{ov}'), 'gain mode does not keep the operator-set gain', vkey(g)[:120])
    ctx.check('R1.budget', f'{s} power target', isinstance(ptarget, Rat) and ptarget.eq(P['pref_total_db'] + dp), key(f, 'power-target'),
              'power_target is not pref_total_db + dp (total design power)', vkey(ptarget)[:160])
    ctx.check('R1.budget', f'{s} mode test', c_mode.startswith('or(isnone(node.effective_gain)'), key(f, 'mode-test'),
              'gain mode is not "operator gain present and not power mode"', c_mode)
    ctx.need('R1.budget', 30)


def r2_rule(ctx):
    repo = ctx.repo
    f = repo.func(NW, 'target_power')
    ev = Evaluator(repo, f, no_inline={'span_loss', 'round2float'}).run_function()
    outs = [(pc, v) for pc, v, _ in ev.outcomes]
    s = site(f)
    roadm = [v for pc, v in outs if pc and pc[-1][0].startswith('isinstance(node,') and 'Roadm' in pc[-1][0] and pc[-1][1]]
    ctx.check('R2.rule', f'{s} before a ROADM', len(roadm) == 1 and isinstance(roadm[0], Rat) and roadm[0].is_zero(), key(f, 'roadm-zero'),
              'the offset before a ROADM is not 0')
    rest = [v for pc, v in outs if isinstance(v, Rat) and not (pc and pc[-1][1] and 'Roadm' in pc[-1][0])]
    sl = [c for c in ev.calls if c.name == 'span_loss']
    rf = [c for c in ev.calls if c.name == 'round2float']
    ok = False
    det = ''
    if rest and sl and rf:
        v = rest[-1]
        det = vkey(v)[:300]
        span = "sub(sub(equipment,\"'Span'\"),\"'default'\")"
        rng = lambda i: Rat.of(mk_atom('fn', 'sub', (Rat.of(mk_atom('fn', 'attr', (_eqspan(), 'delta_power_range_db'))), str(i))))
        X = rf[0].args[0]
        SL = Rat.of(mk_atom('fn', f'call:{NW}.span_loss', ev.argkeys(sl[0].args, sl[0].kwargs)))
        wantX = (SL + Rat.sym('deviation_db') - Rat.of(mk_atom('fn', 'attr', (_eqspan(), 'span_loss_ref')))) * \
            Rat.of(mk_atom('fn', 'attr', (_eqspan(), 'power_slope')))
        R = Rat.of(mk_atom('fn', f'call:gnpy.core.utils.round2float', ev.argkeys(rf[0].args, rf[0].kwargs)))
        # list(...) of the range is the identity
        lo, hi, step = rng(0), rng(1), rng(2)
        want = lem_min(hi, lem_max(lo, R))
        ok = isinstance(X, Rat) and X.eq(wantX) and rf[0].args[1].eq(step) and v.eq(want) and \
            sl[0].args[1].eq(Rat.sym('node'))
    ctx.check('R2.rule', f'{s} slope rule', ok, key(f, 'slope-rule'),
              'the automatic offset is not clamp(round2float((span_loss + deviation - span_loss_ref) * power_slope, step), lo, hi) '
              'with (lo, hi, step) = delta_power_range_db (rounded first, then clamped)', det)
    ctx.need('R2.rule', 2)


def _eqspan():
    e = Rat.sym('equipment')
    a = Rat.of(mk_atom('fn', 'sub', (e, "'Span'")))
    return Rat.of(mk_atom('fn', 'sub', (a, "'default'")))


def r3_saturation(ctx):
    repo = ctx.repo
    f = repo.func(NW, 'set_one_amplifier')
    vcalls = calls_to(f, {'set_amplifier_voa'})
    if len(vcalls) != 1:
        raise AnchorMissing('set_one_amplifier: set_amplifier_voa call')
    vst = stmt_of(f, vcalls[0])
    ev = Evaluator(repo, f, no_inline={'compute_gain_power_and_tilt_target', 'select_edfa', 'set_amplifier_voa', 'update_params'},
                   watch=[vst]).run_function()
    st = ev.snap.get(id(vst))
    if st is None:
        raise CannotAnalyse('state before the VOA step not captured')
    cg = [c for c in ev.calls if c.name == 'compute_gain_power_and_tilt_target']
    se = [c for c in ev.calls if c.name == 'select_edfa']
    if len(cg) != 1 or len(se) != 1:
        raise AnchorMissing('set_one_amplifier: compute_gain_power_and_tilt_target / select_edfa call')
    T = Rat.of(mk_atom('fn', f'call:{NW}.compute_gain_power_and_tilt_target', ev.argkeys(cg[0].args, cg[0].kwargs)))
    item = lambda t, i: fn('item', t, C(i))
    G, PT, TILT, DP, VOA, NL = (item(T, i) for i in range(6))
    SE = Rat.of(mk_atom('fn', f'call:{NW}.select_edfa', ev.argkeys(se[0].args, se[0].kwargs)))
    PR = item(SE, 1)
    P = {p: Rat.sym(p) for p in f.params}
    # arguments handed to compute_gain_power_and_tilt_target are the function's own, by name
    callee = repo.func(NW, 'compute_gain_power_and_tilt_target')
    okargs = all(isinstance(a, Rat) and a.eq(Rat.sym(p)) for a, p in zip(cg[0].args, callee.params))
    ctx.check('R3.saturation', f'{site(f, cg[0].node)} arguments', okargs and len(cg[0].args) == len(callee.params), key(f, 'cg-args'),
              'compute_gain_power_and_tilt_target is not called with the amplifier\'s own (node, prev_node, next_node, power_mode, '
              'prev_voa, prev_dp, pref_total_db, network, equipment, deviation_db, tilt_target)')
    eg = st.store.get('node.effective_gain')
    dpv = st.store.get('node.delta_p')
    conds = gamma_conds(eg) | (gamma_conds(dpv) if isinstance(dpv, Rat) else set())
    c_tv = pick(conds, 'type_variety')
    c_pm = pick(conds, 'truth(power_mode)')
    pmax = None
    for k in atoms_of(eg):
        if k.endswith(",'p_max')"):
            pmax = Rat.of(atoms_of(eg)[k])
    if pmax is None:
        ctx.bad('R3.saturation', site(f), key(f, 'no-pmax'), 'set_one_amplifier no longer checks the design power against p_max')
        return
    ctx.check('R3.saturation', f'{site(f)} p_max of the imposed model', "'Edfa'" in pmax.key() and 'node.params.type_variety' in pmax.key(),
              key(f, 'pmax-source'), 'p_max is not read from the library entry of the imposed amplifier model', pmax.key()[:160])
    arms = {
        'imposed model, power mode': ({c_tv: False, c_pm: True}, lem_min(C(0), pmax - (P['pref_total_db'] + DP))),
        'imposed model, gain mode': ({c_tv: False, c_pm: False},
                                     lem_min(C(0), pmax - (P['pref_total_db'] + P['prev_dp'] - NL - P['prev_voa'] + G))),
        'auto-selected model': ({c_tv: True}, PR),
    }
    ret = ev.ret()
    for label, (assume, red) in arms.items():
        for pm in ((True, False) if c_pm not in assume else (assume[c_pm],)):
            a = dict(assume)
            a[c_pm] = pm
            lab = label if c_pm in assume else f'{label}, {"power" if pm else "gain"} mode'
            e = restrict(eg, a)
            s = f'{site(f)} [{lab}]'
            ctx.check('R3.saturation', f'{s} gain', isinstance(e, Rat) and e.eq(G + red), key(f, f'gain|{lab}'),
                      'the designed gain is not the budget gain reduced by exactly the saturation excess of TOTAL design power '
                      '(min(0, p_max - total power out))', f'effective_gain = {vkey(e)[:260]}')
            d = restrict(dpv, a) if isinstance(dpv, Rat) else dpv
            if pm:
                ctx.check('R3.saturation', f'{s} offset', isinstance(d, Rat) and d.eq(DP + red), key(f, f'dp|{lab}'),
                          'delta_p is not reduced by the same amount as the gain', f'delta_p = {vkey(d)[:200]}')
            else:
                isnone = (isinstance(d, Const) and d.v is None) or (isinstance(d, Rat) and 'const:None' in d.key())
                ctx.check('R3.saturation', f'{s} offset', isnone, key(f, f'dp|{lab}'), 'delta_p is not None in gain mode', vkey(d)[:80])
            if isinstance(ret, tuple) and len(ret) == 2:
                r0, r1 = restrict(ret[0], a), restrict(ret[1], a)
                ctx.check('R3.saturation', f'{s} returned dp', isinstance(r0, Rat) and r0.eq(DP + red), key(f, f'ret-dp|{lab}'),
                          'the dp handed to the next amplifier is not this amplifier\'s (possibly reduced) offset', vkey(r0)[:200])
                ctx.check('R3.saturation', f'{s} returned voa', isinstance(r1, Rat) and r1.eq(VOA), key(f, f'ret-voa|{lab}'),
                          'the voa handed to the next amplifier is not the output VOA used in this amplifier\'s budget '
                          '(the operator-set one; the optimised part is already inside delta_p)', vkey(r1)[:200])
    # _delta_p after the VOA step
    d2 = ev.exit_field('node._delta_p')
    for pm in (True, False):
        v = restrict(d2, {c_pm: pm, c_tv: False})
        if pm:
            ok = isinstance(v, Rat) and 'havoc' in v.key() and 'node.delta_p' in v.key()
        else:
            ok = isinstance(v, Rat) and restrict(v, {}).eq(restrict(DP + arms['imposed model, gain mode'][1], {}))
        ctx.check('R3.saturation', f'{site(f)} _delta_p [{"power" if pm else "gain"} mode]', ok, key(f, f'_delta_p|{pm}'),
                  '_delta_p does not record the designed offset (after VOA optimisation in power mode, the computed dp in gain mode)',
                  vkey(v)[:200])
    # VOA step arguments
    va = vcalls[0].args
    names = [ast.unparse(a) for a in va[:3]]
    # the power target handed over is the one computed by compute_gain_power_and_tilt_target (= pref_total_db + dp, R1):
    # the element of its result tuple at the position where the callee returns its `total power + dp` local
    okp = False
    cg = calls_to(f, {'compute_gain_power_and_tilt_target'})
    cgf = repo.func(NW, 'compute_gain_power_and_tilt_target')
    rets = [n.value for n in walk_no_nested(cgf.node) if isinstance(n, ast.Return) and isinstance(n.value, ast.Tuple)]
    if len(cg) == 1 and len(rets) == 1:
        pos = None
        for k_, e in enumerate(rets[0].elts):
            e = resolved(local_defs(cgf.node), e)
            if isinstance(e, ast.BinOp) and isinstance(e.op, ast.Add) and 'pref_total_db' in names_in(e):
                pos = k_
        tg = stmt_of(f, cg[0]).targets[0] if isinstance(stmt_of(f, cg[0]), ast.Assign) else None
        okp = pos is not None and isinstance(tg, ast.Tuple) and len(tg.elts) == len(rets[0].elts) and ast.unparse(tg.elts[pos]) == names[1]
    ctx.check('R3.saturation', f'{site(f, vcalls[0])} VOA step', names[0] == f.params[0] and okp and names[2] == 'power_mode', key(f, 'voa-args'),
              f'set_amplifier_voa is called with {names}: expected the node, the designed power target (total design power + dp) and the power mode')
    ctx.need('R3.saturation', 20)


def r4_voa(ctx):
    repo = ctx.repo
    f = repo.func(NW, 'set_amplifier_voa')
    ev = Evaluator(repo, f, no_inline={'round2float'}).run_function()
    a = f.params[0]
    eg, dp, ov, iv = (ev.exit_field(f'{a}.{x}') for x in ('effective_gain', 'delta_p', 'out_voa', 'in_voa'))
    conds = gamma_conds(eg) | gamma_conds(ov) | gamma_conds(dp)
    other = [c for c in conds if c.startswith('isnone(') and 'out_voa' in c and c != f'isnone({a}.out_voa)']
    if other and f'isnone({a}.out_voa)' not in conds:
        ctx.bad('R4.voa', f'{site(f)} gate', key(f, 'voa-gate'),
                f'the automatic output VOA is (re)computed when `{other[0][7:-1]}` is None instead of when the amplifier\'s current out_voa is '
                'None: a second design overwrites the VOA while gain and offset still contain the first one (the budget and p_max break)')
        ctx.need('R4.voa', 1)
        return
    c_none = pick(conds, f'isnone({a}.out_voa)')
    c_auto = pick(conds, 'out_voa_auto')
    E0, D0 = fld(f'{a}.effective_gain'), fld(f'{a}.delta_p')
    rf = [c for c in ev.calls if c.name == 'round2float']
    s = site(f)
    if len(rf) != 1:
        raise AnchorMissing('set_amplifier_voa: round2float call')
    R = Rat.of(mk_atom('fn', 'call:gnpy.core.utils.round2float', ev.argkeys(rf[0].args, rf[0].kwargs)))
    pmax, gfm = fld(f'{a}.params.p_max'), fld(f'{a}.params.gain_flatmax')
    wantarg = lem_min(pmax - Rat.sym(f.params[1]), gfm - E0)
    ctx.check('R4.voa', f'{s} headroom', rf[0].args[0].eq(wantarg) and rf[0].args[1].eq(Rat.sym(f.params[4])), key(f, 'headroom'),
              'the VOA is not optimised on min(p_max - power_target, gain_flatmax - gain) rounded to voa_step', vkey(rf[0].args[0])[:200])
    voa = lem_max(R - Rat.sym(f.params[3]), C(0))
    on = {c_none: True, c_auto: True}
    ctx.check('R4.voa', f'{s} [optimised] out_voa', restrict(ov, on).eq(voa), key(f, 'voa-value'),
              'out_voa is not max(rounded headroom - voa_margin, 0)', vkey(restrict(ov, on))[:200])
    ctx.check('R4.voa', f'{s} [optimised] gain', restrict(eg, on).eq(E0 + voa), key(f, 'voa-gain'),
              'the optimised VOA is not added to the gain', vkey(restrict(eg, on))[:200])
    ctx.check('R4.voa', f'{s} [optimised] offset', restrict(dp, on).eq(D0 + voa), key(f, 'voa-dp'),
              'the optimised VOA is not added to delta_p (gain and offset must move together)', vkey(restrict(dp, on))[:200])
    off = {c_none: True, c_auto: False}
    ctx.check('R4.voa', f'{s} [not optimised]', restrict(ov, off).is_zero() and restrict(eg, off).eq(E0) and restrict(dp, off).eq(D0),
              key(f, 'voa-off'), 'without optimisation (gain mode or out_voa_auto off) the VOA is not 0 with gain/offset untouched')
    keep = {c_none: False}
    ctx.check('R4.voa', f'{s} [operator-set VOA kept]', restrict(ov, keep).eq(fld(f'{a}.out_voa')) and restrict(eg, keep).eq(E0)
              and restrict(dp, keep).eq(D0), key(f, 'voa-kept'), 'an operator-set output VOA is changed, or gain/offset change with it')
    ctx.check('R4.voa', f'{s} optimisation gate', c_auto.startswith('and(truth(power_mode)'), key(f, 'gate'),
              'the VOA optimisation is not gated by power mode and out_voa_auto', c_auto)
    civ = [c for c in gamma_conds(iv)]
    ok = len(civ) == 1 and restrict(iv, {civ[0]: True}).is_zero() and restrict(iv, {civ[0]: False}).eq(fld(f'{a}.in_voa'))
    ctx.check('R4.voa', f'{s} in_voa default', ok, key(f, 'in-voa'), 'an unset input VOA does not default to 0 (or a set one is changed)')
    ctx.need('R4.voa', 8)


def r5_chaining(ctx):
    repo = ctx.repo
    f = repo.func(NW, 'set_egress_amplifier')
    callee = repo.func(NW, 'set_one_amplifier')
    calls = [c for c in calls_to(f, {'set_one_amplifier'}) if repo.resolve_call(f, c) is callee]
    ip, iv = callee.params.index('prev_voa'), callee.params.index('prev_dp')
    tables = set()
    for c in calls:
        st = stmt_of(f, c)
        a_voa, a_dp = c.args[ip], c.args[iv]
        tg = st.targets[0] if isinstance(st, ast.Assign) else None
        ok = isinstance(a_voa, ast.Subscript) and isinstance(a_dp, ast.Subscript) and isinstance(tg, ast.Tuple) and len(tg.elts) == 2 \
            and all(isinstance(e, ast.Subscript) for e in tg.elts)
        if ok:
            key_ = ast.unparse(a_voa.slice)
            ok = ast.unparse(a_dp.slice) == key_ and all(ast.unparse(e.slice) == key_ for e in tg.elts)
            tables.add((ast.unparse(a_dp.value), ast.unparse(a_voa.value), ast.unparse(tg.elts[0].value), ast.unparse(tg.elts[1].value)))
        ctx.check('R5.chaining', site(f, c), ok, key(f, f'call-shape|{ast.unparse(c.args[0])}'),
                  'set_one_amplifier does not receive (prev_voa, prev_dp) of its band and store (dp, voa) for the same band',
                  ast.unparse(st)[:160] if st is not None else '')
        pt = c.args[callee.params.index('pref_total_db')]
        ctx.check('R5.chaining', f'{site(f, c)} total power', isinstance(pt, ast.Subscript) and 'pref_total_db' in ast.unparse(pt.value),
                  key(f, f'total|{ast.unparse(c.args[0])}'), 'the amplifier is not designed on the total design power of its band')
    ok = len(tables) == 1
    ctx.check('R5.chaining', f'{site(f)} one set of tables', ok, key(f, 'tables'), f'amplifiers of one OMS use different state tables: {tables}')
    if ok:
        pd, pv, d, v = tables.pop()
        ups = {(ast.unparse(c.func.value), ast.unparse(c.keywords[0].value)) for c in calls_to(f, {'update'})
               if isinstance(c.func, ast.Attribute) and c.keywords and c.keywords[0].arg is None}
        ctx.check('R5.chaining', f'{site(f)} hand-over', (pd, d) in ups and (pv, v) in ups, key(f, 'hand-over'),
                  f'after each element the walk does not hand (dp, voa) over as (prev_dp, prev_voa): updates found {sorted(ups)}')
        # updates and prev_node advance are inside the element loop, after the calls
        loop = enclosing(calls[0], ast.For)
        # the running predecessor is what the calls receive as prev_node; it must be re-assigned in the element loop
        pn = {ast.unparse(c.args[callee.params.index('prev_node')]) for c in calls if len(c.args) > callee.params.index('prev_node')} \
            if 'prev_node' in callee.params else set()
        adv = [n for n in walk_no_nested(loop) if isinstance(n, ast.Assign) and isinstance(n.targets[0], ast.Name)
               and n.targets[0].id in pn] if loop is not None else []
        ctx.check('R5.chaining', f'{site(f)} walk advances', bool(adv), key(f, 'advance'), 'prev_node is not advanced inside the OMS walk')
        # initialisation from the ROADM / transceiver output target
        # <prev_dp table>[band] = <output target of the ingress node> - <reference channel power>, the former being a local one of
        # whose definitions is the ROADM's per-degree reference power (the local is identified by that definition, not by its name)
        fdefs = local_defs(f.node)
        pref = f.params[3] if len(f.params) > 3 else 'pref_ch_db'

        def is_target(e):
            return isinstance(e, ast.Name) and any(isinstance(v, ast.AST) and 'get_per_degree_ref_power' in ast.unparse(v)
                                                   for _, v in fdefs.get(e.id, []))
        init = [n for n in walk_no_nested(f.node) if isinstance(n, ast.Assign) and isinstance(n.targets[0], ast.Subscript)
                and ast.unparse(n.targets[0].value) == pd and isinstance(n.value, ast.BinOp) and isinstance(n.value.op, ast.Sub) and
                is_target(n.value.left) and ast.unparse(n.value.right) == pref]
        ctx.check('R5.chaining', f'{site(f)} start of the walk', bool(init) and isinstance(init[0].value, ast.BinOp) and isinstance(init[0].value.op, ast.Sub),
                  key(f, 'start'), 'the walk does not start from (ROADM/transceiver output target - reference channel power)')
        tot = [n for n in walk_no_nested(f.node) if isinstance(n, ast.Assign) and isinstance(n.targets[0], ast.Subscript)
               and 'pref_total_db' in ast.unparse(n.targets[0].value)]
        ok = bool(tot) and 'pref_ch_db' in ast.unparse(tot[0].value) and 'lin2db' in ast.unparse(tot[0].value)
        ctx.check('R5.chaining', f'{site(f)} total design power', ok, key(f, 'total-def'),
                  'total design power is not pref_ch_db + lin2db(number of channels)')
    ctx.need('R5.chaining', 8)


def spec_in(ev, func, text, env):
    """evaluate a specification expression through the same front end, in the name space of func"""
    from ..vg import State
    return ev.ev(ast.parse(text, mode='eval').body, State(dict(env)))


def r6_span_loss(ctx):
    """the loss an amplifier has to compensate is the loss of the WHOLE fused chain of passive elements around the node
    (the node itself when passive, everything before it and after it up to the neighbouring amplifiers / ROADMs) minus the
    Raman gain estimated for the same elements"""
    repo = ctx.repo
    f = repo.func(NW, 'span_loss')
    ev = Evaluator(repo, f, no_inline={'estimate_raman_gain', 'prev_node_generator', 'next_node_generator'}).run_function()
    r = ev.ret()
    conds = [c for c in gamma_conds(r) if c.startswith('hasattr(')]
    s = site(f)
    ok = len(conds) == 1 and 'design_span_loss' in conds[0]
    ctx.check('R6.span-loss', f'{s} cache', ok and restrict(r, {conds[0]: True}).eq(fld('node.design_span_loss')), key(f, 'cache'),
              'span_loss does not return the cached design value when there is one')
    if not ok:
        return
    val = restrict(r, {conds[0]: False})
    env = {p: Rat.sym(p) for p in f.params}
    e2 = Evaluator(repo, f, no_inline={'estimate_raman_gain', 'prev_node_generator', 'next_node_generator'})
    want = spec_in(e2, f, '(node.loss if node.passive else 0)'
                   ' + sum(n.loss for n in prev_node_generator(network, node)) + sum(n.loss for n in next_node_generator(network, node))'
                   ' - estimate_raman_gain(node, equipment, input_power)'
                   ' - sum(estimate_raman_gain(n, equipment, input_power) for n in prev_node_generator(network, node))'
                   ' - sum(estimate_raman_gain(n, equipment, input_power) for n in next_node_generator(network, node))', env)
    ctx.check('R6.span-loss', f'{s} whole chain', isinstance(val, Rat) and val.eq(want), key(f, 'chain'),
              'span_loss is not (own loss if passive + losses of all fused predecessors and successors) - (Raman gain of the same '
              'elements): the gain budget would miss or double a part of the span', f'got {vkey(val)[:300]}')
    pg = repo.func(NW, 'prev_node_generator')
    ng = repo.func(NW, 'next_node_generator')
    for g_, word in ((pg, 'predecessors'), (ng, 'successors')):
        t = ast.unparse(g_.node)
        ok = word in t and 'yield' in t and 'elements.Fused' in t and 'elements.Fiber' in t
        ctx.check('R6.span-loss', f'{site(g_)} chain walk', ok, key(g_, 'walk'),
                  f'{g_.name} does not walk the {word} while they are fibres or fused elements')
    ctx.need('R6.span-loss', 4)



def rv_verbose(ctx):
    """Rv: blocks guarded by the `verbose` flag only report (no value read after the block, no object state written, no exit):
    the design does not depend on the logging flag"""
    from .common import verbose_rule
    from ..memo import scope_funcs
    verbose_rule(ctx, 'Rv.verbose-pure', scope_funcs(ctx.repo, 'C09'), 'the designed gains and powers would depend on the logging flag')
    ctx.need('Rv.verbose-pure', 3)


def re_foreach(ctx):
    """Re: loops that act on EVERY item (store on the item / call a function that writes it) are never left early (break / return):
    the items after the exit would silently be skipped; the two search loops of the package are a frozen table"""
    from .common import foreach_rule
    from ..memo import scope_funcs
    foreach_rule(ctx, 'Re.for-each', scope_funcs(ctx.repo, 'C09'), 'amplifiers later in the list keep no designed operating point')
    ctx.need('Re.for-each', 3)


def r7_selected_budget(ctx):
    """R7: the budget is closed on the amplifier that is installed: the saturation power reduction applied to dp / gain is the one
    of the SELECTED model (C10-R3), and the span loss cached for the gain computation includes the padding put on the span
    (C17-R6)"""
    from .c10 import r3_selection
    from .c17 import r6_padding_cache
    r3_selection(ctx)
    r6_padding_cache(ctx)


def rn_arg_roles(ctx):
    """Rn: a variable named like a parameter of the callee is handed to that parameter (no exchanged roles such as
    f(to_degree, from_degree) for def f(from_degree, to_degree)); calls to resolved package functions, canonical form"""
    from .common import arg_roles_rule
    from ..memo import scope_funcs
    n = arg_roles_rule(ctx, 'Rn.arg-roles', scope_funcs(ctx.repo, 'C09'), 'the budget would be computed with exchanged quantities')
    ctx.check('Rn.arg-roles', 'argument / parameter name scan', True, 'C09|arg-roles-scan', '', f'{n} argument(s) named like another parameter judged')


def r8_design_helpers(ctx):
    """R8: helpers the budget relies on: the span walk behind span_loss continues over exactly the (Fused, Fused|fibre) class pairs
    (C08-R7), and the power limit / gain range of a dual-stage model are those of the cascade (C04-R9)"""
    from .c08 import r7_span_walk
    from .common import dual_stage_rule, proxy
    r7_span_walk(proxy(ctx, 'R8'))
    dual_stage_rule(ctx, 'R8.dual-stage-params', 'the design would reduce the power against the limit of the wrong stage')


def rs_sentinel(ctx):
    """Rz: a field that the design fills with a configured default when it is None (connector losses ...) is None when the input does
    not give it: its loader uses .get('<field>') without another default"""
    from ..presence import sentinel_rule
    sentinel_rule(ctx, 'Rz.sentinel', 'the loss budget would be closed with 0 instead of the configured default')
    ctx.need('Rz.sentinel', 2)


def r_roadm_input(ctx):
    """R9: reference power at each ROADM ingress: upstream walk, losses summed, the upstream ROADM's target read for the degree the
    walk came from, stored under this ROADM's ingress element"""
    from .common import roadm_input_rule
    roadm_input_rule(ctx, 'R9.roadm-input', 'the designed reference power and loss of the ROADM would not match what propagation delivers')
    ctx.need('R9.roadm-input', 3)



def r10_targets_and_budget(ctx):
    """R10: the design reads (a) per-degree targets that the operator configured - a degree counts as unconfigured only when none
    of the three per-degree tables holds it (shared with C06) - and (b) a fibre loss that counts every lumped loss with its sign
    (shared with C05)"""
    from .c06 import r5_design as _r6
    from .c05 import r2_budget as _r5
    from .common import proxy
    _r6(proxy(ctx, 'R10'))
    _r5(proxy(ctx, 'R10'))


def r11_raman_lumped(ctx):
    """R11: the Raman gain the design estimates for a span (estimate_raman_gain runs the Raman solver) sees every lumped loss of the
    fibre: losses that fall on one grid point are all multiplied together (rule shared with C05-R6) - otherwise the designed gain
    does not close the budget of a Raman span with several lumped losses"""
    from .c05 import r6_lumped_all as _r
    from .common import proxy
    _r(proxy(ctx, 'R11'))


from ..memo import rule_for as _memo_rule

RULES_MEMO = ('Rm.memo', _memo_rule('C09', 'the operating point designed for another element or reference would be reused'))


from ..presence import rule_for as _presence_rule

RULES_PRESENCE = ('Rp.presence', _presence_rule('C09', 'a configured power / gain / VOA of exactly 0 would be replaced by another value in the budget'))

RULES = [('R6.span-loss', r6_span_loss), ('R1.budget', r1_budget), ('R2.rule', r2_rule), ('R3.saturation', r3_saturation), ('R4.voa', r4_voa), ('R5.chaining', r5_chaining), RULES_MEMO, RULES_PRESENCE, ('Rv.verbose-pure', rv_verbose), ('Re.for-each', re_foreach), ('R7.selected-budget', r7_selected_budget), ('Rn.arg-roles', rn_arg_roles), ('R8.design-helpers', r8_design_helpers), ('Rz.sentinel', rs_sentinel), ('R9.roadm-input', r_roadm_input), ('R10.targets-and-budget', r10_targets_and_budget), ('R11.raman-lumped', r11_raman_lumped)]
