"""C10 - auto-selected amplifiers are allowed, capable and the quietest capable choice.

 R1 precedence  : get_node_restrictions: own variety first; else the amplifier's variety list; else the PREVIOUS ROADM's
                  booster list; else the NEXT ROADM's preamp list; models outside a non-empty restriction are excluded,
                  with no restriction only allowed_for_design models remain - in both the single- and multi-band arms.
 R2 band cover  : wherever an amplifier model is matched to a design band the test is model.f_min <= band.f_min and
                  model.f_max >= band.f_max on the SAME model and band (all sites agree).
 R3 selection   : select_edfa returns the minimum-NF entry of filter_edfa_list_based_on_targets(..) and a power reduction
                  min(its power margin, 0); set_one_amplifier hands it the permitted set (restrictions applied,
                  multi-band models excluded) and the configured extended-gain allowance.
 R4 Raman gate  : Raman models are eligible only after a fibre whose loss coefficient is below the configured limit
                  (x 1e-3, dB/m) at EVERY frequency it is defined on, and never otherwise; the Raman list is empty when
                  not allowed.
 R5 capability  : both candidate lists score power = min(pin + gain_flatmax + extended gain, p_max) - power_target with
                  pin = power_target - gain_target; minimum-gain allowance 3 dB for EDFAs, none for Raman; candidates
                  are kept on gain_min > 0 then power > 0, with the 0.3 dB fall-back around the best power.
 Rm memo          : every memoisation construct in the functions behind this property is keyed by everything it reads.
 Rp presence      : optional numeric fields are tested with `is None` / membership, never by truthiness (0 is a value).
 Rv verbose       : blocks guarded by the verbose flag only report; the design does not depend on the logging flag.
 Rn arg roles     : a variable named like a parameter of the callee is handed to that parameter (no exchanged roles).
 Rk field/key     : the amplifier parameter classes store every configuration entry under its own name (shared with C04).
 R6 neighbours    : every design callee of the OMS walk receives the same running predecessor / successor variables.
 R7 multiband narrowing: per-band candidates come from the selection narrowed by the previous bands.
 R8 alias names     : per-alias copies of a library entry carry their own name (shared with C18).
"""
import ast

from ..model import AnchorMissing, CannotAnalyse, walk_no_nested
from ..poly import Rat, C, mk_atom, lem_min
from ..vg import Evaluator, vkey, State
from ..dataflow import names_in, local_defs
from .common import calls_to, site, key, stmt_of, enclosing, kwarg

NW = 'gnpy.core.network'
EXPLANATION = (
    "Decision-list extraction and sibling agreement over the selection code: precedence of the restriction sources with "
    "the previous-ROADM/booster and next-ROADM/preamp pairing; the band-cover comparison at every site that matches a "
    "model to a design band; the minimum-NF selection over the filtered list; the Raman eligibility gate over the whole "
    "per-frequency loss array; the capability score of the two candidate lists as value-graph normal forms and their "
    "successive filters. Not decided: that the chosen model can deliver when several fall-backs interact over arbitrary "
    "libraries (ranking is data dependent)."
)
ASSUMPTIONS = ["min(.., key=nf) returns a minimum-NF element", "numpy .all() over the per-frequency loss array"]
RULE_TEXT = ("sites: arms of get_node_restrictions; every f_min/f_max comparison against a band in network.py; select_edfa; "
             "the Raman gate in set_one_amplifier; the two candidate list constructions and three filters")


def match_target(gen, b):
    """comprehension `for V_n, V_a in equipment['Edfa'].items()`: bind the model variable"""
    from ..pattern import match
    import ast as _a
    pat = _a.parse("[0 for V_n, V_a in equipment['Edfa'].items()]", mode='eval').body.generators[0]
    r = match(pat.target, gen.target, b)
    if r is None or _a.unparse(gen.iter) != "equipment['Edfa'].items()":
        return None
    return r


def r1_precedence(ctx):
    repo = ctx.repo
    f = repo.func(NW, 'get_node_restrictions')
    body = [s for s in f.node.body if not (isinstance(s, ast.Expr) and isinstance(s.value, ast.Constant))]
    s = site(f)
    first = body[0] if body else None
    ok = isinstance(first, ast.If) and 'node.params.type_variety' in ast.unparse(first.test) and \
        any(isinstance(x, ast.Return) and ast.unparse(x.value) == '[node.params.type_variety]' for x in first.body)
    ctx.check('R1.precedence', f'{s} own variety first', ok, key(f, 'own-first'),
              'an amplifier with an imposed model does not get exactly that model before any other restriction is considered')
    from ..pattern import mstmt, mexpr, find
    nd, pv, nx = f.params[0], f.params[1], f.params[2]
    # canonical form: the empty default is the final else of the chain
    chain = next((x for x in body if isinstance(x, ast.If) and 'variety_list' in ast.unparse(x.test) and x is not first), None)
    order = []
    cur = chain
    rv = None
    final = []
    while isinstance(cur, ast.If):
        t = ast.unparse(cur.test)
        asg = [a for a in cur.body if isinstance(a, ast.Assign) and len(a.targets) == 1 and isinstance(a.targets[0], ast.Name)]
        if rv is None and len(asg) == 1:
            rv = asg[0].targets[0].id
        v = next((ast.unparse(a.value) for a in asg if a.targets[0].id == rv), None)
        order.append((t, v))
        final = cur.orelse
        cur = cur.orelse[0] if len(cur.orelse) == 1 and isinstance(cur.orelse[0], ast.If) else None
    init = [x for x in final if rv is not None and mstmt(f'{rv} = []', x) is not None]
    ctx.check('R1.precedence', f'{s} default', len(init) == 1 and len(final) == 1, key(f, 'default'),
              'restrictions do not start empty (allowed_for_design fall-back)')
    want = [(f'{nd}.variety_list', f'{nd}.variety_list'),
            (f'isinstance({pv}, elements.Roadm)', f"{pv}.restrictions['booster_variety_list']"),
            (f'isinstance({nx}, elements.Roadm)', f"{nx}.restrictions['preamp_variety_list']")]
    ok = len(order) == 3 and all(w[0] in t and v == w[1] and (w[1] in t) for (t, v), w in zip(order, want))
    ctx.check('R1.precedence', f'{s} order of sources', ok, key(f, 'order'),
              'restriction sources are not consulted as: own variety list, then booster list of the PREVIOUS ROADM, then preamp list '
              'of the NEXT ROADM (each only when non-empty)', f'{order}')
    comps = [n for n in walk_no_nested(f.node) if isinstance(n, ast.ListComp) and 'allowed_for_design' in ast.unparse(n)]
    kinds = set()
    for c in comps:
        t = ast.unparse(c)
        g = c.generators[0]
        b = mexpr("V_n", c.elt)
        b = b and match_target(g, b)
        def flat(x):
            return [y for v in x.values for y in flat(v)] if isinstance(x, ast.BoolOp) and isinstance(x.op, ast.And) else [x]
        conj = [y for i_ in g.ifs for y in flat(i_)]
        ok = False
        if b:
            b['V_r'] = rv
            # some conjunct decides `permitted`: listed in a non-empty restriction, or - with no restriction - allowed for design
            # (truth table; an element can only be listed in a non-empty list)
            from .common import prop_equal, rename_vars
            spec = 'N in R or (not R and A.allowed_for_design)'
            ok = any(prop_equal(rename_vars(x, {b['V_n']: 'N', b.get('V_a', '?'): 'A', rv: 'R'}), spec,
                                constraint=lambda env: not env.get('N in R') or env.get('R'), max_atoms=4)
                     and 'allowed_for_design' in ast.unparse(x) for x in conj)
            for x in conj:
                if mexpr("V_a.type_def == 'multi_band'", x, b) is not None:
                    kinds.add('==')
                if mexpr("V_a.type_def != 'multi_band'", x, b) is not None:
                    kinds.add('!=')
        ctx.check('R1.precedence', f'{site(f, c)} permitted set', ok, key(f, f'permitted|{c.lineno - f.node.lineno}'),
                  'the permitted set is not (members of a non-empty restriction) or (with no restriction, models allowed for design)', t[:160])
    ok = len(comps) == 2 and kinds == {'==', '!='}
    ctx.check('R1.precedence', f'{s} single / multi band arms', ok, key(f, 'arms'),
              'single-band amplifiers are not restricted to non multi-band models and multi-band ones to multi-band models')
    ctx.need('R1.precedence', 6)


class _Cmp:
    """a comparison  model.<attr> OP band['<key>']  whatever side the source wrote the model on"""
    def __init__(self, node, model, band, op):
        self.node, self.left, self.comparators, self.ops = node, model, [band], [op]
        self.lineno, self.col_offset = node.lineno, node.col_offset


def orient(c):
    if not (isinstance(c, ast.Compare) and len(c.ops) == 1):
        return None
    flip = {ast.Lt: ast.Gt, ast.Gt: ast.Lt, ast.LtE: ast.GtE, ast.GtE: ast.LtE}

    def is_model(e):
        return isinstance(e, ast.Attribute) and e.attr in ('f_min', 'f_max')

    def is_band(e):
        return isinstance(e, ast.Subscript) and isinstance(e.slice, ast.Constant) and e.slice.value in ('f_min', 'f_max')
    le, ri = c.left, c.comparators[0]
    if is_model(le) and is_band(ri):
        return _Cmp(c, le, ri, c.ops[0])
    if is_band(le) and is_model(ri) and type(c.ops[0]) in flip:
        return _Cmp(c, ri, le, flip[type(c.ops[0])]())
    return None


def band_tests(repo):
    """(func, BoolOp/Compare list) for every conjunct group comparing a model's f_min / f_max with a band"""
    out = []
    for f in repo.all_funcs():
        if f.module.name != NW:
            continue
        for n in ast.walk(f.node):
            conj = None
            if isinstance(n, ast.BoolOp) and isinstance(n.op, ast.And):
                conj = n.values
            elif isinstance(n, ast.comprehension) and len(n.ifs) >= 1:
                conj = []
                for i in n.ifs:
                    conj += i.values if isinstance(i, ast.BoolOp) and isinstance(i.op, ast.And) else [i]
            if not conj:
                continue
            cmps = [orient(c) for c in conj if orient(c) is not None]
            if cmps:
                out.append((f, n, cmps))
    # a BoolOp nested in a comprehension if is seen twice: keep the outermost grouping per first compare
    seen, res = set(), []
    for f, n, cmps in out:
        k = (f.qual, cmps[0].lineno, cmps[0].col_offset)
        if k not in seen:
            seen.add(k)
            res.append((f, n, cmps))
    return res


def r2_band_cover(ctx):
    repo = ctx.repo
    for f, n, cmps in band_tests(repo):
        lo = [c for c in cmps if c.left.attr == 'f_min']
        hi = [c for c in cmps if c.left.attr == 'f_max']
        ok = len(lo) == 1 and len(hi) == 1
        det = ' and '.join(ast.unparse(c.node) for c in cmps)
        if ok:
            l, h = lo[0], hi[0]
            ok = isinstance(l.ops[0], ast.LtE) and isinstance(h.ops[0], ast.GtE) and \
                l.comparators[0].slice.value == 'f_min' and h.comparators[0].slice.value == 'f_max' and \
                ast.unparse(l.left.value) == ast.unparse(h.left.value) and \
                ast.unparse(l.comparators[0].value) == ast.unparse(h.comparators[0].value)
        ctx.check('R2.band-cover', site(f, cmps[0].node), ok, f'{f.qual}|band-cover|{ast.unparse(cmps[0].left.value)}',
                  'a model is matched to a design band by something other than  model.f_min <= band.f_min and model.f_max >= band.f_max '
                  '(same model, same band): a model that does not cover the band can be selected', det)
    ctx.need('R2.band-cover', 4, 'preselect_multiband_amps, get_node_restrictions x2, set_egress_amplifier')


def r3_selection(ctx):
    repo = ctx.repo
    f = repo.func(NW, 'select_edfa')
    fl = calls_to(f, {'filter_edfa_list_based_on_targets'})
    mn = [c for c in calls_to(f, {'min'}) if kwarg(c, 'key') is not None]
    s = site(f)
    ok = len(fl) == 1 and len(mn) == 1
    if ok:
        lst = stmt_of(f, fl[0]).targets[0].id
        ok = ast.unparse(mn[0].args[0]) == lst and ast.unparse(kwarg(mn[0], 'key')) in ("attrgetter('nf')", 'lambda x: x.nf')
        args = [ast.unparse(a) for a in fl[0].args]
        P = f.params
        ok = ok and args[:4] == [P[P.index('uid')], P[P.index('edfa_eqpt')], P[P.index('power_target')], P[P.index('gain_target')]] and \
            'target_extended_gain' in args and 'raman_allowed' in args
    ctx.check('R3.selection', f'{s} quietest capable', bool(ok), key(f, 'min-nf'),
              'the selected model is not the minimum-NF entry of the list filtered on the required gain and power')
    from ..pattern import mstmt, mexpr, find
    rets = [n for n in walk_no_nested(f.node) if isinstance(n, ast.Return)]
    sel = stmt_of(f, mn[0]).targets[0].id if mn else None
    b = mstmt('return V_sel.variety, V_pr', rets[-1], {'V_sel': sel}) if rets and sel else None
    ok = b is not None
    if ok:
        pr = [n for n in walk_no_nested(f.node) if isinstance(n, ast.Assign) and ast.unparse(n.targets[0]) == b['V_pr']]
        ok = len(pr) == 1 and ast.unparse(pr[0].value).replace(' ', '') in (f'min({sel}.power,0.0)', f'min(0.0,{sel}.power)', f'min({sel}.power,0)',
                                                                              f'min(0,{sel}.power)')
    ctx.check('R3.selection', f'{s} result', ok, key(f, 'result'),
              'select_edfa does not return the selected model with a power reduction of min(its power margin, 0)')
    so = repo.func(NW, 'set_one_amplifier')
    sc = calls_to(so, {'select_edfa'})
    ok = len(sc) == 1
    if ok:
        # the targets handed over are the ones computed by compute_gain_power_and_tilt_target (positions of its result)
        cg = calls_to(so, {'compute_gain_power_and_tilt_target'})
        tg = stmt_of(so, cg[0]).targets[0] if len(cg) == 1 and isinstance(stmt_of(so, cg[0]), ast.Assign) else None
        cgf = repo.func(NW, 'compute_gain_power_and_tilt_target')
        cret = [n.value for n in walk_no_nested(cgf.node) if isinstance(n, ast.Return) and isinstance(n.value, ast.Tuple)]
        names_ret = [ast.unparse(e) for e in cret[0].elts] if len(cret) == 1 else []

        def role(pred):
            # an element of the result is a local (any of its definitions counts) or the expression itself
            hit = [k_ for k_, (nm, e_) in enumerate(zip(names_ret, cret[0].elts)) if (not isinstance(e_, ast.Name) and pred(e_)) or any(
                isinstance(n, ast.Assign) and isinstance(n.targets[0], ast.Name) and n.targets[0].id == nm and pred(n.value)
                for n in walk_no_nested(cgf.node))]
            return hit[0] if len(hit) == 1 else None
        i_gain = role(lambda v: ast.unparse(v) == f'{cgf.params[0]}.effective_gain')
        i_pow = role(lambda v: isinstance(v, ast.BinOp) and isinstance(v.op, ast.Add) and 'pref_total_db' in names_in(v))
        ok = isinstance(tg, ast.Tuple) and len(tg.elts) == len(names_ret) and i_gain is not None and i_pow is not None
        if ok:
            gt, pt = ast.unparse(tg.elts[i_gain]), ast.unparse(tg.elts[i_pow])
            args = [ast.unparse(a) for a in sc[0].args]
            ra = [n for n in walk_no_nested(so.node) if isinstance(n, ast.Assign) and ast.unparse(n.targets[0]) == args[0]]
            ok = len(args) >= 4 and args[1:3] == [gt, pt] and len(ra) >= 2 and \
                ast.unparse(kwarg(sc[0], 'target_extended_gain')) == "equipment['Span']['default'].target_extended_gain"
            defs = [n for n in walk_no_nested(so.node) if isinstance(n, ast.Assign) and ast.unparse(n.targets[0]) == args[3]] if ok else []
            rs = calls_to(so, {'get_node_restrictions'})
            rname = stmt_of(so, rs[0]).targets[0].id if len(rs) == 1 and isinstance(stmt_of(so, rs[0]), ast.Assign) else \
                ('restrictions' if 'restrictions' in so.params else None)
            # the membership predicate of the dict handed over, composed from its definitions: a comprehension over the library items,
            # optionally re-filtered under a condition (`if restrictions: d = {.. for .. in d.items() if ..}` contributes cond -> filter);
            # it must be equivalent (truth table over its atoms) to: not multi-band and (no restrictions or listed in them)
            from .common import holds_at, prop_equal, rename_vars
            pred = None
            good = ok and rname is not None and 1 <= len(defs) <= 2
            if ok and rname is not None and isinstance(sc[0].args[3], ast.DictComp):
                # written in place as the argument
                class _D:
                    value = sc[0].args[3]
                defs, good = [_D], True
            for k_, d_ in enumerate(defs if good else []):
                v = d_.value
                g = v.generators[0] if isinstance(v, ast.DictComp) and len(v.generators) == 1 else None
                if g is None or not (isinstance(g.target, ast.Tuple) and len(g.target.elts) == 2 and
                                     all(isinstance(e, ast.Name) for e in g.target.elts)) or \
                        ast.unparse(v.key) != g.target.elts[0].id or ast.unparse(v.value) != g.target.elts[1].id:
                    good = False
                    break
                src_ok = ast.unparse(g.iter) == ("equipment['Edfa'].items()" if k_ == 0 else f'{args[3]}.items()')
                filt = ast.BoolOp(op=ast.And(), values=list(g.ifs)) if len(g.ifs) > 1 else (g.ifs[0] if g.ifs else ast.Constant(value=True))
                filt = rename_vars(filt, {g.target.elts[0].id: 'N', g.target.elts[1].id: 'A'})
                conds = [c for c in holds_at(d_) if rname in c] if isinstance(d_, ast.AST) else []
                if not src_ok or (k_ == 0 and conds) or (k_ == 1 and conds != [rname]):
                    good = False
                    break
                if k_ == 0:
                    pred = filt
                else:
                    pred = ast.BoolOp(op=ast.And(), values=[pred, ast.BoolOp(op=ast.Or(), values=[
                        ast.UnaryOp(op=ast.Not(), operand=ast.Name(id=rname, ctx=ast.Load())), filt])])
            ok = good and pred is not None and prop_equal(pred, f"A.type_def != 'multi_band' and (not {rname} or N in {rname})")
    ctx.check('R3.selection', f'{site(so)} permitted set handed over', bool(ok), key(so, 'permitted-set'),
              'select_edfa does not receive (library minus multi-band models, intersected with the restrictions when there are any), '
              'the gain/power targets and the configured extended-gain allowance')
    ctx.need('R3.selection', 3)


def r4_raman_gate(ctx):
    repo = ctx.repo
    so = repo.func(NW, 'set_one_amplifier')
    ev = Evaluator(repo, so, no_inline={'compute_gain_power_and_tilt_target', 'select_edfa', 'set_amplifier_voa', 'update_params'}).run_function()
    sc = [c for c in ev.calls if c.name == 'select_edfa']
    if not sc:
        raise AnchorMissing('set_one_amplifier: select_edfa call')
    ra = sc[0].args[0]
    from ..poly import gamma_conds, restrict
    conds = [c for c in gamma_conds(ra) if c.startswith('isinstance(prev_node,')]
    ok = False
    det = vkey(ra)[:300]
    if len(conds) == 1 and 'Fiber' in conds[0]:
        yes = restrict(ra, {conds[0]: True})
        no = restrict(ra, {conds[0]: False})
        limit = Rat.of(mk_atom('fn', 'attr', (Rat.of(mk_atom('fn', 'sub', (Rat.of(mk_atom('fn', 'sub', (Rat.sym('equipment'), "'Span'"))), "'default'"))),
                                               'max_fiber_lineic_loss_for_raman'))) * C(1) / C(1000)
        a = yes.single_atom() if isinstance(yes, Rat) else None
        inner = None
        if a is not None and a.kind == 'fn' and a.name in ('all', '.all') and isinstance(a.args[0], Rat):
            ia = a.args[0].single_atom()
            if ia is not None and ia.name == 'cond':
                inner = ev.cond_info.get(ia.args[0])
        cmp_ok = inner is not None and inner[0] == 'lt' and inner[1].eq(Rat.of(mk_atom('fld', 'prev_node.params.loss_coef'))) and inner[2].eq(limit)
        ok = cmp_ok and 'const:False' in vkey(no)
    ctx.check('R4.raman-gate', site(so), ok, key(so, 'gate'),
              'Raman eligibility is not: previous element is a fibre AND its loss coefficient is below max_fiber_lineic_loss_for_raman '
              '(x 1e-3) at every frequency it is defined on; otherwise not allowed', det)
    fl = repo.func(NW, 'filter_edfa_list_based_on_targets')
    # the two candidate comprehensions: over (name, model) pairs, filtered on model.raman / not model.raman
    comps = [n for n in walk_no_nested(fl.node) if isinstance(n, ast.ListComp) and len(n.generators) == 1 and
             isinstance(n.generators[0].target, ast.Tuple) and len(n.generators[0].target.elts) == 2 and len(n.generators[0].ifs) == 1]
    ram = [c for c in comps if ast.unparse(c.generators[0].ifs[0]) == f'{ast.unparse(c.generators[0].target.elts[1])}.raman']
    pla = [c for c in comps if ast.unparse(c.generators[0].ifs[0]) == f'not {ast.unparse(c.generators[0].target.elts[1])}.raman']
    ok = len(ram) == 1 and len(pla) == 1
    if ok:
        # the Raman list is built only where raman_allowed holds and is [] otherwise; the plain list is unconditional
        # (conditional expression, two-armed if or default + override: read off the structure)
        from .common import holds_at
        rst, pst = stmt_of(fl, ram[0]), stmt_of(fl, pla[0])
        rname = rst.targets[0].id if isinstance(rst, ast.Assign) and isinstance(rst.targets[0], ast.Name) else None
        others = [n for n in walk_no_nested(fl.node) if isinstance(n, ast.Assign) and isinstance(n.targets[0], ast.Name) and
                  n.targets[0].id == rname and n is not rst]
        par = getattr(ram[0], '_parent', None)
        as_expr = isinstance(par, ast.IfExp) and par.body is ram[0] and ast.unparse(par.test) == 'raman_allowed' and ast.unparse(par.orelse) == '[]'
        as_stmt = rname is not None and 'raman_allowed' in holds_at(rst) and len(others) == 1 and ast.unparse(others[0].value) == '[]' and \
            'not raman_allowed' in holds_at(others[0])
        ok = (as_expr or as_stmt) and not isinstance(getattr(pla[0], '_parent', None), ast.IfExp) and \
            not any('raman' in c for c in holds_at(pst))
    ctx.check('R4.raman-gate', site(fl), ok, key(fl, 'raman-list'),
              'Raman models are not confined to the Raman list, or that list is not empty when Raman is not allowed')
    ctx.need('R4.raman-gate', 2)


def r5_capability(ctx):
    repo = ctx.repo
    f = repo.func(NW, 'filter_edfa_list_based_on_targets')
    # the candidate record type: module level or a local namedtuple
    rec = {n.targets[0].id for n in walk_no_nested(f.node) if isinstance(n, ast.Assign) and isinstance(n.targets[0], ast.Name)
           and isinstance(n.value, ast.Call) and ast.unparse(n.value.func) in ('namedtuple', 'collections.namedtuple')} | {'Edfa_list'}
    ctors = [c for c in calls_to(f, rec) if c.keywords and {'power', 'gain_min', 'nf'} <= {k.arg for k in c.keywords}]
    if len(ctors) != 2:
        raise AnchorMissing('filter_edfa_list_based_on_targets: the two candidate list constructions')
    ev = Evaluator(repo, f, no_inline={'edfa_nf'})
    st = State({p: Rat.sym(p) for p in f.params})
    # straight-line scalar locals defined before the lists (pin = power_target - gain_target)
    pin_names = []
    for n in f.node.body:
        if isinstance(n, ast.Assign) and isinstance(n.targets[0], ast.Name) and isinstance(n.value, ast.BinOp):
            try:
                st.env[n.targets[0].id] = ev.ev(n.value, st)
            except CannotAnalyse:
                continue
            if isinstance(st.env[n.targets[0].id], Rat) and st.env[n.targets[0].id].eq(Rat.sym('power_target') - Rat.sym('gain_target')):
                pin_names.append(n.targets[0].id)
    ok = len(pin_names) == 1 and all(pin_names[0] in names_in(kwarg(c, 'power')) for c in ctors)
    ctx.check('R5.capability', f'{site(f)} input power', ok, key(f, 'pin'), 'the input power used by the score is not power_target - gain_target')
    E = lambda a: Rat.of(mk_atom('fld', f'edfa.{a}'))
    want_power = lem_min(Rat.sym('power_target') - Rat.sym('gain_target') + E('gain_flatmax') + Rat.sym('target_extended_gain'), E('p_max')) \
        - Rat.sym('power_target')
    lib = f.params[f.params.index('edfa_eqpt')] if 'edfa_eqpt' in f.params else None
    for c in ctors:
        comp = enclosing(c, ast.ListComp)
        g = comp.generators[0] if comp is not None and len(comp.generators) == 1 else None
        if g is None or not (isinstance(g.target, ast.Tuple) and len(g.target.elts) == 2 and all(isinstance(e, ast.Name) for e in g.target.elts)):
            raise CannotAnalyse('candidate list is not a comprehension over (name, model) pairs')
        vname, model = g.target.elts[0].id, g.target.elts[1].id
        st.env[model] = Rat.sym('edfa')
        st.env[vname] = Rat.sym('edfa_variety')
        raman = any(ast.unparse(i) == f'{model}.raman' for i in g.ifs)
        plain = any(ast.unparse(i) == f'not {model}.raman' for i in g.ifs)
        label = 'Raman list' if raman else 'EDFA list'
        c._is_raman, c._is_plain = raman, plain
        kw = {k.arg: k.value for k in c.keywords}
        p = ev.ev(kw['power'], st) if 'power' in kw else None
        ctx.check('R5.capability', f'{site(f, c)} {label} power score', isinstance(p, Rat) and p.eq(want_power),
                  key(f, f'power|{label}'),
                  'the capability score is not min(pin + gain_flatmax + extended gain allowance, p_max) - power_target', vkey(p)[:200])
        gm = ev.ev(kw['gain_min'], st) if 'gain_min' in kw else None
        allowance = C(0) if raman else C(3)
        ctx.check('R5.capability', f'{site(f, c)} {label} minimum gain', isinstance(gm, Rat) and gm.eq(Rat.sym('gain_target') + allowance - E('gain_min')),
                  key(f, f'gain-min|{label}'),
                  f'the minimum-gain margin is not gain_target {"" if raman else "+ 3 "}- gain_min', vkey(gm)[:120])
        nf = kw.get('nf')
        ctx.check('R5.capability', f'{site(f, c)} {label} NF at the required gain', nf is not None and
                  ast.unparse(nf) in (f'edfa_nf(gain_target, {lib}[{vname}])', f'edfa_nf(gain_target, {model})'), key(f, f'nf|{label}'),
                  'candidates are not ranked by their NF at the required gain')
        # iterated: the permitted set itself or a plain copy of it
        it = g.iter
        src = ast.unparse(it.func.value) if isinstance(it, ast.Call) and isinstance(it.func, ast.Attribute) and it.func.attr == 'items' else None
        from ..pattern import mexpr
        copies = {n.targets[0].id for n in walk_no_nested(f.node) if isinstance(n, ast.Assign) and isinstance(n.targets[0], ast.Name) and (
            mexpr(f'{{V_k: V_v for V_k, V_v in {lib}.items()}}', n.value) is not None or
            mexpr(f'{{V_k: V_v for (V_k, V_v) in {lib}.items()}}', n.value) is not None or
            ast.unparse(n.value) in (f'dict({lib})', f'{lib}.copy()', lib))}
        ctx.check('R5.capability', f'{site(f, c)} {label} over the permitted set', src is not None and (src == lib or src in copies),
                  key(f, f'iter|{label}'), 'the candidate list is not built from every permitted model')
    # the successive filters, followed through the local definitions (names are free to change)
    defs = local_defs(f.node)

    def comp_defs(name):
        return [v for _, v in defs.get(name, []) if isinstance(v, ast.ListComp)]

    def shape(c):
        """(iterated name, normalised condition) of a one-generator list comprehension returning its own variable"""
        g = c.generators[0]
        v = g.target.id if isinstance(g.target, ast.Name) else None
        if v is None or ast.unparse(c.elt) != v or len(c.generators) != 1 or len(g.ifs) != 1:
            return None
        cond = ast.unparse(g.ifs[0])
        import re
        # what is filtered: a local, or the expression written in place
        return (g.iter.id if isinstance(g.iter, ast.Name) else g.iter), re.sub(rf'\b{v}\b', '_', cond)
    rets = [n for n in walk_no_nested(f.node) if isinstance(n, ast.Return)]
    R = rets[-1].value.id if rets and isinstance(rets[-1].value, ast.Name) else None
    shapes = [shape(c) for c in comp_defs(R)] if R else []
    shapes = [x for x in shapes if x]
    srcs = {x[0] if isinstance(x[0], str) else ast.unparse(x[0]) for x in shapes}
    ok = len(shapes) == 2 and len(srcs) == 1 and any(x[1] == '0 < _.power' for x in shapes)
    ctx.check('R5.capability', f'{site(f)} power filter', ok, key(f, 'filter|power'),
              'the returned list is not the gain-acceptable candidates whose power score is > 0 (with the fall-back below)', f'{shapes}')
    L2 = srcs.pop() if len(srcs) == 1 else None
    fb = [x for x in shapes if x[1] != '0 < _.power']
    pm = None
    if fb:
        import re
        m = re.fullmatch(r'-0\.3 < _\.power - (\w+)', fb[0][1])
        pm = m.group(1) if m else None
    pmd = [ast.unparse(v) for _, v in defs.get(pm, []) if isinstance(v, ast.AST)] if pm else []
    ok = pm is not None and pmd == [f"max({L2}, key=attrgetter('power')).power"]
    ctx.check('R5.capability', f'{site(f)} fall-back', ok, key(f, 'filter|fallback'),
              'when no candidate has enough power the fall-back is not "within 0.3 dB of the best power score among the gain-acceptable '
              'candidates"', f'{fb} {pmd}')
    s2 = [shape(c) for c in comp_defs(L2)] if L2 else []
    s2 = [x for x in s2 if x]
    ok = len(s2) == 1 and s2[0][1] == '0 < _.gain_min'
    ctx.check('R5.capability', f'{site(f)} gain filter', ok, key(f, 'filter|gain'),
              'candidates are not first kept on a positive minimum-gain margin', f'{s2}')
    L1 = s2[0][0] if s2 else None
    if isinstance(L1, ast.AST):
        merged = [L1] if isinstance(L1, ast.BinOp) and isinstance(L1.op, ast.Add) else []
    else:
        merged = [v for _, v in defs.get(L1, []) if isinstance(v, ast.BinOp) and isinstance(v.op, ast.Add)] if L1 else []
    # each of the two constructor comprehensions feeds exactly one operand of the merge (through a local or written in place)
    def feeds(c, operand):
        if any(x is c for x in ast.walk(operand)):
            return True
        st_ = stmt_of(f, c)
        return isinstance(operand, ast.Name) and isinstance(st_, ast.Assign) and isinstance(st_.targets[0], ast.Name) and \
            st_.targets[0].id == operand.id
    ok = len(merged) == 1 and len(ctors) == 2
    if ok:
        ops_ = [merged[0].left, merged[0].right]
        hit = [[k_ for k_, o in enumerate(ops_) if feeds(c, o)] for c in ctors]
        ok = all(len(h) == 1 for h in hit) and {h[0] for h in hit} == {0, 1}
    ctx.check('R5.capability', f'{site(f)} merge', ok, key(f, 'filter|merge'), 'the candidates are not the EDFA list plus the Raman list')
    # gain fall-back keeps EDFAs only, and raises when there is none
    alt = [ast.unparse(v) for _, v in defs.get(L2, []) if isinstance(v, ast.Name)] if L2 else []
    edfa_name = next((stmt_of(f, c).targets[0].id for c in ctors if getattr(c, '_is_plain', False) and isinstance(stmt_of(f, c), ast.Assign)), None)
    ctx.check('R5.capability', f'{site(f)} below every minimum gain', alt == [edfa_name] and
              any(isinstance(n, ast.Raise) and 'ConfigurationError' in ast.unparse(n) for n in walk_no_nested(f.node)), key(f, 'filter|gain-fallback'),
              'when the required gain is below every model\'s minimum gain the EDFA candidates are not kept (Raman excluded), or an '
              'empty EDFA list no longer raises')
    ctx.check('R5.capability', f'{site(f)} result', R is not None, key(f, 'result'), 'the function does not return a named candidate list')
    ctx.need('R5.capability', 15)



def rv_verbose(ctx):
    """Rv: blocks guarded by the `verbose` flag only report (no value read after the block, no object state written, no exit):
    the design does not depend on the logging flag"""
    from .common import verbose_rule
    from ..memo import scope_funcs
    verbose_rule(ctx, 'Rv.verbose-pure', scope_funcs(ctx.repo, 'C10'), 'the selected amplifier model would depend on the logging flag')
    ctx.need('Rv.verbose-pure', 2)


def rn_arg_roles(ctx):
    """Rn: a variable named like a parameter of the callee is handed to that parameter (no exchanged roles such as
    f(to_degree, from_degree) for def f(from_degree, to_degree)); calls to resolved package functions, canonical form"""
    from .common import arg_roles_rule
    from ..memo import scope_funcs
    # the selection is made on the targets its callers compute: the design walk and the single-amplifier step belong to the scan
    callers = [ctx.repo.func(NW, nm) for nm in ('set_egress_amplifier', 'set_one_amplifier', 'compute_gain_power_and_tilt_target')]
    n = arg_roles_rule(ctx, 'Rn.arg-roles', scope_funcs(ctx.repo, 'C10') + callers, 'the selection would be made on exchanged targets')
    ctx.check('Rn.arg-roles', 'argument / parameter name scan', True, 'C10|arg-roles-scan', '', f'{n} argument(s) named like another parameter judged')


def rk_field_key(ctx):
    """Rk: the amplifier parameter classes store every configuration entry under its own name (a stage limit read from the other
    stage would change the NF a model is ranked with) - shared with C04-Rk"""
    from ..fieldkey import field_key_rule
    repo = ctx.repo
    field_key_rule(ctx, 'Rk.field-key', [repo.cls('EdfaParams', 'gnpy.core.parameters'), repo.cls('EdfaOperational', 'gnpy.core.parameters')],
                   'a candidate would be ranked / judged with the limits of another stage or parameter')
    ctx.need('Rk.field-key', 20)


def r6_neighbours(ctx):
    """R6: the permitted set is read from the element's REAL neighbours: restrictions, multiband pre-selection and design all receive
    the walk's running predecessor and the element's successor (the booster list of the previous ROADM / the preamp list of
    the next ROADM apply only to adjacent amplifiers)"""
    from .common import neighbour_args_rule
    neighbour_args_rule(ctx, 'R6.neighbours', 'a ROADM restriction would be applied to amplifiers that are not adjacent to it (or ignored for those that are)')
    ctx.need('R6.neighbours', 3)


def r7_multiband_narrowing(ctx):
    """R7: a multi-band group is kept only if it can serve EVERY band: in preselect_multiband_amps the per-band candidates are drawn
    from the selection narrowed by the bands already handled (the variable initialised from the permitted list and re-assigned
    in the loop), not from the initial permitted list"""
    repo = ctx.repo
    f = repo.func(NW, 'preselect_multiband_amps')
    R = 'restrictions' if 'restrictions' in f.params else None
    lps = [lp for lp in walk_no_nested(f.node) if isinstance(lp, ast.For) and 'items()' in ast.unparse(lp.iter)]
    ok = False
    det = ''
    if R and len(lps) == 1:
        lp = lps[0]
        inits = [s.targets[0].id for s in f.node.body if isinstance(s, ast.Assign) and isinstance(s.targets[0], ast.Name) and
                 ast.unparse(s.value) in (f'list({R})', f'{R}.copy()', f'{R}[:]') and s.lineno < lp.lineno]
        carried = [v for v in inits if any(isinstance(s, ast.Assign) and ast.unparse(s.targets[0]) == v for s in ast.walk(lp))]
        comps = [c for c in ast.walk(lp) if isinstance(c, ast.DictComp) and any('.multi_band' in ast.unparse(g.iter) for g in c.generators)]
        if len(carried) == 1 and len(comps) == 1:
            src = ast.unparse(comps[0].generators[0].iter)
            det = f'candidates drawn from {src}; narrowed selection is {carried[0]}'
            ok = src == carried[0]
            rets = [n for n in walk_no_nested(f.node) if isinstance(n, ast.Return) and n.value is not None]
            ok = ok and bool(rets) and carried[0] in ast.unparse(rets[-1].value)
    ctx.check('R7.multiband-narrowing', site(f), ok, key(f, 'narrowing'),
              'the candidates of a band are not drawn from the selection narrowed by the previous bands: only the last band would decide '
              'the multi-band group, and a group that cannot deliver another band be chosen', det)
    ctx.need('R7.multiband-narrowing', 1)



def r8_alias_names(ctx):
    """R8: a library model reachable under several names (other_name) is built once per name and reports THAT name as its
    type_variety: the variety recorded for a selected amplifier is a member of the permitted list it was chosen from - rule shared
    with C18"""
    from .c18 import r5_aliases as _r
    from .common import proxy
    _r(proxy(ctx, 'R8'))


def r9_declared_band(ctx):
    """R9: the band a library entry DECLARES (f_min / f_max written in the equipment entry) is the band the selection filters on, for
    every kind of amplifier: in Amp.from_json, where the configuration file is merged over the entry (`{**kwargs, **config}`), the
    file's f_min / f_max are removed whenever the entry carries its own - under no condition on anything else (type_def, variety)"""
    from .common import holds_at
    repo = ctx.repo
    amp = repo.module('gnpy.tools.json_io').classes.get('Amp')
    if amp is None:
        raise AnchorMissing('json_io.Amp')
    fj = repo.method(amp, 'from_json')
    kw = fj.node.args.kwarg.arg if fj.node.args.kwarg else None
    if kw is None:
        raise AnchorMissing('Amp.from_json(**kwargs)')
    merges = [d for d in ast.walk(fj.node) if isinstance(d, ast.Dict) and sum(k is None for k in d.keys) >= 2 and
              any(k is None and isinstance(v, ast.Name) and v.id == kw for k, v in zip(d.keys, d.values))]
    if len(merges) != 1:
        raise CannotAnalyse('Amp.from_json: expected one merge of the entry with its configuration file')
    stars = [v.id for k, v in zip(merges[0].keys, merges[0].values) if k is None and isinstance(v, ast.Name)]
    cfgs = [n for n in stars if n != kw]
    if len(cfgs) != 1:
        raise CannotAnalyse(f'Amp.from_json: merge of {stars}')
    cfg = cfgs[0]
    if stars.index(cfg) < stars.index(kw):
        # the entry is merged last: its own f_min / f_max win without any removal
        ctx.check('R9.declared-band', f'{site(fj, merges[0])} entry merged over the file', True, key(fj, 'merge-order'), '')
        ctx.check('R9.declared-band', f'{site(fj, merges[0])} (nothing to remove)', True, key(fj, 'merge-order2'), '')
        ctx.need('R9.declared-band', 2)
        return
    for fld in ('f_min', 'f_max'):
        rem = []
        for n in walk_no_nested(fj.node):
            if isinstance(n, ast.Expr) and isinstance(n.value, ast.Call) and isinstance(n.value.func, ast.Attribute) and n.value.func.attr == 'pop' \
                    and ast.unparse(n.value.func.value) == cfg and n.value.args and isinstance(n.value.args[0], ast.Constant) and n.value.args[0].value == fld:
                rem.append(n)
            if isinstance(n, ast.Delete) and any(ast.unparse(t) == f"{cfg}['{fld}']" for t in n.targets):
                rem.append(n)
        if not rem:
            raise CannotAnalyse(f'Amp.from_json: the file is merged over the entry but its {fld} is never removed by pop / del')
        for r in rem:
            conds = holds_at(r)
            foreign = []
            for c in conds:
                names = {x.id for x in ast.walk(ast.parse(c, mode='eval')) if isinstance(x, ast.Name)}
                if not names <= {kw, cfg}:
                    foreign.append(c)
            own = [c for c in conds if kw in c and ('f_min' in c or 'f_max' in c)]
            ctx.check('R9.declared-band', f'{site(fj, r)} {fld}', not foreign and bool(own), key(fj, f'declared|{fld}'),
                      f"the file's {fld} gives way to the entry's only when {foreign or conds}: for the other amplifiers the band declared in "
                      'the library entry is silently replaced by the one of the configuration file, so an amplifier that does not cover '
                      'the design band passes the band filter (and can win as the quietest)')
    ctx.need('R9.declared-band', 2)


from ..memo import rule_for as _memo_rule

RULES_MEMO = ('Rm.memo', _memo_rule('C10', 'a model would be ranked or judged with the figures of another library or gain'))


from ..presence import rule_for as _presence_rule

RULES_PRESENCE = ('Rp.presence', _presence_rule('C10', 'a legal zero would be read as missing'))

RULES = [('R1.precedence', r1_precedence), ('R2.band-cover', r2_band_cover), ('R3.selection', r3_selection),
         ('R4.raman-gate', r4_raman_gate), ('R5.capability', r5_capability), RULES_MEMO, RULES_PRESENCE, ('Rv.verbose-pure', rv_verbose), ('Rn.arg-roles', rn_arg_roles), ('Rk.field-key', rk_field_key), ('R6.neighbours', r6_neighbours), ('R7.multiband-narrowing', r7_multiband_narrowing), ('R8.alias-names', r8_alias_names), ('R9.declared-band', r9_declared_band)]
