"""C16 - each request's result is independent of the other requests in the batch.

Non-interference argument in four structural legs:
 R1 isolation   : in every function reachable from planning(), each call that propagates a path (propagate /
                  propagate_and_optimize_mode) receives a path all of whose definitions are deep copies
                  (deepcopy(..), the value handed back by the propagation itself, or an empty list).
 R2 element state: (part of R2) persistent-state dataflow per element class, see statefields.py.
 R2 no leakage  : nothing reachable from those calls or from any element __call__ writes a module global or a class
                  attribute, nor the equipment library; the per-element state that one propagation leaves behind and
                  the next one reads is exactly the frozen table below (protected by R1); no process-wide settings
                  are changed during planning.
 R3 redesign    : design_network inside the batch is reached only under `if redesign`.
 R5 no memo    : a call with side effects on the request it is given is never skipped because of a table filled by
                  earlier requests.
 R4 shared state: the cross-request spectrum state (oms_list) is handed only to spectrum assignment, which runs after
                  all propagation; the per-request loop only writes attributes of its own request object.
 Rm memo          : every memoisation construct in the functions behind this property is keyed by everything it reads.
 Rp presence      : optional numeric fields are tested with `is None` / membership, never by truthiness (0 is a value).
 R6 carried       : per-request loops carry no local from one iteration to the next (must-definition dataflow).
 R7 defaults      : mutable defaults of the request parameter tables are copied per instance.
 Re for-each      : loops that act on every item are never left early (break / return).
 Ra alias mutation: a local that still names a list of another object (not copied) is never mutated in place.
 R8 same request  : compare_reqs compares the same attribute of both requests (shared with C19-R8).
 Rn arg roles     : a variable named like a parameter of the callee is handed to that parameter (no exchanged roles).
 R9 spectrum commit: spectrum maps are written only for served requests (shared with C14-R1/R2).
 R10 dispatch       : response dispatch on the blocking reason classes (shared with C19).
 R11 own groups     : pruning the candidates of one request only touches that request's own synchronisation groups.
"""
import ast

from ..model import AnchorMissing, CannotAnalyse, walk_no_nested, Func
from ..cfg import CFG, fmt_path
from ..dataflow import local_defs, names_in, derives
from ..effects import effects_of, reachable, all_effects
from ..statefields import exposed_and_written
from .common import kwarg, calls_to, site, key, stmt_of, enclosing

RQ = 'gnpy.topology.request'
WU = 'gnpy.tools.worker_utils'
EL = 'gnpy.core.elements'
PROPAGATORS = {'propagate', 'propagate_and_optimize_mode'}
# per-element run-time state read by the next propagation (one line of reason each)
KNOWN_STATE = {
    'Edfa': {'effective_gain': 'the gain actually applied is clamped in place against p_max; the property names this '
                               'hazard; harmless because every request propagates on a deep copy (R1)'},
}
EXPLANATION = (
    "Non-interference decided structurally: every propagation call reachable from planning() gets a deep copy of "
    "the path (all local definitions of the argument enumerated); effect summaries over the call graph show that "
    "propagation and every element __call__ write no module global, class attribute or library object; a "
    "persistent-state dataflow over each element's __call__ closure lists the attributes written by one propagation "
    "and read by the next, which must equal a frozen, reasoned table (Edfa.effective_gain only); redesign is reached "
    "only under the redesign flag; the shared spectrum state is passed only to spectrum assignment after propagation. "
    "Each result is therefore a function of (designed network, library, request). Aggregation and disjunction couple "
    "requests by design and are outside this property."
)
ASSUMPTIONS = ["deepcopy copies every element object of the path (no __deepcopy__ overrides in gnpy/)",
               "attribute stores and the enumerated container mutators are the only ways state is written"]
RULE_TEXT = ("sites: each propagation call in the planning closure; each function reachable from propagation (global "
             "writes); each element class (persistent state); the redesign call; each use of oms_list in planning")


def r1_isolation(ctx):
    repo = ctx.repo
    planning = repo.func(WU, 'planning')
    reach = reachable(repo, [planning], by_name_fallback=False)
    prop = {repo.func(RQ, n) for n in PROPAGATORS}
    n = 0
    for q, f in sorted(reach.items()):
        defs = None
        for c in calls_to(f, PROPAGATORS):
            if repo.resolve_call(f, c) not in prop:
                continue
            if f in prop:
                continue
            n += 1
            arg = c.args[0] if c.args else None
            st = site(f, c)
            if not isinstance(arg, ast.Name):
                ctx.bad('R1.isolation', st, key(f, f'arg|{ast.unparse(c)}'),
                        'the propagated path is not a local deep copy', ast.unparse(c))
                continue
            defs = defs or local_defs(f.node)
            bad = []
            for stmt, v in defs.get(arg.id, []):
                ok = False
                if isinstance(v, ast.Call) and isinstance(v.func, ast.Name) and v.func.id == 'deepcopy':
                    ok = True
                elif isinstance(v, ast.List) and not v.elts:
                    ok = True
                elif isinstance(v, tuple) and v[0] == 'unpack' and isinstance(v[1], ast.Call) and \
                        repo.resolve_call(f, v[1]) in prop and v[1].args and isinstance(v[1].args[0], ast.Name) and \
                        v[1].args[0].id == arg.id:
                    ok = True      # the propagation hands back the path it was given
                if not ok:
                    bad.append(ast.unparse(stmt)[:100])
            ctx.check('R1.isolation', st, not bad and bool(defs.get(arg.id)), key(f, f'not-a-copy|{arg.id}'),
                      f'{ast.unparse(c)[:60]}: the path {arg.id} is not a deep copy on every definition: elements of the '
                      'designed network would be mutated by this request and seen by later ones', '; '.join(bad))
    # no __deepcopy__ / __copy__ overrides that could share element state
    for f in repo.all_funcs():
        if f.name in ('__deepcopy__', '__copy__', '__reduce__', '__getstate__'):
            ctx.bad('R1.isolation', site(f), f'{f.qual}|copy-override', f'{f.qual} customises copying: deepcopy may share state')
    ctx.need('R1.isolation', 3, 'propagate x2, propagate_and_optimize_mode in compute_path_with_disjunction')


def r2_no_leak(ctx):
    repo = ctx.repo
    eff = all_effects(repo)
    roots = [repo.func(RQ, n) for n in sorted(PROPAGATORS)]
    elements = ['Transceiver', 'Roadm', 'Fused', 'Fiber', 'RamanFiber', 'Edfa', 'Multiband_amplifier']
    for cn in elements:
        cls = repo.cls(cn, EL)
        roots.append(repo.method(cls, '__call__'))
    reach = reachable(repo, roots, by_name_fallback=True)
    for q, f in sorted(reach.items()):
        e = eff.get(q)
        if e is None:
            continue
        gw = sorted(w for w in e.global_writes)
        # direct writes only are reported at their own function (transitive ones are reported at the writer)
        from ..effects import direct_effects
        dw = sorted(direct_effects(repo, f).global_writes)
        ctx.check('R2.no-global', site(f), not dw, f'{q}|global-write|{",".join(dw)}',
                  f'{q} is reachable from propagation and writes process-wide state {dw}: one request can change what the '
                  'next one computes')
    sp = repo.method(repo.cls('SimParams', 'gnpy.core.parameters'), 'set_params')
    ctx.check('R2.no-global', f'{site(sp)} not reachable from propagation', sp.qual not in reach, 'set_params-reachable',
              'SimParams.set_params is reachable from propagation')
    # equipment library is read-only for propagation
    for f in roots[:2]:
        if 'equipment' in f.params:
            w = eff[f.qual].param_writes.get(f.params.index('equipment'), set())
            ctx.check('R2.no-global', f'{site(f)} equipment read-only', not w, f'{f.qual}|writes-equipment',
                      f'{f.name} may write into the equipment library: {sorted(w)}')
    # persistent per-element state
    for cn in elements:
        cls = repo.cls(cn, EL)
        haz = exposed_and_written(repo, cls)
        known = KNOWN_STATE.get(cn, {})
        for a in sorted(haz):
            r, w = haz[a]
            ctx.check('R2.element-state', f'{site(repo.method(cls, "__call__"))} {cn}.{a}', a in known,
                      f'{cls.qual}|state|{a}',
                      f'{cn}.{a} is written by one propagation ({w[0]}) and read by the next ({r[0]}): the element keeps '
                      'per-path state (a cache, a running value) that is not in the reviewed table',
                      known.get(a, ''))
        for a in known:
            if a not in haz:
                ctx.info(f'{cn}.{a} is listed as known persistent state but no longer is one')
        if not haz:
            ctx.ok('R2.element-state', f'{cls.qual}', 'no attribute is both left behind and read back')
    ctx.need('R2.no-global', 40)
    ctx.need('R2.element-state', 7)


def r3_redesign(ctx):
    repo = ctx.repo
    f = repo.func(RQ, 'compute_path_with_disjunction')
    g = CFG(f.node)
    dcalls = calls_to(f, {'design_network'})
    if not dcalls:
        ctx.ok('R3.redesign', site(f), 'no redesign inside the batch')
    for c in dcalls:
        n = g.node_of(stmt_of(f, c))
        guards = [x for x in g.nodes if x.kind == 'test' and isinstance(x.expr, ast.Name) and x.expr.id == 'redesign']
        ok = False
        for gd in guards:
            if g.dominates(gd, n):
                # and only through the True edge
                fs = [y for y in g.succ[gd.id] if g.label.get((gd.id, y)) is False]
                p = None
                for y in fs:
                    p = g.path_avoiding(g.nodes[y], n, lambda m: m.id == gd.id, skip_labels=('exc',)) if y != n.id else [gd, n]
                ok = p is None
        ctx.check('R3.redesign', site(f, c), ok, key(f, 'redesign-unguarded'),
                  'the network is re-designed inside the batch without the redesign flag: requests would change the design '
                  'seen by later requests')
    pl = repo.func(WU, 'planning')
    pc = [c for c in calls_to(pl, {'compute_path_with_disjunction'})]
    rv = kwarg(pc[0], 'redesign') if pc else None
    ok = isinstance(rv, ast.Name) and rv.id == 'redesign' and 'redesign' in pl.params
    ctx.check('R3.redesign', site(pl), ok, key(pl, 'redesign-passthrough'),
              'planning does not hand its redesign flag through unchanged')
    ctx.need('R3.redesign', 2)


def r4_shared(ctx):
    repo = ctx.repo
    pl = repo.func(WU, 'planning')
    g = CFG(pl.node)
    # the shared spectrum state: the local(s) holding the result of build_oms_list
    shared = {stmt_of(pl, c).targets[0].id for c in calls_to(pl, {'build_oms_list'})
              if isinstance(stmt_of(pl, c), ast.Assign) and isinstance(stmt_of(pl, c).targets[0], ast.Name)}
    if not shared:
        raise CannotAnalyse('planning: the OMS list built by build_oms_list is not held in a local')
    uses = [n for n in walk_no_nested(pl.node) if isinstance(n, ast.Call) and
            any(isinstance(a, ast.Name) and a.id in shared for a in list(n.args) + [k.value for k in n.keywords])]
    names = sorted({(c.func.id if isinstance(c.func, ast.Name) else getattr(c.func, 'attr', '?')) for c in uses})
    ctx.check('R4.shared-state', f'{site(pl)} who gets oms_list', names == ['pth_assign_spectrum'], key(pl, 'oms-users'),
              f'the shared spectrum state is handed to {names}; only spectrum assignment may see it')
    pa = calls_to(pl, {'pth_assign_spectrum'})
    cp = calls_to(pl, {'compute_path_with_disjunction'})
    if pa and cp:
        a, c = g.node_of(stmt_of(pl, pa[0])), g.node_of(stmt_of(pl, cp[0]))
        ctx.check('R4.shared-state', f'{site(pl)} assignment after propagation', g.dominates(c, a), key(pl, 'order'),
                  'spectrum assignment does not come after the propagation of all requests')
    # the per-request loop writes only its own request
    f = repo.func(RQ, 'compute_path_with_disjunction')
    loops = [n for n in walk_no_nested(f.node) if isinstance(n, ast.For) and getattr(n, '_parent', None) is f.node]
    if len(loops) != 1:
        raise CannotAnalyse('compute_path_with_disjunction: expected one loop over the requests')
    lp = loops[0]
    own = None
    if isinstance(lp.target, ast.Tuple) and len(lp.target.elts) == 2 and isinstance(lp.target.elts[1], ast.Name):
        own = lp.target.elts[1].id
    wrote = set()
    for n in walk_no_nested(lp):
        tgts = n.targets if isinstance(n, ast.Assign) else ([n.target] if isinstance(n, (ast.AugAssign, ast.AnnAssign)) else [])
        for t in tgts:
            if isinstance(t, (ast.Attribute, ast.Subscript)):
                r = t
                while isinstance(r, (ast.Attribute, ast.Subscript)):
                    r = r.value
                if isinstance(r, ast.Name):
                    wrote.add(r.id)
    foreign = sorted(w for w in wrote if w != own)
    ctx.check('R4.shared-state', f'{site(f, lp)} loop writes its own request only', own is not None and not foreign,
              key(f, 'foreign-writes'), f'the per-request loop stores into {foreign} besides its own request {own}')
    # what compute_path_with_disjunction may write through its parameters
    e = effects_of(repo, f)
    for pn in ('network', 'equipment'):
        if pn in f.params:
            w = e.param_writes.get(f.params.index(pn), set())
            # redesign writes the network by intent; it is guarded (R3)
            if pn == 'network':
                continue
            ctx.check('R4.shared-state', f'{site(f)} {pn} read-only', not w, key(f, f'writes-{pn}'),
                      f'compute_path_with_disjunction may write into {pn}: {sorted(w)}')
    ctx.need('R4.shared-state', 4)


def r5_memo(ctx):
    """no result is shared between requests through a memo table: inside a loop over requests, a call that has side
    effects on the request it is given (blocking reason, selected mode, ...) must not be skipped on the strength of a
    table filled by earlier iterations"""
    repo = ctx.repo
    planning = repo.func(WU, 'planning')
    reach = reachable(repo, [planning], by_name_fallback=False)
    eff = all_effects(repo)
    n = 0
    for q, f in sorted(reach.items()):
        for lp in [x for x in walk_no_nested(f.node) if isinstance(x, ast.For) and isinstance(x.target, ast.Name)]:
            v = lp.target.id
            outer_tables = set()
            for nm, ds in local_defs(f.node).items():
                for stmt, val in ds:
                    if isinstance(val, (ast.Dict, ast.Set)) or (isinstance(val, ast.Call) and isinstance(val.func, ast.Name)
                                                                   and val.func.id in ('dict', 'set', 'defaultdict')):
                        if not any(stmt is y for y in ast.walk(lp)):
                            outer_tables.add(nm)
            written = set()
            for x in ast.walk(lp):
                if isinstance(x, ast.Assign) and isinstance(x.targets[0], ast.Subscript) and \
                        isinstance(x.targets[0].value, ast.Name) and x.targets[0].value.id in outer_tables:
                    written.add(x.targets[0].value.id)
                if isinstance(x, ast.Call) and isinstance(x.func, ast.Attribute) and x.func.attr in ('add', 'setdefault', 'update') \
                        and isinstance(x.func.value, ast.Name) and x.func.value.id in outer_tables:
                    written.add(x.func.value.id)
            for c in [x for x in ast.walk(lp) if isinstance(x, ast.Call)]:
                callee = repo.resolve_call(f, c)
                if not isinstance(callee, Func) or callee.qual not in eff:
                    continue
                idxs = [i for i, a in enumerate(c.args) if isinstance(a, ast.Name) and a.id == v]
                off = 1 if (callee.cls is not None and isinstance(c.func, ast.Attribute) and callee.kind == 'method') else 0
                side = [i for i in idxs if eff[callee.qual].param_writes.get(i + off)]
                if not side:
                    continue
                n += 1
                # control dependence on a membership test against a table written in this loop
                guard = None
                cur = getattr(c, '_parent', None)
                while cur is not None and cur is not lp:
                    if isinstance(cur, (ast.If, ast.IfExp)):
                        for t in ast.walk(cur.test):
                            if isinstance(t, ast.Compare) and any(isinstance(o, (ast.In, ast.NotIn)) for o in t.ops) and \
                                    isinstance(t.comparators[0], ast.Name) and t.comparators[0].id in written:
                                guard = (t.comparators[0].id, cur)
                    cur = getattr(cur, '_parent', None)
                w = sorted(eff[callee.qual].param_writes.get(side[0] + off))
                ctx.check('R5.memo', site(f, c), guard is None, key(f, f'memo|{callee.name}|{guard[0] if guard else ""}'),
                          f'{callee.name}({v}) writes {w} on the request it is given, but is skipped when table '
                          f'{guard[0] if guard else ""} already holds an entry from an earlier request: requests share a result '
                          'and the later one misses its own side effects (e.g. its blocking reason)',
                          ast.unparse(guard[1].test) if guard else '')
    ctx.need('R5.memo', 2)



def r6_carried(ctx):
    """R6: the loops that handle one request per iteration (building the requests from JSON, propagating them, assigning their
    spectrum) carry no local from one iteration to the next: must-definition dataflow over one iteration (gscan/carried.py);
    arithmetic accumulators are not carried values, `x = new or x` is"""
    from ..carried import carried_rule
    carried_rule(ctx, 'R6.carried', {('gnpy.tools.json_io', 'requests_from_json'), ('gnpy.topology.request', 'compute_path_with_disjunction'),
                                     ('gnpy.topology.spectrum_assignment', 'pth_assign_spectrum')},
                 'a request would inherit a value of the request before it')
    ctx.need('R6.carried', 3)


def r7_defaults(ctx):
    """R7: request parameter objects do not share their mutable defaults: where a default from the class-level default_values
    table is stored on an instance, list / dict defaults are copied (the planner appends to nodes_list / loose_list in place)"""
    repo = ctx.repo
    tp = repo.module('gnpy.topology.topology_parameters')
    base = tp.classes.get('BaseParams')
    if base is None or 'update_attr' not in base.methods:
        raise AnchorMissing('topology_parameters.BaseParams.update_attr')
    mutable = []
    for c in tp.classes.values():
        dv = c.class_assigns.get('default_values')
        if isinstance(dv, ast.Dict):
            mutable += [k.value for k, v in zip(dv.keys, dv.values) if isinstance(v, (ast.List, ast.Dict)) and isinstance(k, ast.Constant)]
    f = base.methods['update_attr']
    loops = [n for n in walk_no_nested(f.node) if isinstance(n, ast.For) and 'default_values' in ast.unparse(n.iter) and
             isinstance(n.target, ast.Tuple) and len(n.target.elts) == 2]
    if len(loops) != 1:
        raise CannotAnalyse('BaseParams.update_attr: loop over the default table')
    kv, dv_ = loops[0].target.elts[0].id, loops[0].target.elts[1].id
    n = 0
    for c in [x for x in ast.walk(loops[0]) if isinstance(x, ast.Call) and getattr(x.func, 'id', '') == 'setattr' and len(x.args) == 3]:
        val = c.args[2]
        d = val.args[1] if isinstance(val, ast.Call) and isinstance(val.func, ast.Attribute) and val.func.attr == 'get' and len(val.args) == 2 else val
        raw = isinstance(d, ast.Name) and d.id == dv_
        copied = isinstance(d, ast.Call) and ast.unparse(d.func) in ('deepcopy', 'copy.deepcopy', 'copy', 'copy.copy') and ast.unparse(d.args[0]) == dv_
        ok = copied
        if raw:
            # allowed only on the side of a test that excludes lists and dicts
            g = enclosing(c, ast.If)
            ok = g is not None and ast.unparse(g.test).replace(' ', '') in (f'isinstance({dv_},(list,dict))', f'isinstance({dv_},(dict,list))') and \
                any(c is x for s_ in g.orelse for x in ast.walk(s_))
        n += 1
        ctx.check('R7.defaults', site(f, c), ok or not mutable, key(f, f'default|{ast.unparse(d)[:30]}'),
                  f'the default of a parameter is stored on the instance without a copy although the tables hold mutable defaults {mutable[:4]}: '
                  'all requests built without that field share ONE list, and the planner appends to it in place '
                  '(the destinations of earlier requests become constraints of later ones)', ast.unparse(c)[:120])
    ctx.check('R7.defaults', f'{site(f)} mutable defaults exist', bool(mutable), key(f, 'mutable-defaults'),
              'no mutable default left in the request parameter tables (rule instance vanished)')
    ctx.need('R7.defaults', 3)


def re_foreach(ctx):
    """Re: loops that act on EVERY item (store on the item / call a function that writes it) are never left early (break / return):
    the items after the exit would silently be skipped; the two search loops of the package are a frozen table"""
    from .common import foreach_rule
    from ..memo import scope_funcs
    foreach_rule(ctx, 'Re.for-each', scope_funcs(ctx.repo, 'C16'), 'later requests are not handled')
    ctx.need('Re.for-each', 3)


def ra_alias(ctx):
    """Ra: a local that still names a list / dict of another object (bound from an attribute or an item, not copied on that path:
    freshness lattice) is never mutated in place"""
    from .common import alias_mutation_rule
    from ..memo import scope_funcs
    alias_mutation_rule(ctx, 'Ra.alias-mutation', scope_funcs(ctx.repo, 'C16'), 'the topology / spectrum objects shared by all requests would be changed by one request')
    ctx.need('Ra.alias-mutation', 20)


def r8_same_request(ctx):
    """R8: only identical requests are merged into one: compare_reqs compares the same attribute of both requests at every
    comparison (shared with C19-R8) - otherwise the result of one request depends on an unrelated one in the batch"""
    from .common import compare_pairs_rule
    compare_pairs_rule(ctx, 'R8.same-request', 'a request would be merged with a different one present in the same batch and take its result')
    ctx.need('R8.same-request', 15)


def rn_arg_roles(ctx):
    """Rn: a variable named like a parameter of the callee is handed to that parameter (no exchanged roles such as
    f(to_degree, from_degree) for def f(from_degree, to_degree)); calls to resolved package functions, canonical form"""
    from .common import arg_roles_rule
    from ..memo import scope_funcs
    n = arg_roles_rule(ctx, 'Rn.arg-roles', scope_funcs(ctx.repo, 'C16'), 'requests / paths would be exchanged')
    ctx.check('Rn.arg-roles', 'argument / parameter name scan', True, 'C16|arg-roles-scan', '', f'{n} argument(s) named like another parameter judged')


def r9_spectrum_commit(ctx):
    """R9: the one piece of state requests legitimately share - the spectrum maps - is written only for requests that are served:
    commit-after-check and scratch freshness of the spectrum assignment (shared with C14-R1/R2); a blocked request must not
    change what later requests find"""
    from .c14 import r2_commit, r1_fresh
    from .common import proxy
    r1_fresh(proxy(ctx, 'R9'))
    r2_commit(proxy(ctx, 'R9'))



def r10_dispatch(ctx):
    """R10: what a request is answered does not depend on WHY an unrelated batch member blocked it: a request blocked for spectrum
    still reports its candidate route and figures (the response dispatch: reason only for the no-route reasons) - shared with C19"""
    from .c19 import r3_dispatch as _r
    from .common import proxy
    _r(proxy(ctx, 'R10'))



def r11_own_groups(ctx):
    """R11: while the candidates of ONE request are pruned, only the synchronisation groups that request belongs to are touched: in
    compute_path_dsjctn every removal from the candidate table made inside the per-request loop is indexed by a variable that
    ranges over the groups selected with `<request>.request_id in <group>.disjunctions_req` - a route that is unusable for one
    request must not disappear from an unrelated group"""
    from .common import resolved
    repo = ctx.repo
    f = repo.func('gnpy.topology.request', 'compute_path_dsjctn')
    defs = local_defs(f.node)
    n = 0
    for lp in [x for x in walk_no_nested(f.node) if isinstance(x, ast.For) and isinstance(x.target, ast.Name)]:
        rq = lp.target.id
        own = [nm for nm, dd in defs.items() for _, v in dd if isinstance(v, ast.ListComp) and
               any(f'{rq}.request_id in' in ast.unparse(i) and 'disjunctions_req' in ast.unparse(i) for g in v.generators for i in g.ifs)
               and enclosing(dd[0][0], ast.For) is lp]
        if not own:
            continue
        for c in [x for x in ast.walk(lp) if isinstance(x, ast.Call) and isinstance(x.func, ast.Attribute) and x.func.attr in ('remove', 'pop', 'clear')
                  and isinstance(x.func.value, ast.Subscript) and isinstance(x.func.value.value, ast.Name)]:
            k = x_ = c.func.value.slice
            n += 1
            src = None
            if isinstance(k, ast.Name):
                for l2 in ast.walk(lp):
                    if isinstance(l2, ast.For) and isinstance(l2.target, ast.Name) and l2.target.id == k.id and any(c is y for y in ast.walk(l2)):
                        src = l2.iter
            ok = isinstance(src, ast.Name) and src.id in own
            ctx.check('R11.own-groups', f'{site(f, c)} {ast.unparse(c)[:50]}', ok, key(f, f'own-groups|{ast.unparse(c.func.value.value)}'),
                      f'candidates are removed from the group `{ast.unparse(k)}`, which does not range over the groups of the request being '
                      f'pruned ({own}): a route unusable for one request disappears from an unrelated group and another request of the batch '
                      'gets a different route', ast.unparse(src) if src is not None else '')
    ctx.need('R11.own-groups', 1)


def r12_request_identity(ctx):
    """R12: a request is itself and nothing else: the batch code separates the synchronised from the simple requests, removes
    candidates and looks requests up with `in` / `index` / `remove` / dict keys on PathRequest objects, which is only right while
    two DIFFERENT requests never compare equal - PathRequest keeps Python's identity comparison, or an `__eq__` that reads nothing
    but the request id (an `__eq__` on the demand makes a request be treated like its same-demand twin in the batch)"""
    repo = ctx.repo
    c = repo.cls('PathRequest', 'gnpy.topology.request')
    sites = 0
    for k in repo.mro(c):
        for nm in ('__eq__', '__hash__', '__ne__'):
            m = k.methods.get(nm)
            if m is None:
                continue
            sites += 1
            reads, todo, seen = set(), [m], set()
            while todo:
                g = todo.pop()
                if g.qual in seen:
                    continue
                seen.add(g.qual)
                for x in ast.walk(g.node):
                    if isinstance(x, ast.Attribute) and isinstance(x.value, ast.Name) and x.value.id in (g.params[:1] + g.params[1:2]):
                        h = k.methods.get(x.attr)
                        if h is not None:
                            todo.append(h)
                        else:
                            reads.add(x.attr)
            ctx.check('R12.request-identity', f'{site(m)}', reads <= {'request_id'}, key(m, 'identity'),
                      f'{k.name}.{nm} compares requests by {sorted(reads)}: two different requests of one batch can be equal, so the '
                      'membership tests / removals of the disjunction and aggregation code treat a request like another one - its '
                      'result then depends on which other requests are in the batch')
    if not sites:
        ctx.check('R12.request-identity', f'{c.qual} identity comparison', True, f'{c.qual}|identity', '')
    ctx.need('R12.request-identity', 1)


from ..memo import rule_for as _memo_rule

RULES_MEMO = ('Rm.memo', _memo_rule('C16', 'requests would share a result'))


from ..presence import rule_for as _presence_rule

RULES_PRESENCE = ('Rp.presence', _presence_rule('C16', 'a legal zero would be read as missing'))

RULES = [('R5.memo', r5_memo), ('R1.isolation', r1_isolation), ('R2.no-leak', r2_no_leak), ('R3.redesign', r3_redesign), ('R4.shared', r4_shared), RULES_MEMO, RULES_PRESENCE, ('R6.carried', r6_carried), ('R7.defaults', r7_defaults), ('Re.for-each', re_foreach), ('Ra.alias-mutation', ra_alias), ('R8.same-request', r8_same_request), ('Rn.arg-roles', rn_arg_roles), ('R9.spectrum-commit', r9_spectrum_commit), ('R10.dispatch', r10_dispatch), ('R11.own-groups', r11_own_groups), ('R12.request-identity', r12_request_identity)]
