"""C03 - fibre NLI equals the GN-model closed form and obeys its scaling laws (analytic GN method).

 R1 closed form : role-aware value graph (numpy broadcasting: outer(x, ones) = cut role, bare / outer(ones, x) =
                  pump role) of NliSolver._psi and _gn_analytic against the published form
                    psi[c,p] = (asinh(pi^2 La |b| B_c (df + B_p/2)) - asinh(pi^2 La |b| B_c (df - B_p/2)))/2
                               * Leff^2 / (2 pi |b| La),       b = (beta_c + beta_p)/2
                    eta[c,p] = gamma_c^2 w[c,p] psi[c,p] / B_p^2,   w = SPM on the diagonal, XPM elsewhere
                    Leff = (1 - exp(-alpha L))/alpha,  La = 1/alpha,  SPM = 16/27, XPM = 32/27,  df = f_p - f_c
 R2 combination : nli[c] = sum_p P_c P_p^2 eta[c,p]; degree 3 in channel power; eta does not derive from power.
 R3 coefficients: alpha = loss_coef/(10 log10 e); gamma() returns params.gamma_scaling(f); beta2 from dispersion.
 R4 method gate : the analytic branch is selected by equality with 'gn_model_analytic' and unknown methods raise.
 Rm memo          : every memoisation construct in the functions behind this property is keyed by everything it reads.
 Rp presence      : optional numeric fields are tested with `is None` / membership, never by truthiness (0 is a value).
 Rs sorted        : every numpy.interp abscissa is ascending by construction or by a recorded precondition.
 R6 applied       : compute_nli's result reaches add_nli unchanged, and add_nli moves exactly that amount (shared with C01-R3).
 Rn arg roles     : a variable named like a parameter of the callee is handed to that parameter (no exchanged roles).
 R7 fibre inputs  : f_ref x lambda_ref = c for every input form; NLI evaluated after input connector + padding (shared with C05-R1).
 Rs2 fibre tables  : the per-frequency fibre parameters are interpolated on an ascending abscissa (rule shared with C05).
 R8 selecting defaults: keys whose None-ness selects what FiberParams derives have no concrete library default.
"""
import ast
from fractions import Fraction

from ..model import AnchorMissing, CannotAnalyse, walk_no_nested
from ..poly import Rat, C, mk_atom, fn, lem_abs, lem_odd, lem_cut, lem_exp, lem_log, subst, REG
from ..vg import Evaluator, vkey, atoms_of, Const
from ..domains import degree_in, sign, POS, NONNEG, ZERO
from .common import site, key, calls_to, stmt_of

SU = 'gnpy.core.science_utils'
EXPLANATION = (
    "Role-aware value graph of NliSolver._psi, _gn_analytic and the analytic branch of compute_nli, normalised to a "
    "rational form over entry atoms with cut/pump broadcasting roles, compared with the published GN closed form "
    "(arXiv:1209.0394 eq. 120/123) including the SPM/XPM weights as exact fractions, the half-bandwidth terms, the "
    "averaged beta2 and the effective/asymptotic lengths; the combination with channel powers is checked to be "
    "P_c * P_p^2 * eta summed over pumps and homogeneous of degree 3 in power with eta independent of power; the "
    "fibre coefficient functions are checked against their definitions. Cube law, monotonicity in added "
    "channels/power and order independence are theorems of that formula (eta >= 0 is decided in C02). Not decided: "
    "the GGN methods (numerical integration), numerical equality with stored data."
)
ASSUMPTIONS = ["numpy broadcasting: a 1-D array in a 2-D expression varies along the last (pump) axis; "
               "outer(x, ones(n)) varies along the first (cut) axis",
               "real arithmetic", "the paper has one attenuation: alpha-derived quantities carry no role"]
RULE_TEXT = ("sites: return value of _psi, of _gn_analytic, nli in compute_nli's analytic arm, SpectralInformation._df, "
             "alpha / beta2 / gamma of Fiber, SPM/XPM constants; non-trivial = two normal forms compared")


def nli_cls(repo):
    return repo.cls('NliSolver', SU)


def psi_spec(DF, B, BETA, LEFF, LA):
    pi = Rat.sym('pi')
    bbar = (lem_cut(BETA) + BETA) * C(Fraction(1, 2))
    ab = lem_abs(bbar)
    Bc = lem_cut(B)
    x1 = pi.pow(2) * LA * ab * Bc * (DF + B * C(Fraction(1, 2)))
    x2 = pi.pow(2) * LA * ab * Bc * (DF - B * C(Fraction(1, 2)))
    return (lem_odd('asinh', x1) - lem_odd('asinh', x2)) * C(Fraction(1, 2)) * LEFF.pow(2) / (C(2) * pi * ab * LA)


def r1_closed_form(ctx):
    repo = ctx.repo
    K = nli_cls(repo)
    psi = repo.method(K, '_psi')
    names = psi.params
    if len(names) != 5:
        raise AnchorMissing(f'NliSolver._psi signature changed: {names}')
    sym = {n: Rat.sym(n.upper() + '#') for n in names}
    ev = Evaluator(repo, psi).run_function(bind=dict(sym))
    got = ev.ret()
    DF, B, BETA, LEFF, LA = (sym[n] for n in names)
    want = psi_spec(DF, B, BETA, LEFF, LA)
    ctx.check('R1.psi', site(psi), isinstance(got, Rat) and got.eq(want), key(psi, 'closed-form'),
              '_psi is not the published asinh kernel (check cut/pump roles of baud rate and beta2, the half-bandwidth '
              'terms, |beta2|, Leff^2/(2 pi |beta2| La))', f'got {vkey(got)[:400]}')
    # a deliberately wrong role assignment must NOT match (positive control for the role machinery)
    wrong = psi_spec(DF, lem_cut(B), BETA, LEFF, LA)
    ctx.check('R1.psi', f'{site(psi)} role control', isinstance(got, Rat) and not got.eq(wrong), key(psi, 'role-control'),
              'the role-aware comparison cannot tell cut from pump baud rate (engine self-check)')
    # eta
    gn = repo.method(K, '_gn_analytic')
    si = repo.cls('SpectralInformation', 'gnpy.core.info')
    sp, fb = gn.params[0], gn.params[1]
    ev = Evaluator(repo, gn, types={sp: si}, no_inline={'alpha', 'beta2', 'gamma'})
    # the weights are defaulted parameters; compute_nli passes only (spectrum, fibre): bind the defaults
    bind = {p: ev.ev_default(d, gn) for p, d in gn.defaults().items()}
    ev.run_function(bind=bind)
    eta = ev.ret()
    f_ = Rat.of(mk_atom('fld', f'{sp}._frequency'))
    Bv = Rat.of(mk_atom('fld', f'{sp}._baud_rate'))
    DFv = Rat.of(mk_atom('fld', f'{sp}._df'))

    def call(m):
        cands = [c for c in ev.calls if c.name == m]
        if not cands:
            raise AnchorMissing(f'_gn_analytic no longer calls fiber.{m}')
        c = cands[0]
        return Rat.of(mk_atom('fn', f'.{m}', [c.base] + ev.argkeys(c.args, c.kwargs))), c
    alpha, ca = call('alpha')
    beta2, cb = call('beta2')
    gamma_, cg = call('gamma')
    for nm, c in (('alpha', ca), ('beta2', cb), ('gamma', cg)):
        ok = len(c.args) == 1 and isinstance(c.args[0], Rat) and c.args[0].eq(f_)
        ctx.check('R1.eta', f'{site(gn, c.node)} {nm}(frequency)', ok, key(gn, f'{nm}-at-channel-frequency'),
                  f'fiber.{nm} is not evaluated at the channel frequencies', f'{nm}({", ".join(vkey(a) for a in c.args)})')
    Lm = Rat.of(mk_atom('fld', f'{fb}.params.length'))
    leff = (C(1) - lem_exp(-(alpha * Lm), 'exp')) / alpha
    la = C(1) / alpha
    I = Rat.sym('IDENTITY')
    W = C(Fraction(16, 27)) * I + C(Fraction(32, 27)) * (C(1) - I)
    want_eta = lem_cut(gamma_).pow(2) * W * psi_spec(DFv, Bv, beta2, leff, la) / Bv.pow(2)
    ctx.check('R1.eta', site(gn), isinstance(eta, Rat) and eta.eq(want_eta), key(gn, 'closed-form'),
              '_gn_analytic is not gamma_c^2 * w * psi / B_p^2 with w = 16/27 on the diagonal and 32/27 elsewhere, '
              'Leff = (1-exp(-alpha L))/alpha, La = 1/alpha', f'got {vkey(eta)[:500]}')
    # constants as exact fractions
    for nm, val in (('SPM_WEIGHT', Fraction(16, 27)), ('XPM_WEIGHT', Fraction(32, 27))):
        from ..model import const_fold
        v = const_fold(K.class_assigns.get(nm), K.module, repo) if nm in K.class_assigns else None
        ctx.check('R1.eta', f'{K.module.rel} NliSolver.{nm}', v == val, f'{K.qual}|{nm}',
                  f'{nm} is {v}, the GN model uses {val}')
    # df = f_p - f_c
    init = repo.method(si, '__init__')
    evi = Evaluator(repo, init).run_function()
    df = evi.exit_field('self._df')
    fr = evi.exit_field('self._frequency')
    ctx.check('R1.eta', f'{site(init)} _df', isinstance(df, Rat) and isinstance(fr, Rat) and df.eq(fr - lem_cut(fr)),
              key(init, 'df'), 'SpectralInformation._df is not f_pump - f_cut of the sorted frequencies',
              f'got {vkey(df)[:200]}')
    ctx.need('R1.psi', 2)
    ctx.need('R1.eta', 7)


def r2_combination(ctx):
    repo = ctx.repo
    K = nli_cls(repo)
    f = repo.method(K, 'compute_nli')
    si = repo.cls('SpectralInformation', 'gnpy.core.info')
    sp = f.params[0]
    ev = Evaluator(repo, f, types={sp: si}, no_inline={'_gn_analytic', '_ggn_spectrally_separated', '_ggn_approx'}).run_function()
    # the analytic arm: the outcome whose path condition selects 'gn_model_analytic' by equality
    arm = None
    for pc, val, _ in ev.outcomes:
        for ck, v in pc:
            if 'gn_model_analytic' in ck and v:
                arm = (pc, val, ck)
    if arm is None:
        # single return after the if-chain: restrict the merged value
        from ..poly import gamma_conds, restrict
        r = ev.ret()
        conds = [c for c in gamma_conds(r) if 'gn_model_analytic' in c]
        if not conds:
            raise AnchorMissing("compute_nli has no branch selected by 'gn_model_analytic'")
        arm = ([], restrict(r, {conds[0]: True}), conds[0])
    pc, val, ck = arm
    ctx.check('R4.method-gate', f'{site(f)} analytic gate', ck.startswith('eq(') and 'nli_params.method' in ck, key(f, 'gate'),
              "the analytic branch is not selected by equality of nli_params.method with 'gn_model_analytic'", ck)
    ecalls = [c for c in ev.calls if c.name == '_gn_analytic']
    if not ecalls:
        raise AnchorMissing('compute_nli no longer calls _gn_analytic')
    eta = Rat.of(mk_atom('fn', f'call:{K.qual}._gn_analytic', ev.argkeys(ecalls[0].args, ecalls[0].kwargs)))
    ctx.check('R2.combination', f'{site(f, ecalls[0].node)} default weights', len(ecalls[0].args) == 2 and not ecalls[0].kwargs,
              key(f, 'weights-overridden'), 'compute_nli overrides the SPM/XPM weights of _gn_analytic',
              ast.unparse(ecalls[0].node))
    P = Rat.of(mk_atom('fld', f'{sp}._pch'))
    a = val.single_atom() if isinstance(val, Rat) else None
    ok = a is not None and a.kind == 'fn' and a.name == 'sum' and len(a.args) >= 2 and isinstance(a.args[0], Rat) and \
        a.args[0].eq(lem_cut(P) * P.pow(2) * eta) and isinstance(a.args[1], Rat) and a.args[1].eq(C(1))
    ctx.check('R2.combination', site(f), ok, key(f, 'sum'),
              'the analytic NLI is not sum over pumps of P_cut * P_pump^2 * eta', f'got {vkey(val)[:300]}')
    if a is not None and a.args and isinstance(a.args[0], Rat):
        d = degree_in(a.args[0], lambda at: at.kind == 'fld' and at.name == f'{sp}._pch')
        ctx.check('R2.combination', f'{site(f)} cube law', d == 3, key(f, 'degree'),
                  f'NLI is homogeneous of degree {d} in channel power, the GN model is cubic')
    # eta independent of power
    gn = repo.method(K, '_gn_analytic')
    evg = Evaluator(repo, gn, types={gn.params[0]: si}, no_inline={'alpha', 'beta2', 'gamma'}).run_function()
    dep = sorted(at.name for at in atoms_of(evg.ret()).values() if at.kind == 'fld' and
                 any(w in at.name for w in ('_pch', '_ratio', 'power', 'signal')))
    ctx.check('R2.combination', f'{site(gn)} eta independent of power', not dep, key(gn, 'eta-power'),
              f'the NLI efficiency eta depends on power-like state {dep}: the cube law no longer holds')
    # unknown method raises
    last_raise = any(isinstance(n, ast.Raise) for n in walk_no_nested(f.node))
    ctx.check('R4.method-gate', f'{site(f)} unknown method', last_raise, key(f, 'unknown-raises'),
              'an unknown NLI method no longer raises')
    # the fibre hands the result to add_nli unchanged
    fib = repo.cls('Fiber', 'gnpy.core.elements')
    for cls in (fib, repo.cls('RamanFiber', 'gnpy.core.elements')):
        pr = repo.method(cls, 'propagate')
        evp = Evaluator(repo, pr, types={'self': cls, pr.params[1]: si},
                        no_inline={'compute_nli', 'calculate_stimulated_raman_scattering',
                                   'calculate_spontaneous_raman_scattering', 'add_nli', 'add_ase', 'chromatic_dispersion',
                                   'apply_attenuation_db', 'apply_attenuation_lin'}).run_function()
        nc = [c for c in evp.calls if c.name == 'compute_nli']
        an = [c for c in evp.calls if c.name == 'add_nli']
        ok = len(nc) == 1 and len(an) == 1 and isinstance(an[0].args[0], Rat) and \
            an[0].args[0].single_atom() is not None and 'compute_nli' in an[0].args[0].single_atom().name
        ctx.check('R2.combination', f'{site(pr)} add_nli(compute_nli(..))', ok, key(pr, 'nli-passthrough'),
                  'the fibre does not add exactly the NLI computed by NliSolver.compute_nli',
                  f'add_nli({vkey(an[0].args[0])[:160] if an else None})')
        # NLI is evaluated after the input connector/padding loss and before the fibre attenuation
        order = [c.name for c in evp.calls if c.name in ('apply_attenuation_db', 'compute_nli', 'apply_attenuation_lin')]
        ctx.check('R2.combination', f'{site(pr)} evaluated at fibre input', order[:3] == ['apply_attenuation_db', 'compute_nli', 'apply_attenuation_lin'],
                  key(pr, 'nli-position'), 'NLI is not evaluated on the spectrum at the fibre input (after input '
                  'connector/padding, before the span attenuation)', f'order {order}')
    ctx.need('R2.combination', 7)
    ctx.need('R4.method-gate', 2)


def r3_coefficients(ctx):
    repo = ctx.repo
    fib = repo.cls('Fiber', 'gnpy.core.elements')
    a = repo.method(fib, 'alpha')
    ev = Evaluator(repo, a, types={'self': fib}, no_inline={'loss_coef_func'}).run_function()
    got = ev.ret()
    lc = [c for c in ev.calls if c.name == 'loss_coef_func']
    ok = False
    if lc and isinstance(got, Rat):
        lcv = Rat.of(mk_atom('fn', f'call:{fib.qual}.loss_coef_func', ev.argkeys([Rat.sym('self')] + lc[0].args, lc[0].kwargs)))
        want = lcv / (C(10) * lem_log(lem_exp(C(1), 'exp'), 'log10'))
        ok = got.eq(want) and lc[0].args and lc[0].args[0].eq(Rat.sym(a.params[1]))
    ctx.check('R3.coefficients', site(a), ok, key(a, 'alpha'),
              'alpha is not loss_coef(f) / (10 log10 e)', f'got {vkey(got)[:200]}')
    g = repo.method(fib, 'gamma')
    ev = Evaluator(repo, g, types={'self': fib}).run_function()
    got = ev.ret()
    txt = vkey(got)
    ok = 'gamma_scaling' in txt and 'self.params' in txt
    ctx.check('R3.coefficients', site(g), ok, key(g, 'gamma'), 'gamma() is not params.gamma_scaling(frequency)', txt[:200])
    b = repo.method(fib, 'beta2')
    ev = Evaluator(repo, b, types={'self': fib}, no_inline={'interpolate_parameter_over_spectrum'}).run_function()
    ok_all = True
    n = 0
    cc = Rat.sym('c')
    pi = Rat.sym('pi')
    for pc, val, _ in ev.outcomes:
        if not isinstance(val, Rat):
            ok_all = False
            continue
        n += 1
        # beta2 = -(c/f)^2 D / (2 pi c): recover D and check it does not vanish / is the dispersion on this path
        fcands = [at for at in atoms_of(val).values()]
        fr = None
        # frequency used on this path = gamma(isnone(frequency), ref_frequency, frequency)
        D = val * (C(-1)) * (C(2) * pi * cc)
        # D * (f/c)^2 must be free of c and pi for the slope-free arms; check only the generic shape:
        ok_all = ok_all and 'dispersion' in vkey(val)
    ctx.check('R3.coefficients', site(b), ok_all and n >= 1, key(b, 'beta2'),
              'beta2 is not derived from the fibre dispersion on every path', f'{n} return paths')
    # exact form on the path with scalar dispersion and no slope
    from ..poly import restrict, gamma_conds
    r = ev.ret()
    conds = gamma_conds(r)
    assume = {}
    for c_ in conds:
        if 'dispersion.size' in c_ or 'dispersion,' in c_ and 'size' in c_:
            assume[c_] = False
        elif 'dispersion_slope' in c_:
            assume[c_] = True
        elif 'isnone(frequency)' in c_ or c_.startswith('isnone('):
            assume[c_] = False
    rr = restrict(r, assume)
    fsym = Rat.sym(b.params[1])
    Dref = Rat.of(mk_atom('fld', 'self.params.dispersion'))
    fref = Rat.of(mk_atom('fld', 'self.params.f_dispersion_ref'))
    want = -((cc / fsym).pow(2) * ((fsym / fref).pow(2) * Dref)) / (C(2) * pi * cc)
    ctx.check('R3.coefficients', f'{site(b)} scalar dispersion', isinstance(rr, Rat) and rr.eq(want), key(b, 'beta2-scalar'),
              'beta2 (scalar dispersion, no slope) is not -(c/f)^2 * D(f) / (2 pi c) with D(f) = (f/f_ref)^2 D',
              f'got {vkey(rr)[:300]}')
    ctx.need('R3.coefficients', 4)


def r5_sorted(ctx):
    """order independence: R1+R2 are symmetric under relabelling once all per-channel arrays are permuted alike"""
    from .c01 import r2_base
    from .common import proxy
    r2_base(proxy(ctx, 'R5'))          # constructor permutation + field-by-field mapping of select_channels / __add__
    ctx.need('R5.init-permutation', 16)



def rs_sorted(ctx):
    """Rs: every numpy.interp call behind this property interpolates over an abscissa that is ascending by construction or by a
    recorded precondition (numpy.interp does not check)"""
    from .common import interp_rule
    repo = ctx.repo
    interp_rule(ctx, 'Rs.sorted-abscissa', [f for c_ in repo.module('gnpy.core.science_utils').classes.values() for f in c_.all_funcs()], 'the NLI of the channels that were not computed would be interpolated wrongly')
    ctx.need('Rs.sorted-abscissa', 1)


def r6_applied(ctx):
    """R6: the NLI computed by the solver is what the spectrum receives: add_nli moves exactly nli from the channel power into
    the NLI share (S' = S(1 - nli/p), A' likewise, N'p' = N p(1 - nli/p) + nli; shared with C01-R3) - no cap, floor or scaling
    in between, which would break the cube law at high power"""
    from .c01 import r3_step
    r3_step(ctx)
    repo = ctx.repo
    for cn in ('Fiber', 'RamanFiber'):
        f = repo.method(repo.cls(cn, 'gnpy.core.elements'), 'propagate')
        an = calls_to(f, {'add_nli'})
        cn_ = calls_to(f, {'compute_nli'})
        ok = len(an) == 1 and len(cn_) == 1 and len(an[0].args) == 1
        if ok:
            a = an[0].args[0]
            st = stmt_of(f, cn_[0])
            ok = (a is cn_[0]) or (isinstance(a, ast.Name) and isinstance(st, ast.Assign) and st.value is cn_[0] and
                                   ast.unparse(st.targets[0]) == a.id)
        ctx.check('R6.applied', site(f), ok, key(f, 'applied'), f'{cn}.propagate does not hand the result of compute_nli unchanged to add_nli')
    ctx.need('R6.applied', 2)


def rn_arg_roles(ctx):
    """Rn: a variable named like a parameter of the callee is handed to that parameter (no exchanged roles such as
    f(to_degree, from_degree) for def f(from_degree, to_degree)); calls to resolved package functions, canonical form"""
    from .common import arg_roles_rule
    from ..memo import scope_funcs
    n = arg_roles_rule(ctx, 'Rn.arg-roles', scope_funcs(ctx.repo, 'C03'), 'the NLI kernel would be evaluated with exchanged quantities')
    ctx.check('Rn.arg-roles', 'argument / parameter name scan', True, 'C03|arg-roles-scan', '', f'{n} argument(s) named like another parameter judged')


def r7_fibre_inputs(ctx):
    """R7: what the closed form is evaluated ON: the fibre's reference point is one point (f_ref x lambda_ref = c for every way it can
    be given), and the NLI is computed on the spectrum as it enters the glass - after input connector AND padding, before the
    fibre loss and the output connector (order of the power-changing calls of Fiber / RamanFiber.propagate, shared with C05-R1)"""
    from .common import ref_pair_rule, proxy
    from .c05 import r1_once
    ref_pair_rule(ctx, 'R7.ref-point', 'gamma / beta2 would be scaled from another frequency than the one the user gave, and the NLI leave the closed form')
    r1_once(proxy(ctx, 'R7'))
    ctx.need('R7.ref-point', 2)



def rs_fibre_tables(ctx):
    """Rs (fibre tables): the per-frequency fibre parameters the NLI reads (dispersion, loss, gamma) are interpolated on an
    abscissa known to be ascending (shared with C05)"""
    from .c05 import rs_sorted as _rs
    from .common import proxy
    _rs(proxy(ctx, 'Rs2'))



def r8_selecting_defaults(ctx):
    """R8: the fibre non-linear coefficient the NLI uses is the one the library entry gives: a key whose absence (None) makes
    FiberParams derive it from another key (effective_area <-> gamma) has NO concrete default in the library loader classes"""
    from ..presence import selecting_defaults_rule
    n = selecting_defaults_rule(ctx, 'R8.selecting-defaults', 'a fibre defined by gamma alone would get the default effective area and its gamma be ignored')
    ctx.need('R8.selecting-defaults', 1)


def r9_input_connector(ctx):
    """R9: the power that enters a fibre (the power its NLI is computed for) is the launch power less ITS input connector loss: where
    auto-design fills a missing connector loss, `params.con_in` is filled from the configured default con_in and `params.con_out`
    from the default con_out - each store is traced through the locals to the configuration field it reads"""
    from ..dataflow import local_defs
    repo = ctx.repo
    n_sites = 0
    for f in repo.module('gnpy.core.network').functions.values():
        stores = [n for n in walk_no_nested(f.node) if isinstance(n, ast.Assign) and len(n.targets) == 1 and
                  isinstance(n.targets[0], ast.Attribute) and n.targets[0].attr in ('con_in', 'con_out')]
        if not stores:
            continue
        defs = local_defs(f.node)
        for st in stores:
            fld = st.targets[0].attr
            seen, todo, srcs = set(), [st.value], set()
            while todo:
                e = todo.pop()
                for x in ast.walk(e):
                    if isinstance(x, ast.Attribute) and x.attr in ('con_in', 'con_out'):
                        srcs.add(x.attr)
                    elif isinstance(x, ast.Constant) and x.value in ('con_in', 'con_out'):
                        srcs.add(x.value)
                    elif isinstance(x, ast.Name) and x.id not in seen:
                        seen.add(x.id)
                        todo.extend(dv for _, dv in defs.get(x.id, []) if isinstance(dv, ast.AST))
                        if x.id in f.params and not defs.get(x.id):
                            # a parameter: what the callers in this module hand over for it
                            pos = f.params.index(x.id)
                            for g in repo.module('gnpy.core.network').functions.values():
                                gdefs = None
                                for c in ast.walk(g.node):
                                    if isinstance(c, ast.Call) and isinstance(c.func, ast.Name) and c.func.id == f.name:
                                        a = c.args[pos] if pos < len(c.args) and not any(isinstance(y, ast.Starred) for y in c.args) else \
                                            next((k.value for k in c.keywords if k.arg == x.id), None)
                                        if a is None:
                                            continue
                                        gdefs = gdefs or local_defs(g.node)
                                        for y in ast.walk(a):
                                            if isinstance(y, ast.Attribute) and y.attr in ('con_in', 'con_out'):
                                                srcs.add(y.attr)
                                            elif isinstance(y, ast.Name):
                                                for _, dv in gdefs.get(y.id, []):
                                                    if isinstance(dv, ast.AST):
                                                        srcs.update(z.attr for z in ast.walk(dv) if isinstance(z, ast.Attribute) and z.attr in ('con_in', 'con_out'))
            if not srcs:
                continue        # not filled from a connector field at all (a literal, a parameter): nothing to compare
            n_sites += 1
            ctx.check('R9.input-connector', f'{site(f, st)} {fld}', srcs == {fld}, key(f, f'connector|{fld}'),
                      f'{ast.unparse(st.targets[0])} is filled from the configured {sorted(srcs)}: with default connector losses that differ '
                      'between input and output the fibre is entered with another power than the configured one, and its NLI is not the '
                      'closed form for the configured span', ast.unparse(st)[:160])
    ctx.need('R9.input-connector', 1)


from ..memo import rule_for as _memo_rule

RULES_MEMO = ('Rm.memo', _memo_rule('C03', 'the NLI of another fibre configuration or spectrum would be applied'))


from ..presence import rule_for as _presence_rule

RULES_PRESENCE = ('Rp.presence', _presence_rule('C03', 'a fibre given an explicit 0 would get the default model instead'))

RULES = [('R5.order-independence', r5_sorted), ('R1.closed-form', r1_closed_form), ('R2.combination', r2_combination), ('R3.coefficients', r3_coefficients), RULES_MEMO, RULES_PRESENCE, ('Rs.sorted-abscissa', rs_sorted), ('R6.applied', r6_applied), ('Rn.arg-roles', rn_arg_roles), ('R7.fibre-inputs', r7_fibre_inputs), ('Rs2.sorted-abscissa', rs_fibre_tables), ('R8.selecting-defaults', r8_selecting_defaults), ('R9.input-connector', r9_input_connector)]
