"""C06 - a ROADM never amplifies and equalises every channel to its egress target.

 R1 output formula : value graph of Roadm.propagate in the dB domain:
                     pch_out_dbm = min(T + delta_pdb_per_channel, pch_in_dbm - maxloss), T = per-degree target of the
                     EGRESS degree; both attenuations are >= 0 by form (maxloss, max(net - target, 0));
                     loss_pch_db = in - out; no gain mutator is reachable (shared with C02).
 R2 policy <-> multiplier at every target-resolution site: pch as is, psd x baud rate, psw x slot width; the
                     spectrum variants use the spectrum's carriers, the reference variants the reference carrier.
 R3 precedence     : per-degree entry (pch, psd, psw) before the node-level target.
 R4 one policy     : the three-key policy vocabulary is the same at the 5 sites that spell it; constructors reject
                     more than one policy; merge_equalization never merges a second policy in.
 R6 stateless      : no attribute of the ROADM is both written by a crossing and read (before being rewritten) by the
                     next one - the crossing is a function of configuration, degrees and input spectrum.
 R5 design time    : set_roadm_per_degree_targets fills each per-degree table from the matching node-level field,
                     only for degrees configured in none of the three tables; presence of a numeric target is
                     tested with `is not None` everywhere (0 is a legal target).
 Rm memo          : every memoisation construct in the functions behind this property is keyed by everything it reads.
 Rp presence      : optional numeric fields are tested with `is None` / membership, never by truthiness (0 is a value).
 R7 channel order : SpectralInformation re-orders every per-channel array (incl. delta_pdb_per_channel) with one argsort.
 Rk field/key     : the parameter classes store every configuration entry under its own name (frozen rename table).
 Rx export keys   : each loaded parameter is exported under the key its loader reads it from.
 Re for-each      : loops that act on every item are never left early (break / return).
 R8 mode copy    : the selected mode is copied onto the request completely and identically in every copy block.
 Rn arg roles     : a variable named like a parameter of the callee is handed to that parameter (no exchanged roles).
 R9 path lookup  : each internal ROADM path is registered with the impairment profile looked up for the same (from, to) pair.
 R10 profile order: impairment profiles keep their listing order (first of a kind = default).
 R11 ROADM input  : upstream walk sums losses; upstream ROADM target read for the degree the walk came from.
 R12 design order   : fibres are split before ROADM boosters / preamps are inserted (degree names) - shared with C08.
 R13 explicit profile: a named impairment id is looked up by id alone; the kind-based first profile only without id.
"""
import ast

from ..model import AnchorMissing, CannotAnalyse, walk_no_nested
from ..poly import Rat, C, mk_atom, subst, lem_min, lem_max, lem_log, gamma_conds, restrict
from ..vg import Evaluator, vkey, spec, atoms_of, Const, merge_outcomes
from ..effects import effects_of, reachable
from .common import holds_at, calls_to, site, key, attr_stores, kwarg, enclosing

EL = 'gnpy.core.elements'
POLICY = ['target_pch_out_db', 'target_psd_out_mWperGHz', 'target_out_mWperSlotWidth']
EXPLANATION = (
    "Value-graph normal form of Roadm.propagate (through the SpectralInformation mutators and the dB<->linear "
    "lemmas) proves pch_out_dbm = min(target + offset, input - maxloss) for the egress degree and that both applied "
    "attenuations are non-negative by form; decision lists of the four target-resolution functions are checked for "
    "policy<->carrier-width pairing and per-degree precedence; the policy vocabulary is cross-checked at the five "
    "sites that spell it and the 'more than one policy' rejections are located; the design-time population of the "
    "per-degree tables and the presence tests of numeric targets are checked. Not decided: impairment profile "
    "values, consistency of per-degree dicts with the topology."
)
ASSUMPTIONS = ["numpy element-wise semantics; real arithmetic", "min/max expressed through |x| (min(a,b) = (a+b-|a-b|)/2)",
               "get_impairment returns the configured roadm-maxloss (its value is data)"]
RULE_TEXT = ("sites: the exit state of Roadm.propagate, each return of the three target-resolution methods, each "
             "spelling of the policy vocabulary, each presence test of a numeric target; non-trivial = two normal "
             "forms or two tables were compared")


def roadm(repo):
    return repo.cls('Roadm', EL)


def r1_formula(ctx):
    repo = ctx.repo
    ro, si = roadm(repo), repo.cls('SpectralInformation', 'gnpy.core.info')
    f = repo.method(ro, 'propagate')
    sp = next((p for p in f.params if p != 'self'), None)
    ev = Evaluator(repo, f, types={'self': ro, sp: si},
                   no_inline={'get_impairment', 'get_per_degree_power', 'get_per_degree_ref_power'}).run_function()
    out = ev.exit_field('self.pch_out_dbm')
    # locate the atoms by role
    imp = [c for c in ev.calls if c.name == 'get_impairment' and c.args and isinstance(c.args[0], Const) and
           c.args[0].v == 'roadm-maxloss']
    tgt = [c for c in ev.calls if c.name == 'get_per_degree_power']
    if not imp or not tgt:
        raise AnchorMissing('Roadm.propagate no longer reads roadm-maxloss / the per-degree target')
    L = Rat.of(mk_atom('fn', 'call:gnpy.core.elements.Roadm.get_impairment', ev.argkeys([Rat.sym('self')] + imp[0].args, imp[0].kwargs)))
    T = Rat.of(mk_atom('fn', 'call:gnpy.core.elements.Roadm.get_per_degree_power', ev.argkeys([Rat.sym('self')] + tgt[0].args, tgt[0].kwargs)))
    P = Rat.of(mk_atom('fld', f'{sp}._pch'))
    D = Rat.of(mk_atom('fld', f'{sp}._delta_pdb_per_channel'))
    pin = C(10) * lem_log(P * C(1000))
    want = lem_min(T + D, pin - L)
    s = site(f)
    ctx.check('R1.formula', f'{s} pch_out_dbm', isinstance(out, Rat) and out.eq(want), key(f, 'out=min'),
              'output power per channel is not min(target + per-channel offset, input power - path loss)',
              f'got {vkey(out)[:300]}')
    loss = ev.exit_field('self.loss_pch_db')
    ctx.check('R1.formula', f'{s} loss_pch_db', isinstance(loss, Rat) and isinstance(out, Rat) and loss.eq(pin - out),
              key(f, 'loss=in-out'), 'loss_pch_db is not input power - output power', f'got {vkey(loss)[:200]}')
    # egress degree / argument order
    deg, frm = (f.params[2], f.params[3]) if len(f.params) >= 4 else (None, None)
    a0 = tgt[0].args[0] if tgt[0].args else tgt[0].kwargs.get('degree')
    ctx.check('R1.formula', f'{s} target of the egress degree', isinstance(a0, Rat) and a0.eq(Rat.sym(deg)),
              key(f, 'egress-degree'), 'the equalisation target is not looked up for the egress degree',
              f'get_per_degree_power({vkey(a0)}, ...)')
    ia = imp[0].args
    ctx.check('R1.formula', f'{s} path loss from->to', len(ia) >= 4 and isinstance(ia[2], Rat) and ia[2].eq(Rat.sym(frm))
              and ia[3].eq(Rat.sym(deg)), key(f, 'maxloss-direction'),
              'roadm-maxloss is not looked up for (ingress degree -> egress degree)',
              f'get_impairment({", ".join(vkey(x) for x in ia)})')
    # attenuations: exactly maxloss then max(net - target, 0); no gain
    att = [c for c in ev.calls if c.name == 'apply_attenuation_db' and c.base is not None and vkey(c.base) == sp]
    net = pin - L
    wants = [L, lem_max(net - (T + D), C(0))]
    ctx.check('R1.attenuations', f'{s} count', len(att) == 2, key(f, 'two-attenuations'),
              f'Roadm.propagate applies {len(att)} dB attenuations to the spectrum, expected path loss + equalisation')
    for i, (c, w) in enumerate(zip(att, wants)):
        ctx.check('R1.attenuations', f'{site(f, c.node)} #{i + 1}', isinstance(c.args[0], Rat) and c.args[0].eq(w),
                  key(f, f'attenuation-{i + 1}'),
                  ('first attenuation is not the path loss' if i == 0 else
                   'equalisation attenuation is not max(net input - target, 0): it can go negative (amplify) or is not the '
                   'difference to the target'), f'got {vkey(c.args[0])[:300]}')
    gains = [c for c in ev.calls if c.name in ('apply_gain_db', 'apply_gain_lin', 'add_ase', 'add_nli')]
    ctx.check('R1.attenuations', f'{s} no gain/noise', not gains, key(f, 'gain-or-noise'),
              f'Roadm.propagate calls {[c.name for c in gains]}')
    # pmd / pdl are only touched in quadrature (C05) - not here
    # __call__ propagates with its own degree arguments and returns the same spectrum
    call = repo.method(ro, '__call__')
    pc = calls_to(call, {'propagate'})
    ok = len(pc) == 1 and {k.arg: ast.unparse(k.value) for k in pc[0].keywords} == {'degree': 'degree', 'from_degree': 'from_degree'} \
        or (len(pc) == 1 and [ast.unparse(a) for a in pc[0].args[1:]] == ['degree', 'from_degree'])
    ctx.check('R1.formula', f'{site(call)} dispatch', ok, key(call, 'dispatch'),
              'Roadm.__call__ does not hand its (degree, from_degree) to propagate unchanged')
    ctx.need('R1.formula', 5)
    ctx.need('R1.attenuations', 4)


# ------------------------------------------------------------------------------------------------ R2 / R3
def family(text):
    if 'psd' in text:
        return 'psd'
    if 'psw' in text or 'SlotWidth' in text:
        return 'psw'
    if 'pch' in text:
        return 'pch'
    return None


def r2_policy(ctx):
    repo = ctx.repo
    ro, si = roadm(repo), repo.cls('SpectralInformation', 'gnpy.core.info')
    plan = [('get_roadm_target_power', None), ('get_per_degree_ref_power', 'ref'), ('get_per_degree_power', 'spectrum')]
    for name, mode in plan:
        f = repo.method(ro, name)
        sp = next((p for p in f.params if 'spectral' in p or p == 'si'), None)
        types = {'self': ro}
        if sp:
            types[sp] = si
        ev = Evaluator(repo, f, types=types, no_inline={'get_roadm_target_power'} if mode else set()).run_function()
        fall = 0
        # an outcome whose value still depends on whether a spectrum was given (a gated merge inside the value: the carriers chosen
        # by a conditional) is split into its two cases, as if the source had tested it on the path
        outcomes = []
        for pc, val, x_ in ev.outcomes:
            cs = sorted(c for c in gamma_conds(val) if sp and c == f'truth({sp})') if isinstance(val, Rat) else []
            if cs and not any(ck == cs[0] for ck, _ in pc):
                for tv in (True, False):
                    outcomes.append((list(pc) + [(cs[0], tv)], restrict(val, {cs[0]: tv}), x_))
            else:
                outcomes.append((pc, val, x_))
        for pc, val, _ in outcomes:
            if isinstance(val, Const) and val.v is None:
                continue
            # which carriers are in scope on this path
            if mode is None:
                spectrum_arm = any(ck == f'truth({sp})' and v for ck, v in pc)
                this_mode = 'spectrum' if spectrum_arm else 'ref'
            else:
                this_mode = mode
            txt = vkey(val)
            # the policy test that selects this return: the last condition on the path that tests a target setting
            fam_pc = [(ck, v) for ck, v in pc if family(ck)]
            guard = fam_pc[-1][0] if fam_pc else (pc[-1][0] if pc else '')
            st = f'{site(f)} [{this_mode}] when {guard if pc and pc[-1][1] else "otherwise"}'
            a = val.single_atom() if isinstance(val, Rat) else None
            if a is not None and a.kind == 'fn' and a.name.startswith('call:') and a.name.endswith('get_roadm_target_power'):
                # node-level fall-through of a per-degree function
                fall += 1
                negs = [ck for ck, v in pc if not v and ck.startswith('in(')]
                ctx.check('R3.precedence', st, len(negs) == 3 and {family(n) for n in negs} == {'pch', 'psd', 'psw'},
                          key(f, 'fallthrough'), 'the node-level target is used although a per-degree table may hold '
                          'an entry for this degree (precedence of per-degree settings broken)', f'path {pc}')
                passes = (f'{sp}' in txt) if this_mode == 'spectrum' else (txt.count(',') == 0 or 'spectral' not in txt)
                ctx.check('R3.precedence', f'{st} argument', bool(passes), key(f, 'fallthrough-arg'),
                          'the node-level fall-back is not asked for the same kind of carrier (spectrum vs reference)', txt)
                continue
            flds = [at.name for at in atoms_of(val).values() if at.kind == 'fld']
            fam = {family(n.split('.')[-1]) for n in flds if n.startswith('self.') and family(n.split('.')[-1])
                   and 'ref_carrier' not in n}
            if len(fam) != 1:
                ctx.cannot('R2.policy', st, f'cannot tell which policy this return implements: {txt[:160]}')
                continue
            fam = fam.pop()
            gfam = family(guard)
            ctx.check('R2.policy', f'{st} guard', gfam == fam, key(f, f'{this_mode}|guard|{fam}'),
                      f'a {gfam} test guards a return computed from the {fam} setting', f'{guard} -> {txt[:160]}')
            X = [Rat.of(at) for at in atoms_of(val).values()
                 if (at.kind == 'fld' and at.name.startswith('self.') and family(at.name.split('.')[-1]) == fam
                     and 'ref_carrier' not in at.name)
                 or (at.kind == 'fn' and at.name == 'sub' and family(vkey(at.args[0])) == fam)]
            X = [x for x in X if x.single_atom().kind == 'fn'] or X
            if fam == 'pch':
                ok = 'log10' not in txt and 'baud_rate' not in txt and 'slot_width' not in txt
                ctx.check('R2.policy', f'{st} value', ok, key(f, f'{this_mode}|value|pch'),
                          'a constant-power target is scaled by a carrier width', txt[:200])
                continue
            width = {'psd': 'baud_rate', 'psw': 'slot_width'}[fam]
            carrier = Rat.of(mk_atom('fld', f'{sp}._{width}')) if this_mode == 'spectrum' else \
                Rat.of(mk_atom('fld', f'self.ref_carrier.{width}'))
            ok = False
            for x in X:
                want = C(10) * lem_log(carrier * x * Rat.const(__import__('fractions').Fraction(1, 10**9)))
                if isinstance(val, Rat) and val.eq(want):
                    ok = True
            ctx.check('R2.policy', f'{st} value', ok, key(f, f'{this_mode}|value|{fam}'),
                      f'{fam} target is not converted to power with the {"spectrum" if this_mode == "spectrum" else "reference"} '
                      f"carrier's {width}", txt[:240])
        if mode:
            ctx.check('R3.precedence', f'{site(f)} fall-through exists', fall == 1, key(f, 'has-fallthrough'),
                      'per-degree resolution has no (single) node-level fall-back')
    ctx.need('R2.policy', 24)
    ctx.need('R3.precedence', 6)


# ------------------------------------------------------------------------------------------------ R4
def three_key_lists(fnode):
    out = []
    for n in ast.walk(fnode):
        if isinstance(n, (ast.List, ast.Tuple)) and len(n.elts) >= 2 and all(
                isinstance(e, ast.Constant) and isinstance(e.value, str) and e.value.startswith('target_') for e in n.elts):
            out.append([e.value for e in n.elts])
    return out


def r4_one_policy(ctx):
    repo = ctx.repo
    canon = set(POLICY)
    sites = []
    rp = repo.method(repo.cls('RoadmParams', 'gnpy.core.parameters'), '__init__')
    jr = repo.method(repo.module('gnpy.tools.json_io').classes['Roadm'], '__init__')
    me = repo.func('gnpy.tools.json_io', 'merge_equalization')
    for f in (rp, jr, me):
        lists = three_key_lists(f.node)
        ctx.check('R4.vocabulary', site(f), bool(lists) and all(set(l) == canon for l in lists), key(f, 'policy-list'),
                  f'the equalisation policy list spelled here is not exactly {sorted(canon)}', f'{lists}')
    tj = repo.method(roadm(repo), 'to_json', 'getter')
    lits = {n.value for n in ast.walk(tj.node) if isinstance(n, ast.Constant) and isinstance(n.value, str) and
            n.value.startswith('target_')}
    ctx.check('R4.vocabulary', site(tj), lits == canon, key(tj, 'policy-list'),
              f'Roadm.to_json exports policy keys {sorted(lits)}, expected {sorted(canon)}')
    st = repo.func('gnpy.core.network', 'set_roadm_per_degree_targets')
    attrs = {n.attr for n in ast.walk(st.node) if isinstance(n, ast.Attribute) and n.attr.startswith('target_')}
    ctx.check('R4.vocabulary', site(st), attrs == canon, key(st, 'policy-list'),
              f'set_roadm_per_degree_targets consults {sorted(attrs)}, expected {sorted(canon)}')
    # RoadmParams stores each key under its own name
    for k in POLICY:
        ok = any(t.attr == k and isinstance(v, ast.Call) and v.args and isinstance(v.args[0], ast.Constant) and
                 v.args[0].value == k for s, t, v in attr_stores(rp, k))
        ctx.check('R4.vocabulary', f'{site(rp)} {k}', ok, key(rp, f'store|{k}'),
                  f'RoadmParams.{k} is not read from the configuration key {k!r}')
    # more than one policy is rejected
    for f, exc in ((rp, 'ParametersError'), (jr, 'EquipmentConfigError')):
        ev = Evaluator(repo, f).run_function()
        hit = False
        for pc, node in ev.raises:
            # "more than one": 1 < the number of policies given, counted as a sum of tests or as the length of the filtered list
            if pc and pc[-1][1] and pc[-1][0].startswith('lt(1,') and ('sum' in pc[-1][0] or 'len' in pc[-1][0]):
                e = node.exc.func.id if isinstance(node.exc, ast.Call) and isinstance(node.exc.func, ast.Name) else None
                hit = hit or e == exc
        ctx.check('R4.single', site(f), hit, key(f, 'reject-two'),
                  f'configuring more than one equalisation policy is no longer rejected with {exc}')
    ev = Evaluator(repo, me).run_function()
    none_when_many = any(isinstance(v, Const) and v.v is None and pc and pc[-1][1] and pc[-1][0].startswith('lt(1,')
                         for pc, v, _ in ev.outcomes)
    ctx.check('R4.single', site(me), none_when_many, key(me, 'none-when-two'),
              'merge_equalization does not refuse (return None) an element configuration with two policies')
    # with exactly one own policy the library default policy is filtered out
    filt = [n for n in walk_no_nested(me.node) if isinstance(n, ast.DictComp) and
            any(isinstance(c, ast.Compare) and isinstance(c.ops[0], ast.NotIn) for g in n.generators for c in g.ifs)]
    ctx.check('R4.single', f'{site(me)} default filtered', bool(filt), key(me, 'filter-default'),
              'when the element sets its own policy the library default policy is not removed before merging')
    ctx.need('R4.vocabulary', 8)
    ctx.need('R4.single', 4)


# ------------------------------------------------------------------------------------------------ R5
TABLE_OF = {'target_pch_out_db': 'per_degree_pch_out_dbm', 'target_psd_out_mWperGHz': 'per_degree_pch_psd',
            'target_out_mWperSlotWidth': 'per_degree_pch_psw'}
NUMERIC_TARGETS = set(POLICY) | {'target_pch_out_dbm'}


def r5_design(ctx):
    repo = ctx.repo
    f = repo.func('gnpy.core.network', 'set_roadm_per_degree_targets')
    stores = []
    for n in walk_no_nested(f.node):
        if isinstance(n, ast.Assign) and isinstance(n.targets[0], ast.Subscript) and \
                isinstance(n.targets[0].value, ast.Attribute) and n.targets[0].value.attr.startswith('per_degree_'):
            stores.append(n)
    seen = {}
    for n in stores:
        table = n.targets[0].value.attr
        src = n.value.attr if isinstance(n.value, ast.Attribute) else None
        ok = TABLE_OF.get(src) == table
        seen[src] = n
        ctx.check('R5.population', site(f, n), ok, key(f, f'fill|{table}'),
                  f'{table} is filled from {src}: a node-level policy lands in the table of another policy',
                  ast.unparse(n))
        # guarded by the presence test of the same field
        g_ok = src is not None and any(c.endswith(f'.{src} is not None') for c in holds_at(n))
        ctx.check('R5.population', f'{site(f, n)} guard', g_ok, key(f, f'fill-guard|{table}'),
                  f'the store into {table} is not guarded by the presence test of {src}')
    for k in POLICY:
        if k not in seen:
            ctx.bad('R5.population', site(f), key(f, f'missing|{k}'),
                    f'a node-level {k} is never copied to its per-degree table at design time')
    # outer guard mentions all three tables
    outer = [n for n in walk_no_nested(f.node) if isinstance(n, ast.If) and 'per_degree' in ast.unparse(n.test)
             and any(isinstance(x, ast.NotIn) for c in ast.walk(n.test) if isinstance(c, ast.Compare) for x in c.ops)]
    tabs = set()
    for n in outer[:1]:
        for c in ast.walk(n.test):
            if isinstance(c, ast.Compare) and isinstance(c.ops[0], ast.NotIn) and isinstance(c.comparators[0], ast.Attribute):
                tabs.add(c.comparators[0].attr)
        conj = isinstance(n.test, ast.BoolOp) and isinstance(n.test.op, ast.And)
    ctx.check('R5.population', f'{site(f)} configured-degree test', bool(outer) and tabs == set(TABLE_OF.values()) and conj,
              key(f, 'degree-test'),
              'a degree counts as unconfigured without looking at all three per-degree tables: the node default can '
              'be written on top of a per-degree setting of another policy (two policies in force on one degree)',
              f'tables tested: {sorted(tabs)}')
    # presence tests of numeric targets: `is not None` everywhere (contradiction rule, instances frozen in a table)
    n_ok = 0
    for fn in repo.all_funcs():
        for n in ast.walk(fn.node):
            tests = []
            if isinstance(n, (ast.If, ast.IfExp, ast.While)):
                tests = [n.test]
            elif isinstance(n, ast.comprehension):
                tests = list(n.ifs)
            for t in tests:
                parts = t.values if isinstance(t, ast.BoolOp) else [t]
                for p in parts:
                    neg = isinstance(p, ast.UnaryOp) and isinstance(p.op, ast.Not)
                    q = p.operand if neg else p
                    if isinstance(q, ast.Attribute) and q.attr in NUMERIC_TARGETS:
                        ctx.bad('R5.presence', site(fn, t), f'{fn.qual}|truthiness|{ast.unparse(q)}',
                                f'presence of the numeric target {ast.unparse(q)} is tested by truthiness: a target of 0 '
                                '(0 dBm) is treated as missing, while other sites test `is not None`', ast.unparse(t))
                    elif isinstance(q, ast.Compare) and isinstance(q.left, ast.Attribute) and q.left.attr in NUMERIC_TARGETS \
                            and isinstance(q.ops[0], (ast.Is, ast.IsNot)):
                        n_ok += 1
                        ctx.ok('R5.presence', site(fn, t), ast.unparse(q))
    ctx.need('R5.population', 7)
    ctx.need('R5.presence', 12)


def r6_stateless(ctx):
    """the crossing is a function of (configuration, spectrum, degrees): no attribute of the ROADM is both left
    behind by one crossing and read by the next (memo tables, running minima, 'last seen' fields)"""
    from ..statefields import exposed_and_written
    repo = ctx.repo
    ro = roadm(repo)
    haz = exposed_and_written(repo, ro)
    call = repo.method(ro, '__call__')
    ctx.check('R6.stateless', site(call), not haz, key(call, 'state|' + ','.join(sorted(haz))),
              'a ROADM crossing reads state that an earlier crossing wrote: the output no longer depends only on the '
              'configuration, the degrees and the input spectrum',
              '; '.join(f'{a}: read at {r[0]} written at {w[0]}' for a, (r, w) in sorted(haz.items())))
    ctx.need('R6.stateless', 1)



def r7_channel_order(ctx):
    """R7: the per-channel offsets (delta_pdb_per_channel) a ROADM equalises with are stored in the same channel order as
    the frequencies and powers they belong to: SpectralInformation re-orders EVERY per-channel array with the one
    argsort of the frequencies (shared with C01-R2)"""
    from .c01 import r2_base
    from .common import proxy
    r2_base(proxy(ctx, 'R7'))        # constructor permutation + field-by-field mapping of select_channels / __add__
    ctx.need('R7.init-permutation', 16)


def rk_field_key(ctx):
    """Rk: the parameter classes behind this property store every configuration entry under its own name (self.X = params['X']);
    the deliberate renames are a frozen table (gscan/fieldkey.py)"""
    from ..fieldkey import field_key_rule
    repo = ctx.repo
    n = field_key_rule(ctx, 'Rk.field-key', [repo.cls('RoadmParams', 'gnpy.core.parameters')], 'a ROADM target or restriction would be taken from another entry')
    ctx.need('Rk.field-key', 5)


WHY_EXPORT = 'after save and reload the ROADM would equalise that degree with another policy or value'

def rx_export_keys(ctx):
    """Rx: an element exports each loaded parameter under the key its loader reads it from (to_json key -> attribute -> params
    class -> configuration key): a saved and reloaded network carries every table under its own policy / name"""
    from ..fieldkey import export_key_rule
    repo = ctx.repo
    P = 'gnpy.core.parameters'
    E = 'gnpy.core.elements'
    pairs = [(repo.cls('Roadm', E), [repo.cls('RoadmParams', P)]), (repo.cls('Fiber', E), [repo.cls('FiberParams', P)]),
             (repo.cls('Fused', E), [repo.cls('FusedParams', P)])]
    export_key_rule(ctx, 'Rx.export-keys', pairs, WHY_EXPORT)
    ctx.need('Rx.export-keys', 3)


def re_foreach(ctx):
    """Re: loops that act on EVERY item (store on the item / call a function that writes it) are never left early (break / return):
    the items after the exit would silently be skipped; the two search loops of the package are a frozen table"""
    from .common import foreach_rule
    from ..memo import scope_funcs
    fs = scope_funcs(ctx.repo, 'C06')
    n = foreach_rule(ctx, 'Re.for-each', fs, 'later degrees / channels keep no target')
    loops = sum(1 for f in fs for x in walk_no_nested(f.node) if isinstance(x, ast.For))
    # on the reference tree no loop of this scope acts on every item (the per-band search of get_impairment only fills in defaults):
    # the scan itself is the obligation, so that a loop that starts to do so and exits early is judged
    ctx.check('Re.for-each', 'loop scan', loops >= 3, 'C06|foreach-scan', 'the loops of the ROADM code were not found', f'{loops} loops scanned, {n} act on every item')


def r_mode_copy(ctx):
    """R8: a mode selected by the planner is copied onto the request completely and identically in every copy block (offset,
    penalties, baud rate, OSNR threshold, tx OSNR, bit rate, format)"""
    from .common import mode_copy_rule
    mode_copy_rule(ctx, 'R8.mode-copy', 'the reverse direction (and the reported result) would be equalised without the offset of the selected mode')
    ctx.need('R8.mode-copy', 2)


def rn_arg_roles(ctx):
    """Rn: a variable named like a parameter of the callee is handed to that parameter (no exchanged roles such as
    f(to_degree, from_degree) for def f(from_degree, to_degree)); calls to resolved package functions, canonical form"""
    from .common import arg_roles_rule
    from ..memo import scope_funcs
    n = arg_roles_rule(ctx, 'Rn.arg-roles', scope_funcs(ctx.repo, 'C06') + [f_ for f_ in ctx.repo.module('gnpy.core.network').functions.values() if 'roadm' in f_.name], 'the ROADM would look up the path / target of the opposite direction')
    ctx.check('Rn.arg-roles', 'argument / parameter name scan', True, 'C06|arg-roles-scan', '', f'{n} argument(s) named like another parameter judged')


def r_path_lookup(ctx):
    """R9: each internal ROADM path is registered with the impairment profile looked up for the same (from, to) pair"""
    from .common import roadm_path_lookup_rule
    roadm_path_lookup_rule(ctx, 'R9.path-lookup', 'a per-degree impairment entry (path loss, OSNR) of the topology would be ignored and the default profile applied')
    ctx.need('R9.path-lookup', 3)


def r10_profile_order(ctx):
    """R10: the impairment profiles of a ROADM type keep their LISTING order (the first profile of a kind is the default for
    crossings of that kind): get_roadm_path_impairments returns the dict it fills while iterating the configured list, not a
    re-ordered copy"""
    from ..pattern import find
    repo = ctx.repo
    f = repo.method(repo.cls('RoadmParams', 'gnpy.core.parameters'), 'get_roadm_path_impairments')
    fills = find('V_d[V_i] = RoadmImpairment(E_x)', f.node)
    rets = [n for n in walk_no_nested(f.node) if isinstance(n, ast.Return) and n.value is not None]
    # every returned value is the filled dict itself or the empty dict of the no-profile case (whatever the order of the returns)
    rets = sorted(rets, key=lambda n: isinstance(n.value, ast.Name))
    named = [n for n in rets if isinstance(n.value, ast.Name)]
    ok = len(fills) == 1 and isinstance(enclosing(fills[0][0], ast.For), ast.For) and len(named) >= 1 and \
        all(n.value.id == fills[0][1]['V_d'] for n in named) and \
        all(isinstance(n.value, ast.Dict) and not n.value.keys for n in rets if n not in named)
    if ok:
        lp = enclosing(fills[0][0], ast.For)
        ok = isinstance(lp.iter, ast.Name) and lp.iter.id in f.params
    ctx.check('R10.profile-order', site(f), ok, key(f, 'listing-order'),
              'the impairment profiles are not returned in the order of the configured list: the default profile of a crossing kind (the '
              'first listed) would change and another roadm-maxloss / OSNR be applied',
              ast.unparse(rets[-1].value)[:80] if rets else '')
    ctx.need('R10.profile-order', 1)


def r_roadm_input(ctx):
    """R11: reference power at each ROADM ingress: upstream walk, losses summed, the upstream ROADM's target read for the degree the
    walk came from, stored under this ROADM's ingress element"""
    from .common import roadm_input_rule
    roadm_input_rule(ctx, 'R11.roadm-input', 'the ROADM would report / equalise against a reference input power of another degree')
    ctx.need('R11.roadm-input', 3)



def r12_design_order(ctx):
    """R12: the degrees of a ROADM are named after the element that follows it once the fibres are split: fibres are split before
    the ROADM amplifiers are inserted (per-degree targets are keyed by those names) - rule shared with C08"""
    from .c08 import r5_order as _r
    from .common import proxy
    _r(proxy(ctx, 'R12'))



def r13_explicit_profile(ctx):
    """R13: an impairment profile NAMED for a crossing (per-degree impairment id) is the one applied: set_roadm_paths looks an explicit
    id up by id alone (membership + subscript, unknown id -> error) - whatever kind the inferred path is - and falls back on the
    first listed profile of the path kind only when no id was given"""
    from .common import holds_at
    repo = ctx.repo
    f = repo.method(roadm(repo), 'set_roadm_paths')
    pid = 'impairment_id' if 'impairment_id' in f.params else f.params[-1]
    table = 'self.roadm_path_impairments'
    by_id = [n for n in walk_no_nested(f.node) if isinstance(n, ast.Assign) and ast.unparse(n.value) == f'{table}[{pid}]']
    ok = len(by_id) == 1
    det = ''
    if ok:
        h = holds_at(by_id[0])
        det = str(h)
        ok = f'{pid} in {table}' in h and not any('path_type' in c for c in h) and (f'{pid} is not None' in h)
        var = ast.unparse(by_id[0].targets[0])
        ctor = calls_to(f, {'RoadmPath'})
        ok = ok and len(ctor) == 1 and ast.unparse(kwarg(ctor[0], 'impairment')) == var
    ctx.check('R13.explicit-profile', f'{site(f)} by id', ok, key(f, 'by-id'),
              'a profile named by id is not bound by looking that id up (id given and present -> that profile), independently of the '
              'path kind: an add / drop profile named for a crossing would be ignored and the crossing get no path loss', det)
    loops = [n for n in walk_no_nested(f.node) if isinstance(n, ast.For) and table in ast.unparse(n.iter)]
    ok = len(loops) == 1 and f'{pid} is None' in holds_at(loops[0])
    ctx.check('R13.explicit-profile', f'{site(f)} fall-back', ok, key(f, 'fallback'),
              'the first profile of the path kind is not used exactly when no id was given')
    unknown = [n for n in walk_no_nested(f.node) if isinstance(n, ast.Raise) and f'{pid} not in {table}' in holds_at(n)]
    ctx.check('R13.explicit-profile', f'{site(f)} unknown id', len(unknown) == 1, key(f, 'unknown'),
              'an id that the library does not define is not rejected')
    ctx.need('R13.explicit-profile', 3)


def r14_converted_degrees(ctx):
    """R14: the per-degree targets of a ROADM survive the conversion of its topology to YANG: convert_degree collects the entries of
    EVERY per-degree table (power, PSD, PSW) - the list it fills over the tables is grown, never re-assigned - otherwise a degree
    configured under an earlier table silently equalises to the node-level target (accumulator rule shared with C18-R2)"""
    from .c18 import r2b_accumulators as _r
    from .common import proxy
    _r(proxy(ctx, 'R14'))


from ..memo import rule_for as _memo_rule

RULES_MEMO = ('Rm.memo', _memo_rule('C06', 'the equalisation computed for another spectrum or target would be applied'))


from ..presence import rule_for as _presence_rule

RULES_PRESENCE = ('Rp.presence', _presence_rule('C06', 'a ROADM target of exactly 0 dBm would be ignored and another target applied'))

RULES = [('R6.stateless', r6_stateless), ('R1.formula', r1_formula), ('R2.policy', r2_policy), ('R4.one-policy', r4_one_policy), ('R5.design', r5_design), RULES_MEMO, RULES_PRESENCE, ('R7.channel-order', r7_channel_order), ('Rk.field-key', rk_field_key), ('Rx.export-keys', rx_export_keys), ('Re.for-each', re_foreach), ('R8.mode-copy', r_mode_copy), ('Rn.arg-roles', rn_arg_roles), ('R9.path-lookup', r_path_lookup), ('R10.profile-order', r10_profile_order), ('R11.roadm-input', r_roadm_input), ('R12.design-order', r12_design_order), ('R13.explicit-profile', r13_explicit_profile), ('R14.converted-degrees', r14_converted_degrees)]
