"""C05 - fibre spans apply exactly their loss budget and accumulate CD, PMD, PDL, latency.

 R1 each loss once : Fiber.propagate and RamanFiber.propagate apply to the spectrum exactly: attenuation_db(con_in +
                     att_in), attenuation_lin(last column of the solver's loss profile), attenuation_db(con_out), in
                     that order, nothing else (no gain); the two bodies agree modulo the Raman extras.
 R2 budget         : Fiber.loss = loss_coef(f_ref) * L + con_in + con_out + att_in + sum(lin2db(1/lumped)) - the same
                     five terms; without Raman the solver returns calculate_attenuation_profile, whose loss profile is
                     exp(-outer(alpha(f), z)) * cumprod(lumped) on z = {0, L} U lumped positions.
 R3 accumulators   : every writer of spectral_info.chromatic_dispersion / latency is additive in the old value, every
                     writer of pmd / pdl has the form sqrt(old^2 + x^2) with x independent of the spectrum; the writers
                     are exactly Fiber/RamanFiber (CD, PMD, latency), Roadm (PMD, PDL), Edfa (PMD, PDL);
                     Fiber.pmd = pmd_coef * sqrt(L); FiberParams latency = L / (c / n1), a function of length only.
 R4 dispersion     : Fiber.chromatic_dispersion is proportional to the length; composed with beta2 at the reference
                     frequency it gives back D(f_ref) * L for the three ways D is specified; freq=None = f_ref.
 Rm memo          : every memoisation construct in the functions behind this property is keyed by everything it reads.
 Rp presence      : optional numeric fields are tested with `is None` / membership, never by truthiness (0 is a value).
 Rk field/key     : the parameter classes store every configuration entry under its own name (frozen rename table).
 Ru units         : lengths configured with a unit entry are only used through convert_length(value, same record's length_units).
 Rs sorted        : every numpy.interp abscissa is ascending by construction or by a recorded precondition.
 R5 lumped once    : Raman solver: per-section / per-step loss factors are a selection of the lumped-loss array (never an
                     accumulation) while the start power of a section is the end of the previous one.
 R6 lumped all     : every declared lumped loss reaches the solver grid (same-position losses are cumulated, not selected).
 R7 channel order  : SpectralInformation re-orders every per-channel array (CD, PMD, PDL, latency included) with one argsort;
                     mux / demux build every field of the result from the same-named field of the operands (shared with C01-R2).
 Rn arg roles     : a variable named like a parameter of the callee is handed to that parameter (no exchanged roles).
 R8 ref point      : f_ref x lambda_ref = c for every input form (value graph of FiberParams.__init__).
 R9 Raman orders   : each perturbative order block adds the term it computes, once.
 R10 siblings      : RamanFiber.propagate updates CD / PMD / latency with the same statements as Fiber.propagate.
"""
import ast

from ..model import AnchorMissing, CannotAnalyse, walk_no_nested
from ..poly import Rat, C, mk_atom, lem_sqrt, lem_log, lem_exp, fn, subst
from ..vg import Evaluator, vkey, atoms_of, State, Const
from .common import calls_to, site, key, attr_stores, all_attr_stores, stmt_of

EL = 'gnpy.core.elements'
OPAQUE = {'compute_nli', 'calculate_stimulated_raman_scattering', 'calculate_spontaneous_raman_scattering',
          'gnpy.core.elements.Fiber.chromatic_dispersion', 'add_nli', 'add_ase'}
EXPLANATION = (
    "Value graph of Fiber.propagate / RamanFiber.propagate: the ordered list of power-changing calls on the spectrum "
    "and their arguments is exactly input connector+padding, solver loss profile at the span end, output connector; "
    "Fiber.loss is the sum of the same five budget terms; the no-Raman solver path is the analytic attenuation profile; "
    "all writers of the accumulated impairments in gnpy/ are enumerated and shown additive (CD, latency) or "
    "quadrature (PMD, PDL) in the old value, hence commutative over span order; fibre PMD and latency formulas. Not "
    "decided: anything about the Raman solver numerics (low-power limit, perturbative vs numerical agreement, pumps)."
)
ASSUMPTIONS = ["numpy element-wise semantics", "addition and quadrature sums are commutative/associative (span-order clause)"]
RULE_TEXT = ("sites: each power-changing call in the two propagate bodies; Fiber.loss; calculate_attenuation_profile; each "
             "store to chromatic_dispersion / pmd / pdl / latency of a spectrum in gnpy/")


def prop_calls(repo, cls):
    si = repo.cls('SpectralInformation', 'gnpy.core.info')
    f = repo.method(cls, 'propagate')
    sp = f.params[1]
    ev = Evaluator(repo, f, types={'self': cls, sp: si}, no_inline=OPAQUE | {'apply_attenuation_db', 'apply_attenuation_lin',
                                                                            'apply_gain_db', 'apply_gain_lin'}).run_function()
    seq = [c for c in ev.calls if c.name in ('apply_attenuation_db', 'apply_attenuation_lin', 'apply_gain_db', 'apply_gain_lin')
           and c.base is not None and vkey(c.base) == sp]
    return f, sp, ev, seq


def r1_once(ctx):
    repo = ctx.repo
    seqs = {}
    for cn in ('Fiber', 'RamanFiber'):
        cls = repo.cls(cn, EL)
        f, sp, ev, seq = prop_calls(repo, cls)
        s = site(f)
        names = [c.name for c in seq]
        ctx.check('R1.once', f'{s} sequence', names == ['apply_attenuation_db', 'apply_attenuation_lin', 'apply_attenuation_db'],
                  key(f, 'sequence'), f'{cn}.propagate changes the channel power with {names}; expected input connector + '
                  'padding (dB), fibre loss profile (linear), output connector (dB), each once')
        if len(seq) != 3:
            continue
        p = lambda x: Rat.of(mk_atom('fld', f'self.params.{x}'))
        a0, a1, a2 = (c.args[0] for c in seq)
        ctx.check('R1.once', f'{site(f, seq[0].node)} input side', isinstance(a0, Rat) and a0.eq(p('con_in') + p('att_in')),
                  key(f, 'input'), 'the first attenuation is not input connector + padding (con_in + att_in)', vkey(a0)[:160])
        ctx.check('R1.once', f'{site(f, seq[2].node)} output side', isinstance(a2, Rat) and a2.eq(p('con_out')),
                  key(f, 'output'), 'the last attenuation is not the output connector loss (con_out)', vkey(a2)[:160])
        at = a1.single_atom() if isinstance(a1, Rat) else None
        ok = at is not None and at.kind == 'fn' and at.name == 'sub' and 'calculate_stimulated_raman_scattering' in vkey(at.args[0]) \
            and vkey(at.args[0]).endswith('.loss_profile') and at.args[1].replace(' ', '').endswith(',-1)')
        ctx.check('R1.once', f'{site(f, seq[1].node)} span loss', ok, key(f, 'span'),
                  'the span attenuation is not the last z-column of the loss profile computed by the Raman solver for this '
                  'fibre and spectrum', vkey(a1)[:200])
        # the solver sees the spectrum after the input-side loss and before anything else
        order = [c.name for c in ev.calls if c.name in ('apply_attenuation_db', 'calculate_stimulated_raman_scattering',
                                                        'compute_nli', 'apply_attenuation_lin')]
        ctx.check('R1.once', f'{s} solver position', order[:4] == ['apply_attenuation_db', 'calculate_stimulated_raman_scattering',
                                                                   'compute_nli', 'apply_attenuation_lin'], key(f, 'position'),
                  'the loss profile / NLI are not computed on the spectrum at the fibre input', f'{order}')
        seqs[cn] = [(c.name, vkey(c.args[0])) for c in seq]
    if len(seqs) == 2:
        a, b = seqs['Fiber'], seqs['RamanFiber']
        same = len(a) == len(b) and all(x[0] == y[0] for x, y in zip(a, b)) and a[0] == b[0] and a[2] == b[2]
        ctx.check('R1.once', 'Fiber.propagate vs RamanFiber.propagate', same, 'sibling-propagate',
                  'Fiber.propagate and RamanFiber.propagate no longer apply the same loss budget', f'{a} vs {b}')
    ctx.need('R1.once', 11)


def r2_budget(ctx):
    repo = ctx.repo
    F = repo.cls('Fiber', EL)
    g = repo.method(F, 'loss', 'getter')
    ev = Evaluator(repo, g, types={'self': F}, no_inline={'loss_coef_func'}).run_function()
    got = ev.ret()
    p = lambda x: Rat.of(mk_atom('fld', f'self.params.{x}'))
    lc = [c for c in ev.calls if c.name == 'loss_coef_func']
    ok = False
    if lc and isinstance(got, Rat):
        lcv = Rat.of(mk_atom('fn', f'call:{F.qual}.loss_coef_func', ev.argkeys([Rat.sym('self')] + lc[0].args, lc[0].kwargs)))
        lumped = fn('sum', C(10) * lem_log(C(1) / Rat.of(mk_atom('fld', 'self.lumped_losses')), 'log10'))
        want = lcv * p('length') + p('con_in') + p('con_out') + p('att_in') + lumped
        ok = got.eq(want) and lc[0].args[0].eq(p('ref_frequency'))
    ctx.check('R2.budget', site(g), ok, key(g, 'loss'),
              'Fiber.loss is not loss_coef(ref frequency) * length + con_in + con_out + att_in + sum of lumped losses in dB',
              f'got {vkey(got)[:260]}')
    # lumped losses stored as linear transmission factors db2lin(-loss)
    init = repo.method(F, '__init__')
    st = [v for s, t, v in attr_stores(init, 'lumped_losses')]
    ok = bool(st) and 'db2lin(-' in ast.unparse(st[0]).replace(' ', '')
    ctx.check('R2.budget', f'{site(init)} lumped losses', ok, key(init, 'lumped'),
              'lumped losses are not stored as linear transmission factors db2lin(-loss_dB)', ast.unparse(st[0]) if st else '')
    # the no-Raman solver path
    RS = repo.cls('RamanSolver', 'gnpy.core.science_utils')
    si = repo.cls('SpectralInformation', 'gnpy.core.info')
    h = repo.method(RS, 'calculate_attenuation_profile')
    e3 = Evaluator(repo, h, types={h.params[0]: si}, no_inline={'_create_lumped_losses', 'alpha'}).run_function()
    ctor = [c for c in e3.calls if c.name == 'StimulatedRamanScattering']
    ok = False
    det = ''
    if ctor and len(ctor[0].args) >= 4:
        power, loss, freq, z = ctor[0].args[:4]
        cl = [c for c in e3.calls if c.name == '_create_lumped_losses']
        al = [c for c in e3.calls if c.name == 'alpha']
        det = f'loss_profile = {vkey(loss)[:260]}'
        if cl and al and isinstance(loss, Rat):
            tup = Rat.of(mk_atom('fn', f'call:{RS.qual}._create_lumped_losses', e3.argkeys(cl[0].args, cl[0].kwargs)))
            zz = fn('item', tup, C(0))
            ll = fn('item', tup, C(1))
            alpha = Rat.of(mk_atom('fn', '.alpha', [al[0].base] + e3.argkeys(al[0].args, al[0].kwargs)))
            want = lem_exp(-fn('outer', alpha, zz), 'exp') * fn('cumprod', ll)
            fb = h.params[1]
            zarg = cl[0].args[0]
            z_ok = isinstance(zarg, list) and len(zarg) == 2 and isinstance(zarg[0], Rat) and zarg[0].is_zero() and \
                zarg[1].eq(Rat.of(mk_atom('fld', f'{fb}.params.length')))
            a_ok = al[0].args and al[0].args[0].eq(Rat.of(mk_atom('fld', f'{h.params[0]}._frequency')))
            ok = loss.eq(want) and z_ok and bool(a_ok) and isinstance(z, Rat) and z.eq(zz)
    ctx.check('R2.budget', site(h), ok, key(h, 'profile'),
              'without Raman the loss profile is not exp(-alpha(f) z) * accumulated lumped losses on z = [0, length] U lumped '
              'positions', det)
    srs = repo.method(RS, 'calculate_stimulated_raman_scattering')
    # the else arm of the Raman flag test returns the analytic profile
    ok = False
    for n in walk_no_nested(srs.node):
        if isinstance(n, ast.If) and 'raman_params.flag' in ast.unparse(n.test) and n.orelse:
            ok = any('calculate_attenuation_profile' in ast.unparse(x) for x in n.orelse)
    ctx.check('R2.budget', f'{site(srs)} Raman off', ok, key(srs, 'raman-off'),
              'with the Raman flag off the solver does not return the analytic attenuation profile')
    ctx.need('R2.budget', 4)


ACC = {'chromatic_dispersion': 'add', 'latency': 'add', 'pmd': 'quad', 'pdl': 'quad'}
WRITERS = {
    'chromatic_dispersion': {'Fiber', 'RamanFiber'}, 'latency': {'Fiber', 'RamanFiber'},
    'pmd': {'Fiber', 'RamanFiber', 'Roadm', 'Edfa'}, 'pdl': {'Roadm', 'Edfa'},
}


def r3_accumulators(ctx):
    repo = ctx.repo
    si = repo.cls('SpectralInformation', 'gnpy.core.info')
    found = {k: set() for k in ACC}
    for f in repo.all_funcs():
        if f.cls is si or f.cls is None or f.module.name != EL:
            # stores on a spectrum elsewhere are reported below
            continue
        sps = [p for p in f.params if p != 'self']
        hits = [(s, t, v, a) for a in ACC for s, t, v in attr_stores(f, a) if isinstance(t.value, ast.Name) and t.value.id in sps]
        if not hits:
            continue
        sp = hits[0][1].value.id
        ev = Evaluator(repo, f, types={'self': f.cls, sp: si},
                       no_inline=OPAQUE | {'interpol_params', 'noise_profile', 'get_impairment', 'get_per_degree_power',
                                           'get_per_degree_ref_power'}).run_function()
        for a in sorted({h[3] for h in hits}):
            old = Rat.of(mk_atom('fld', f'{sp}._{a}'))
            new = ev.exit_field(f'{sp}._{a}')
            found[a].add(f.cls.name)
            st = f'{site(f)} {a}'
            if not isinstance(new, Rat):
                ctx.cannot('R3.accumulate', st, f'cannot evaluate the new value of {a}')
                continue
            if ACC[a] == 'add':
                inc = new - old
                dep = [x.name for x in atoms_of(inc).values() if x.kind == 'fld' and x.name.startswith(f'{sp}._{a}')]
                ctx.check('R3.accumulate', st, not dep and not inc.is_zero(), f'{f.qual}|add|{a}',
                          f'{f.cls.name} does not ADD its contribution to the accumulated {a} (new - old depends on old, or is zero): '
                          'the sum over spans would depend on the order or lose earlier spans', f'new = {vkey(new)[:200]}')
            else:
                # new = sqrt(old^2 + x^2), x independent of the spectrum's accumulated value
                sq = new * new - old * old
                dep = [x.name for x in atoms_of(sq).values() if x.kind == 'fld' and x.name == f'{sp}._{a}']
                at = new.single_atom()
                ok = at is not None and at.name == 'sqrt' and not dep and not sq.is_zero()
                ctx.check('R3.accumulate', st, ok, f'{f.qual}|quad|{a}',
                          f'{f.cls.name} does not add its {a} contribution in quadrature (sqrt(old^2 + x^2))', f'new = {vkey(new)[:200]}')
    for a, exp in WRITERS.items():
        ctx.check('R3.writers', f'writers of spectrum.{a}', found[a] == exp, f'writers|{a}',
                  f'the accumulated {a} is written by {sorted(found[a])}, expected {sorted(exp)}')
    # any store to these attributes on something that is not self, outside elements.py / info.py
    for a in ACC:
        for f, s, t, v in all_attr_stores(repo, a):
            if f.module.name in (EL, 'gnpy.core.info'):
                continue
            if isinstance(t.value, ast.Name) and t.value.id == 'self':
                continue
            ctx.bad('R3.writers', site(f, s), f'{f.qual}|foreign-store|{a}',
                    f'{a} of an object is assigned outside the element classes: {ast.unparse(s)[:80]}')
    # fibre contributions
    F = repo.cls('Fiber', EL)
    g = repo.method(F, 'pmd', 'getter')
    ev = Evaluator(repo, g, types={'self': F}).run_function()
    got = ev.ret()
    want = Rat.of(mk_atom('fld', 'self.params.pmd_coef')) * lem_sqrt(Rat.of(mk_atom('fld', 'self.params.length')))
    ctx.check('R3.fibre', site(g), isinstance(got, Rat) and got.eq(want), key(g, 'pmd'), 'Fiber.pmd is not pmd_coef * sqrt(length)',
              vkey(got)[:120])
    fp = repo.cls('FiberParams', 'gnpy.core.parameters')
    init = repo.method(fp, '__init__')
    st = attr_stores(init, '_latency')
    ok = False
    det = ''
    if len(st) == 1:
        e2 = Evaluator(repo, init, types={})
        val = e2.ev(st[0][2], State({'self': Rat.sym('self'), 'kwargs': Rat.sym('kwargs')}))
        det = vkey(val)[:160]
        want = Rat.of(mk_atom('fld', 'self._length')) / (Rat.sym('c') / Rat.of(mk_atom('fld', 'self._n1')))
        ok = isinstance(val, Rat) and val.eq(want)
    ctx.check('R3.fibre', f'{site(init)} latency', ok, key(init, 'latency'),
              'a fibre\'s latency is not length / (c / n1), a function of its own length only (spans created by splitting a '
              'fibre must not inherit the latency of the whole fibre)', det)
    lat = repo.method(fp, 'latency', 'getter')
    ctx.check('R3.fibre', f'{site(lat)} getter', 'self._latency' in ast.unparse(lat.node), key(lat, 'latency-getter'),
              'FiberParams.latency does not return the stored latency')
    # CD: Fiber.chromatic_dispersion is proportional to length
    cd = repo.method(F, 'chromatic_dispersion')
    ev = Evaluator(repo, cd, types={'self': F}, no_inline={'beta2', 'beta3'}).run_function()
    got = ev.ret()
    L = Rat.of(mk_atom('fld', 'self.params.length'))
    ok = isinstance(got, Rat) and not any(a.name == 'self.params.length' for a in atoms_of(got / L).values() if a.kind == 'fld')
    ctx.check('R3.fibre', f'{site(cd)} proportional to length', ok, key(cd, 'cd-length'),
              'the chromatic dispersion of a span is not proportional to its length', vkey(got)[:160])
    ctx.need('R3.accumulate', 10)
    ctx.need('R3.writers', 4)
    ctx.need('R3.fibre', 4)


def fld(p):
    return Rat.of(mk_atom('fld', p))


def r4_cd(ctx):
    """R4: the dispersion a span adds is proportional to its length (so CD adds linearly over spans and does not depend
    on how a route is cut into spans), and beta2 / chromatic_dispersion are inverse conversions: composed at the
    reference frequency they give back D(f_ref) * L for each way D is specified (per-frequency table, scalar scaled
    with f^2, scalar + slope); freq=None means the reference frequency."""
    from ..poly import restrict, gamma_conds
    repo = ctx.repo
    F = repo.cls('Fiber', EL)
    cd = repo.method(F, 'chromatic_dispersion')
    b2 = repo.method(F, 'beta2')
    f = Rat.sym('f#freq')
    ev = Evaluator(repo, cd, types={'self': F}, no_inline={'beta2', 'beta3'}).run_function(bind={cd.params[1]: f})
    r = ev.ret()
    none_c = [c for c in gamma_conds(r) if c.startswith('isnone(')]
    if len(none_c) != 1 or not isinstance(r, Rat):
        raise CannotAnalyse(f'chromatic_dispersion: unforeseen shape {sorted(gamma_conds(r))}')
    s = site(cd)
    rf = restrict(r, {none_c[0]: False})
    L, ref = fld('self.params.length'), fld('self.params.ref_frequency')
    per_m = rf / L
    ctx.check('R4.cd', f'{s} proportional to length', 'self.params.length' not in {a.name for a in atoms_of(per_m).values()} and not rf.is_zero(),
              key(cd, 'length'), 'the dispersion of a span is not (a function of frequency) x length: CD would not add linearly over spans',
              vkey(rf)[:200])
    at_ref = subst(rf, lambda a: ref if a.kind == 'sym' and a.name == 'f#freq' else None)
    ctx.check('R4.cd', f'{s} default frequency', restrict(r, {none_c[0]: True}).eq(at_ref), key(cd, 'default'),
              'freq=None is not the reference frequency')
    e2 = Evaluator(repo, b2, types={'self': F}, no_inline={'interpolate_parameter_over_spectrum'}).run_function(bind={b2.params[1]: f})
    v2 = e2.ret()
    n2 = [c for c in gamma_conds(v2) if c.startswith('isnone(') and 'f#freq' in c]
    if len(n2) != 1:
        raise CannotAnalyse('beta2: unforeseen shape')
    v2 = subst(restrict(v2, {n2[0]: False}), lambda a: ref if a.kind == 'sym' and a.name == 'f#freq' else None)
    calls = [a for a in atoms_of(at_ref).values() if a.kind == 'fn' and a.name.startswith('call:')]
    ok = len(calls) == 1 and calls[0].name.endswith('.beta2')
    ctx.check('R4.cd', f'{s} third-order term vanishes at the reference', ok, key(cd, 'beta3-ref'),
              'at the reference frequency the accumulated dispersion does not reduce to its beta2 term', vkey(at_ref)[:200])
    if ok:
        comp = subst(at_ref, lambda a: v2 if a is calls[0] or a.key == calls[0].key else None)
        conds = gamma_conds(comp)
        tab = [c for c in conds if 'dispersion.size' in c]
        slope = [c for c in conds if 'dispersion_slope' in c]
        if len(tab) != 1 or len(slope) != 1:
            raise CannotAnalyse(f'beta2: unforeseen arms {sorted(conds)}')
        D, S, fd = fld('self.params.dispersion'), fld('self.params.dispersion_slope'), fld('self.params.f_dispersion_ref')
        cc = Rat.sym('c')
        arm_t = restrict(comp, {tab[0]: True})
        ia = [a for a in atoms_of(arm_t).values() if a.kind == 'fn' and a.name.endswith('interpolate_parameter_over_spectrum')]
        ctx.check('R4.cd', f'{site(b2)} table', len(ia) == 1 and arm_t.eq(Rat.of(ia[0]) * L) and ia[0].args[1].eq(D) and ia[0].args[3].eq(ref),
                  key(b2, 'arm|table'), 'with a per-frequency dispersion table, CD(f_ref) is not interpolated D(f_ref) x length', vkey(arm_t)[:200])
        ctx.check('R4.cd', f'{site(b2)} scalar', restrict(comp, {tab[0]: False, slope[0]: True}).eq(D * ref * ref / (fd * fd) * L),
                  key(b2, 'arm|scalar'), 'with a scalar dispersion, CD(f_ref) is not D x (f_ref / f_D)^2 x length: beta2 and chromatic_dispersion '
                  'are not inverse conversions', vkey(restrict(comp, {tab[0]: False, slope[0]: True}))[:200])
        ctx.check('R4.cd', f'{site(b2)} slope', restrict(comp, {tab[0]: False, slope[0]: False}).eq((D + S * (cc / ref - cc / fd)) * L),
                  key(b2, 'arm|slope'), 'with a dispersion slope, CD(f_ref) is not (D + S (lambda_ref - lambda_D)) x length',
                  vkey(restrict(comp, {tab[0]: False, slope[0]: False}))[:200])
    ctx.need('R4.cd', 6)



def r5_lumped_once(ctx):
    """R5: with Raman on, each lumped loss is applied once.  Both solver methods carry the power from one z position / section
    to the next (the loop-carried start power is the end of the previous section), so the factor applied per section must be
    the single loss located there: the per-section factors are a SELECTION of the lumped-loss array (mask, subscript,
    append of the neutral 1), never an accumulation (cumprod / cumsum / prod) of it"""
    from ..dataflow import local_defs
    repo = ctx.repo
    rs = repo.cls('RamanSolver', 'gnpy.core.science_utils')
    f = repo.method(rs, 'calculate_unidirectional_stimulated_raman_scattering')
    if 'lumped_losses' not in f.params:
        raise AnchorMissing('calculate_unidirectional_stimulated_raman_scattering(.., lumped_losses)')
    LL = 'lumped_losses'
    defs = local_defs(f.node)
    SELECT = {'append', 'concatenate', 'hstack', 'array', 'asarray', 'insert'}

    def selection(e, depth=4):
        """None if e is a selection of LL elements (and neutral constants), else the offending sub-expression"""
        if isinstance(e, ast.Constant):
            return None if e.value == 1 else e
        if isinstance(e, ast.Name):
            if e.id == LL:
                return None
            ds = [v for _, v in defs.get(e.id, []) if isinstance(v, ast.AST)]
            if not ds or depth == 0:
                return e
            for v in ds:
                bad = selection(v, depth - 1)
                if bad is not None:
                    return bad
            return None
        if isinstance(e, ast.Subscript):
            return selection(e.value, depth)
        if isinstance(e, (ast.List, ast.Tuple)):
            for x in e.elts:
                bad = selection(x, depth)
                if bad is not None:
                    return bad
            return None
        if isinstance(e, ast.Call) and isinstance(e.func, ast.Name) and e.func.id in SELECT:
            for x in e.args:
                bad = selection(x, depth)
                if bad is not None:
                    return bad
            return None
        return e
    s_ = site(f)
    n = 0
    for lp in [x for x in walk_no_nested(f.node) if isinstance(x, ast.For)]:
        it = lp.iter
        if isinstance(it, ast.Call) and isinstance(it.func, ast.Name) and it.func.id == 'zip' and isinstance(lp.target, ast.Tuple):
            for tv, src in zip(lp.target.elts, it.args):
                # the loop variable that scales the carried power
                scales = [b for b in ast.walk(lp) if isinstance(b, ast.BinOp) and isinstance(b.op, ast.Mult) and isinstance(tv, ast.Name) and
                          any(isinstance(x, ast.Name) and x.id == tv.id for x in (b.left, b.right))]
                if not scales or LL not in {x.id for v in [src] for x in ast.walk(v) if isinstance(x, ast.Name)} | \
                        {y.id for nm in [getattr(src, 'id', None)] if nm for _, v in defs.get(nm, []) if isinstance(v, ast.AST)
                         for y in ast.walk(v) if isinstance(y, ast.Name)}:
                    continue
                n += 1
                bad = selection(src)
                carried = [a for a in ast.walk(lp) if isinstance(a, ast.Assign) and isinstance(a.targets[0], ast.Name) and
                           any(isinstance(x, ast.Name) and x.id == a.targets[0].id for sc in scales for x in (sc.left, sc.right))]
                ctx.check('R5.lumped-once', f'{s_} section factors (perturbative)', bad is None and bool(carried), key(f, 'perturbative'),
                          'the per-section loss factors are not a plain selection of the lumped losses while the start power of a section '
                          'is the end of the previous one: earlier losses would be applied again in every later section',
                          ast.unparse(bad)[:100] if bad is not None else '')
        if isinstance(it, ast.Call) and isinstance(it.func, ast.Name) and it.func.id in ('range', 'enumerate'):
            # the step index: the variable of range(..), or the counter of enumerate(<steps>, start=..)
            if it.func.id == 'range':
                iv = lp.target.id if isinstance(lp.target, ast.Name) else None
            else:
                iv = lp.target.elts[0].id if isinstance(lp.target, ast.Tuple) and isinstance(lp.target.elts[0], ast.Name) else None
            uses = [x for x in ast.walk(lp) if isinstance(x, ast.Subscript) and isinstance(x.value, ast.Name) and x.value.id == LL]
            if uses:
                n += 1
                ok = all(iv in {y.id for y in ast.walk(u.slice) if isinstance(y, ast.Name)} for u in uses) and len(uses) == 1 and \
                    isinstance(getattr(uses[0], '_parent', None), ast.BinOp) and isinstance(uses[0]._parent.op, ast.Mult)
                ctx.check('R5.lumped-once', f'{s_} step factor (numerical)', ok, key(f, 'numerical'),
                          'the numerical solver does not multiply each step by the single lumped loss located at that step')
                # the length of each step is that step's own interval of the z grid (the grid is refined around lumped losses and
                # pumps, so it is not uniform): an array of consecutive differences of z, indexed by the step - or walked by the loop
                from ..pattern import mexpr
                diffs = {nm for nm, dd in defs.items() for _, v in dd if isinstance(v, ast.AST) and
                         (mexpr('V_z[1:] - V_z[:-1]', v) is not None or mexpr('diff(V_z)', v) is not None)}
                per_step = any(isinstance(x, ast.Subscript) and isinstance(x.value, ast.Name) and x.value.id in diffs and
                               iv in {y.id for y in ast.walk(x.slice) if isinstance(y, ast.Name)} for x in ast.walk(lp)) or \
                    (it.func.id == 'enumerate' and bool(it.args) and (
                        (isinstance(it.args[0], ast.Name) and it.args[0].id in diffs) or
                        mexpr('V_z[1:] - V_z[:-1]', it.args[0]) is not None or mexpr('diff(V_z)', it.args[0]) is not None))
                ctx.check('R5.lumped-once', f'{s_} step length (numerical)', per_step, key(f, 'numerical-step'),
                          'the numerical solver does not advance each step by that step\'s own interval of the (non-uniform) z grid: with '
                          'a lumped loss or a pump refining the grid the losses and gains are integrated over wrong lengths')
    ctx.need('R5.lumped-once', 2)


def r6_lumped_all(ctx):
    """R6: every declared lumped loss reaches the solver grid: where the loss positions are merged with the z grid (numpy.unique),
    the losses that fall on the same grid point are CUMULATED (product over the inverse index), never selected by first
    occurrence (return_index) - Fiber.loss, the design budget, counts every declared loss"""
    from ..dataflow import local_defs
    repo = ctx.repo
    rs = repo.cls('RamanSolver', 'gnpy.core.science_utils')
    f = repo.method(rs, '_create_lumped_losses')
    LL = f.params[1]
    defs = local_defs(f.node)

    def from_losses(e, depth=4):
        for x in ast.walk(e):
            if isinstance(x, ast.Name):
                if x.id == LL:
                    return True
                if depth > 0:
                    for _, v in defs.get(x.id, []):
                        vv = v[1] if isinstance(v, tuple) and len(v) == 3 else v
                        if isinstance(vv, ast.AST) and vv is not e and from_losses(vv, depth - 1):
                            return True
        return False
    uq = [c for c in calls_to(f, {'unique'})]
    idx_names, inv_names = set(), set()
    for c in uq:
        st = stmt_of(f, c)
        tg = st.targets[0] if isinstance(st, ast.Assign) else None
        names = [e.id for e in tg.elts] if isinstance(tg, ast.Tuple) else []
        flags = [k.arg for k in c.keywords if isinstance(k.value, ast.Constant) and k.value.value is True]
        # numpy.unique returns (values, [index], [inverse], [counts]) in this order
        pos = 1
        for flag in ('return_index', 'return_inverse', 'return_counts'):
            if flag in flags and pos < len(names):
                (idx_names if flag == 'return_index' else inv_names if flag == 'return_inverse' else set()).add(names[pos])
                pos += 1
    sel = [x for x in ast.walk(f.node) if isinstance(x, ast.Subscript) and isinstance(x.ctx, ast.Load) and from_losses(x.value) and
           any(isinstance(y, ast.Name) and y.id in idx_names for y in ast.walk(x.slice))]
    s_ = site(f)
    ctx.check('R6.lumped-all', f'{s_} no first-occurrence selection', bool(uq) and not sel, key(f, 'first-occurrence'),
              'the loss array is indexed with the first-occurrence index of numpy.unique: of two lumped losses declared at the same '
              'position only the first is applied, while Fiber.loss (design budget) counts both',
              '; '.join(ast.unparse(x)[:60] for x in sel))
    # cumulation over the inverse index
    cum = False
    for lp in [x for x in walk_no_nested(f.node) if isinstance(x, ast.For)]:
        it = lp.iter
        if isinstance(it, ast.Call) and getattr(it.func, 'id', '') == 'zip' and isinstance(lp.target, ast.Tuple) and len(lp.target.elts) == 2 and \
                len(it.args) == 2:
            (a0, a1), (t0, t1) = it.args, lp.target.elts
            pairs = [(a0, t0, a1, t1), (a1, t1, a0, t0)]
            for ia, it_, la, lt in pairs:
                if isinstance(ia, ast.Name) and ia.id in inv_names and from_losses(la):
                    for st in lp.body:
                        if isinstance(st, ast.AugAssign) and isinstance(st.op, ast.Mult) and isinstance(st.target, ast.Subscript) and \
                                ast.unparse(st.target.slice) == ast.unparse(it_) and ast.unparse(st.value) == ast.unparse(lt):
                            cum = True
    for c in ast.walk(f.node):
        if isinstance(c, ast.Call) and ast.unparse(c.func) in ('multiply.at', 'numpy.multiply.at', 'np.multiply.at') and len(c.args) == 3 and \
                isinstance(c.args[1], ast.Name) and c.args[1].id in inv_names and from_losses(c.args[2]):
            cum = True
    ctx.check('R6.lumped-all', f'{s_} losses at one grid point are cumulated', cum, key(f, 'cumulated'),
              'the losses that fall on the same grid point are not multiplied together over the inverse index of numpy.unique')
    ctx.need('R6.lumped-all', 2)


def r7_channel_order(ctx):
    """R7: the accumulated per-channel quantities (chromatic dispersion, PMD, PDL, latency) stay attached to their channels
    whenever a spectrum is (re)built: SpectralInformation re-orders EVERY per-channel array with the one argsort of the
    frequencies (shared with C01-R2)"""
    from .c01 import r2_base
    from .common import proxy
    # constructor permutation + field-by-field mapping of every spectrum (re)construction site (select_channels, __add__):
    # CD / PMD / PDL / latency of the result come from the same-named field of the operands
    r2_base(proxy(ctx, 'R7'))
    ctx.need('R7.init-permutation', 16)


def rk_field_key(ctx):
    """Rk: the parameter classes behind this property store every configuration entry under its own name (self.X = params['X']);
    the deliberate renames are a frozen table (gscan/fieldkey.py)"""
    from ..fieldkey import field_key_rule
    repo = ctx.repo
    n = field_key_rule(ctx, 'Rk.field-key', [repo.cls('FiberParams', 'gnpy.core.parameters')], 'a fibre parameter would be taken from another entry')
    ctx.need('Rk.field-key', 5)


def ru_units(ctx):
    """Ru: lengths configured with a unit entry (Span max_length, fibre length + length_units) are only used through
    convert_length(value, the same record's length_units)"""
    from .common import units_rule
    repo = ctx.repo
    units_rule(ctx, 'Ru.units', repo.cls('FiberParams', 'gnpy.core.parameters').all_funcs(), 'a fibre length given in metres would be read as kilometres')
    ctx.need('Ru.units', 1)


def rs_sorted(ctx):
    """Rs: every numpy.interp call behind this property interpolates over an abscissa that is ascending by construction or by a
    recorded precondition (numpy.interp does not check)"""
    from .common import interp_rule
    repo = ctx.repo
    interp_rule(ctx, 'Rs.sorted-abscissa', repo.cls('Fiber', EL).all_funcs() + repo.cls('RamanFiber', EL).all_funcs(), 'a per-frequency fibre table given in another order would silently give a wrong loss or dispersion')
    ctx.need('Rs.sorted-abscissa', 1)


def rn_arg_roles(ctx):
    """Rn: a variable named like a parameter of the callee is handed to that parameter (no exchanged roles such as
    f(to_degree, from_degree) for def f(from_degree, to_degree)); calls to resolved package functions, canonical form"""
    from .common import arg_roles_rule
    from ..memo import scope_funcs
    n = arg_roles_rule(ctx, 'Rn.arg-roles', scope_funcs(ctx.repo, 'C05'), 'the fibre would be evaluated with exchanged quantities')
    ctx.check('Rn.arg-roles', 'argument / parameter name scan', True, 'C05|arg-roles-scan', '', f'{n} argument(s) named like another parameter judged')


def r8_ref_point(ctx):
    """R8: the fibre's reference point is one point (f_ref x lambda_ref = c for every way it can be given): dispersion and loss
    tables are evaluated against the frequency the user gave"""
    from .common import ref_pair_rule
    ref_pair_rule(ctx, 'R8.ref-point', 'the chromatic dispersion would be computed around another reference frequency')
    ctx.need('R8.ref-point', 2)


def r9_raman_orders(ctx):
    """R9: the perturbative Raman solver adds, for each order k it is asked for, the k-th order term computed in that very block
    (exponent += gamma_k inside `if order >= k`, gamma_k assigned in the same block): orders agree with the numerical method
    only if every term enters once"""
    repo = ctx.repo
    rs = repo.cls('RamanSolver', 'gnpy.core.science_utils')
    f = repo.method(rs, 'calculate_unidirectional_stimulated_raman_scattering')
    blocks = [n for n in ast.walk(f.node) if isinstance(n, ast.If) and isinstance(n.test, ast.Compare) and 'order' in ast.unparse(n.test)
              and any(isinstance(x, ast.AugAssign) for x in n.body)]
    seen = []
    for b in blocks:
        adds = [x for x in b.body if isinstance(x, ast.AugAssign) and isinstance(x.op, ast.Add) and isinstance(x.value, ast.Name)]
        assigned = {t.id for x in b.body if isinstance(x, ast.Assign) for t in x.targets if isinstance(t, ast.Name)}
        ok = len(adds) == 1 and adds[0].value.id in assigned and adds[0].value.id not in seen
        if adds:
            seen.append(adds[0].value.id)
        ctx.check('R9.raman-orders', f'{site(f, b)} {ast.unparse(b.test)}', ok, key(f, f'order|{ast.unparse(b.test)}'),
                  f'the block for `{ast.unparse(b.test)}` does not add the term it computes (adds {[ast.unparse(a.value) for a in adds]}, '
                  f'assigns {sorted(assigned)}): an order would be missing or counted twice')
    ctx.need('R9.raman-orders', 4)


def r10_sibling_accumulators(ctx):
    """R10: a Raman-pumped span accumulates CD, PMD and latency exactly like a plain span: the statements that update
    chromatic_dispersion, pmd and latency in RamanFiber.propagate are the ones of Fiber.propagate (same expressions, in
    particular the dispersion evaluated at the channel frequencies)"""
    repo = ctx.repo
    out = {}
    for cn in ('Fiber', 'RamanFiber'):
        f = repo.method(repo.cls(cn, EL), 'propagate')
        sp = f.params[1]
        d = {}
        for n in walk_no_nested(f.node):
            if isinstance(n, (ast.Assign, ast.AugAssign)):
                t = n.targets[0] if isinstance(n, ast.Assign) else n.target
                if isinstance(t, ast.Attribute) and isinstance(t.value, ast.Name) and t.value.id == sp and \
                        t.attr in ('chromatic_dispersion', 'pmd', 'latency', 'pdl'):
                    d[t.attr] = ast.unparse(n).replace(sp + '.', 'SI.')
        out[cn] = (f, d)
    (ff, a), (fr, b) = out['Fiber'], out['RamanFiber']
    for fld in sorted(set(a) | set(b)):
        ctx.check('R10.sibling-accumulators', f'{site(fr)} {fld}', a.get(fld) == b.get(fld), key(fr, f'sibling|{fld}'),
                  f'RamanFiber.propagate updates {fld} as `{b.get(fld)}`, Fiber.propagate as `{a.get(fld)}`: a Raman span would accumulate '
                  'another quantity than a plain span with the same parameters')
    ctx.need('R10.sibling-accumulators', 3)


def r11_raman_contraction(ctx):
    """R11: in every numerical step of the Raman solver (the unidirectional solver and both sweeps of the iterative one) the Raman
    matrix meets the power vector the same way round: (cr @ P)[i] = sum_j cr[i, j] P[j] - written `sum(cr * P, 1)`, `cr @ P`,
    `dot(cr, P)` or `matmul(cr, P)`.  `P @ cr`, a sum over axis 0 or a transposed matrix is the transposed contraction: power would
    flow from the low to the high frequencies, and the numerical and the perturbative losses of a loaded span disagree"""
    repo = ctx.repo
    rs = repo.cls('RamanSolver', 'gnpy.core.science_utils')
    n = 0

    def is_cr(e):
        # the solver's Raman matrices are named after fiber.cr (cr, co_cr, cnt_cr, and their renamed copies): recognised by that token
        return isinstance(e, ast.Name) and any(t.lower().endswith('cr') for t in e.id.split('_') if t)

    def is_crT(e):
        return (isinstance(e, ast.Attribute) and e.attr == 'T' and is_cr(e.value)) or \
            (isinstance(e, ast.Call) and ast.unparse(e.func).split('.')[-1] == 'transpose' and len(e.args) == 1 and is_cr(e.args[0]))

    for m in list(rs.methods.values()):
        for c in ast.walk(m.node):
            kind = None
            if isinstance(c, ast.BinOp) and isinstance(c.op, ast.MatMult):
                if is_cr(c.left) and not is_cr(c.right):
                    kind = 'row'
                elif is_cr(c.right) or is_crT(c.left):
                    kind = 'col'
            elif isinstance(c, ast.Call) and ast.unparse(c.func).split('.')[-1] in ('dot', 'matmul') and len(c.args) == 2:
                if is_cr(c.args[0]) and not is_cr(c.args[1]):
                    kind = 'row'
                elif is_cr(c.args[1]) or is_crT(c.args[0]):
                    kind = 'col'
            elif isinstance(c, ast.Call) and ast.unparse(c.func).split('.')[-1] == 'sum' and c.args and \
                    isinstance(c.args[0], ast.BinOp) and isinstance(c.args[0].op, ast.Mult) and \
                    (is_cr(c.args[0].left) or is_cr(c.args[0].right) or is_crT(c.args[0].left) or is_crT(c.args[0].right)):
                ax = c.args[1] if len(c.args) > 1 else next((k.value for k in c.keywords if k.arg == 'axis'), None)
                axv = None
                try:
                    axv = ast.literal_eval(ax) if ax is not None else None
                except Exception:
                    pass
                tr = is_crT(c.args[0].left) or is_crT(c.args[0].right)
                if axv in (1, -1):
                    kind = 'col' if tr else 'row'
                elif axv == 0:
                    kind = 'row' if tr else 'col'
                else:
                    kind = '?'
            if kind is None:
                continue
            n += 1
            how = 'the transposed way (sum over its first index)' if kind == 'col' else 'in a way this rule cannot orient'
            ctx.check('R11.raman-contraction', f'{site(m, c)}', kind == 'row', key(m, f'contraction|{n}'),
                      f'{m.name}: `{ast.unparse(c)[:80]}` contracts the Raman matrix {how}: every step must use sum_j cr[i, j] P[j]; the '
                      'transposed product reverses the direction of the Raman transfer (numerical and perturbative results of a loaded '
                      'span then differ)')
    ctx.need('R11.raman-contraction', 1)


from ..memo import rule_for as _memo_rule

RULES_MEMO = ('Rm.memo', _memo_rule('C05', 'the loss or dispersion of another fibre configuration would be applied'))


from ..presence import rule_for as _presence_rule

RULES_PRESENCE = ('Rp.presence', _presence_rule('C05', 'a fibre parameter of exactly 0 would be replaced by a default'))

RULES = [('R4.cd', r4_cd), ('R1.once', r1_once), ('R2.budget', r2_budget), ('R3.accumulators', r3_accumulators), RULES_MEMO, RULES_PRESENCE, ('Rk.field-key', rk_field_key), ('Ru.units', ru_units), ('Rs.sorted-abscissa', rs_sorted), ('R5.lumped-once', r5_lumped_once), ('R6.lumped-all', r6_lumped_all), ('R7.channel-order', r7_channel_order), ('Rn.arg-roles', rn_arg_roles), ('R8.ref-point', r8_ref_point), ('R9.raman-orders', r9_raman_orders), ('R10.sibling-accumulators', r10_sibling_accumulators), ('R11.raman-contraction', r11_raman_contraction)]
