"""C08 - auto-design turns any well-formed topology into a complete line system.

 R1 graph surgery  : in add_roadm_booster / add_roadm_preamp / add_inline_amplifier every removed edge (a, b) is
                     replaced by a -> amp -> b through the one new amplifier, on every path; split_fiber removes the
                     fibre and links prev -> span_1 -> ... -> span_n -> next with the neighbours read before removal.
 R2 edge weights   : at every add_edge in gnpy/ the weight is the length of the source when the source is a fibre, else
                     0.01, evaluated for the source of THAT edge (shared with C11: weight = fibre length).
 R3 completeness   : every non-raising path through set_one_amplifier stores effective_gain, delta_p, _delta_p,
                     tilt_target and runs the VOA step; an auto-selected model copies the library entry's parameters and
                     name; add_connector_loss leaves con_in / con_out set on all paths; padding brings the span loss up
                     to exactly the configured padding (att_in' = att_in + padding - span_loss when below), skipped for
                     Raman fibres and before fused elements.
 R4 splitting      : calculate_new_length: every returned (L, n) has L * n = original length; the longer candidate is
                     returned only under a test that it does not exceed the maximum span length; a fibre below the
                     maximum is kept; split_fiber builds n spans from the fibre's own parameters with length L and
                     distinct names.
 R5 order/coverage : add_missing_elements_in_network: split all fibres, then preamp + booster on all ROADMs, then
                     inline amplifiers on the fibre list re-read after splitting; boosters/preamps are not added next to
                     transceivers, fused elements or existing amplifiers.
 R6 every OMS      : build_network runs set_egress_amplifier for every ROADM and transceiver, which dispatches on Edfa,
                     RamanFiber and Multiband_amplifier and fails loudly when no model is permitted.
 Rm memo          : every memoisation construct in the functions behind this property is keyed by everything it reads.
 Rp presence      : optional numeric fields are tested with `is None` / membership, never by truthiness (0 is a value).
 R7 span walk     : prev/next_node_generator continue over exactly the (Fused, Fused|fibre) / (Fused|fibre, Fused) class pairs
                    (truth table of the isinstance condition over the element classes), mirror images; find_first/last_node.
 Ru units         : lengths configured with a unit entry are only used through convert_length(value, same record's length_units).
 Rv verbose       : blocks guarded by the verbose flag only report; the design does not depend on the logging flag.
 Re for-each      : loops that act on every item are never left early (break / return).
 Rn arg roles     : a variable named like a parameter of the callee is handed to that parameter (no exchanged roles).
 R9 fibre lists   : split_fiber and add_inline_amplifier are applied to every fibre class (truth table), and only to fibres.
 Rz sentinel      : fields defaulted when None are None when absent from the input (loader .get without another default).
 R10 defaults/kind: connector defaults of the same side; amplifier kind decided on the frozen side of the OMS per insertion function.
 R11 band cover     : band eligibility of amplifier models includes the edges (shared with C10).
 R12 SI default     : a lone spectral definition with another name is moved under 'default' (stored and removed).
"""
import ast

from ..model import AnchorMissing, CannotAnalyse, walk_no_nested
from ..cfg import CFG, fmt_path
from ..poly import Rat, C, mk_atom, restrict, gamma_conds, fn
from ..vg import Evaluator, vkey, atoms_of, Const
from ..dataflow import names_in, local_defs
from .common import calls_to, site, key, stmt_of, enclosing, kwarg, iter_value, resolved

NW = 'gnpy.core.network'
EXPLANATION = (
    "Structural obligations of auto-design decided from source: graph surgery is checked on the evaluator's call "
    "records (values, not names: the source, the new node and the target of each removed and each added edge), edge "
    "weights are checked per add_edge against the source of that very edge; definite assignment of the designed "
    "operating point on every non-raising path of set_one_amplifier; connector-loss defaults and the padding formula "
    "on the loop body's value graph; every return of calculate_new_length satisfies L*n = length and the longer "
    "candidate is guarded by the maximum length; ordering and coverage of the passes. Not decided: uniqueness of "
    "generated names across the whole network, reachability preservation, padding over arbitrary fused chains."
)
ASSUMPTIONS = ["networkx DiGraph.add_edge / remove_edge / remove_node semantics", "element constructors build what their name says"]
RULE_TEXT = ("sites: each remove_edge/remove_node and add_edge call of the four surgery functions, every add_edge in gnpy/, "
             "each exit of set_one_amplifier, each return of calculate_new_length, the pass order, the dispatch arms")

FIBER_T = ('elements.Fiber', 'Fiber', 'elements.RamanFiber', '(elements.Fiber, elements.RamanFiber)')


def edge_weight_rule(ctx, RULE):
    """R2, shared with C11"""
    repo = ctx.repo
    n = 0
    for f in repo.all_funcs():
        calls = calls_to(f, {'add_edge'})
        if not calls:
            continue
        types = {}
        ev = Evaluator(repo, f, no_inline={'get_oms_edge_list', 'get_oms_edge_list_from_egress', 'check_oms_single_type',
                                           'calculate_new_length', 'get_next_node', 'asdict'}).run_function()
        recs = [c for c in ev.calls if c.name == 'add_edge']
        for c in recs:
            n += 1
            src = c.args[0] if c.args else None
            w = c.kwargs.get('weight')
            st = site(f, c.node)
            if src is None or w is None:
                ctx.bad(RULE, st, key(f, f'no-weight|{ast.unparse(c.node)}'), 'an edge is added without a weight')
                continue
            sk = vkey(src)
            length = Rat.of(mk_atom('fn', 'attr', (Rat.of(mk_atom('fn', 'attr', (src, 'params'))), 'length'))) \
                if not _is_path(src) else Rat.of(mk_atom('fld', f'{sk}.params.length'))
            small = C(1) / C(100)
            ok = False
            why = ''
            if isinstance(w, Rat):
                conds = [x for x in gamma_conds(w) if x.startswith('isinstance(')]
                if len(conds) == 1 and conds[0].startswith(f'isinstance({sk},') and 'Fiber' in conds[0]:
                    ok = restrict(w, {conds[0]: True}).eq(length) and restrict(w, {conds[0]: False}).eq(small)
                    why = 'guarded by isinstance(source, Fiber)'
                elif w.eq(small):
                    ok = _known_not_fiber(repo, f, src, c)
                    why = 'constant 0.01: source must be known not to be a fibre'
                elif w.eq(length):
                    ok = _known_fiber(repo, f, src, c)
                    why = 'source length: source must be known to be a fibre'
            ctx.check(RULE, st, ok, key(f, f'weight|{ast.unparse(c.node.args[0]) if c.node.args else ""}'),
                      'the weight of this edge is not (length of its source if the source is a fibre, else 0.01) for the source of '
                      'THIS edge: routes would not be ranked by fibre length',
                      f'source {sk[:80]}; weight {vkey(w)[:200]}; {why}')
    ctx.need(RULE, 9, 'json_io x1, network.py x8')


def _is_path(v):
    a = v.single_atom() if isinstance(v, Rat) else None
    return a is not None and a.kind in ('sym', 'fld')


def _known_not_fiber(repo, f, src, c):
    k = vkey(src)
    if 'Edfa' in k and 'call:' in k or 'Multiband_amplifier' in k and 'call:' in k:
        # the freshly constructed amplifier (possibly a gamma of the two constructors)
        return all(('elements.Edfa' in a.name or 'elements.Multiband_amplifier' in a.name) for a in atoms_of(src).values()
                   if a.kind == 'fn' and a.name.startswith('call:') and a.name.count('.') >= 3 and 'elements.' in a.name
                   and a.name.split('.')[-1][0].isupper()) and ('call:gnpy.core.elements.Edfa' in k or 'call:gnpy.core.elements.Multiband' in k)
    a = src.single_atom() if isinstance(src, Rat) else None
    if a is not None and a.kind == 'sym':
        ann = next((x.annotation for x in f.node.args.args if x.arg == a.name), None)
        return ann is not None and 'Roadm' in ast.unparse(ann)
    return False


def _known_fiber(repo, f, src, c):
    a = src.single_atom() if isinstance(src, Rat) else None
    if a is not None and a.kind == 'sym':
        ann = next((x.annotation for x in f.node.args.args if x.arg == a.name), None)
        if ann is not None and 'Fiber' in ast.unparse(ann):
            return True
    return any(ck.startswith(f'isinstance({vkey(src)},') and 'Fiber' in ck and v for ck, v in c.pc)


def r1_surgery(ctx):
    repo = ctx.repo
    for name in ('add_roadm_booster', 'add_roadm_preamp', 'add_inline_amplifier'):
        f = repo.func(NW, name)
        ev = Evaluator(repo, f, no_inline={'get_oms_edge_list', 'get_oms_edge_list_from_egress', 'check_oms_single_type',
                                           'get_next_node'}).run_function()
        rem = [c for c in ev.calls if c.name == 'remove_edge']
        add = [c for c in ev.calls if c.name == 'add_edge']
        nod = [c for c in ev.calls if c.name == 'add_node']
        s = site(f)
        ok = len(rem) == 1 and len(add) == 2 and len(nod) == 1
        ctx.check('R1.surgery', f'{s} shape', ok, key(f, 'shape'),
                  f'{name}: expected one removed edge replaced by two edges through one new node, found remove_edge x{len(rem)}, '
                  f'add_node x{len(nod)}, add_edge x{len(add)}')
        if not ok:
            continue
        a, b = rem[0].args[0], rem[0].args[1]
        x = nod[0].args[0]
        e1 = (vkey(add[0].args[0]), vkey(add[0].args[1]))
        e2 = (vkey(add[1].args[0]), vkey(add[1].args[1]))
        ok = {e1, e2} == {(vkey(a), vkey(x)), (vkey(x), vkey(b))}
        ctx.check('R1.surgery', f'{s} relinked', ok, key(f, 'relink'),
                  f'{name}: the removed edge (a, b) is not replaced by a -> new amplifier -> b', f'removed ({vkey(a)[:40]}, {vkey(b)[:40]}); added {e1[0][:40]}->{e1[1][:40]}, {e2[0][:40]}->{e2[1][:40]}')
        same_pc = all(c.pc == rem[0].pc for c in add + nod)
        ctx.check('R1.surgery', f'{s} on every path', same_pc, key(f, 'paths'),
                  f'{name}: the re-linking does not happen on exactly the paths on which the edge is removed',
                  f'remove under {rem[0].pc}; add under {[c.pc for c in add]}')
        xk = vkey(x)
        ok = 'call:gnpy.core.elements.Edfa' in xk and 'call:gnpy.core.elements.Multiband_amplifier' in xk
        ctx.check('R1.surgery', f'{s} new node is an amplifier', ok, key(f, 'amp'),
                  f'{name}: the inserted node is not an Edfa or a Multiband_amplifier', xk[:120])
    # split_fiber
    f = repo.func(NW, 'split_fiber')
    ev = Evaluator(repo, f, no_inline={'calculate_new_length', 'asdict'}).run_function()
    rn = [c for c in ev.calls if c.name == 'remove_node']
    add = [c for c in ev.calls if c.name == 'add_edge']
    s = site(f)
    ok = len(rn) == 1 and vkey(rn[0].args[0]) == f.params[1] and len(add) == 2
    ctx.check('R1.surgery', f'{s} shape', ok, key(f, 'shape'), 'split_fiber does not remove the fibre and add the chain edges')
    if ok:
        inloop = [c for c in add if any(k.startswith('loop#') for k, _ in c.pc)]
        after = [c for c in add if c not in inloop]
        ok = len(inloop) == 1 and len(after) == 1
        if ok:
            lid = sorted(ev.loop_bodies)[-1] if ev.loop_bodies else None
            lb = ev.loop_bodies.get(lid, {})
            span = inloop[0].args[1]
            # the running predecessor: a local that is the graph predecessor before the loop and the new span after an iteration
            run = [nm for nm, v in lb.get('post', {}).items() if isinstance(v, Rat) and v.eq(span) and
                   lb.get('pre', {}).get(nm) is not None and 'predecessors' in vkey(lb['pre'][nm])]
            ok = 'call:gnpy.core.elements.Fiber' in vkey(span) and 'loopvar' in vkey(inloop[0].args[0]) and bool(run)
            nxt = after[0].args[1]
            ok = ok and 'successors' in vkey(nxt) and vkey(rn[0].args[0]) in vkey(nxt)
        ctx.check('R1.surgery', f'{s} chain', bool(ok), key(f, 'chain'),
                  'split_fiber does not link prev -> span_1 -> ... -> span_n -> next (prev/next read from the graph before the fibre '
                  'is removed, each new span becoming the predecessor of the following one)')
        g = CFG(f.node)
        rnn = g.node_of(stmt_of(f, rn[0].node))
        nb = [n for n in walk_no_nested(f.node) if isinstance(n, ast.Assign) and 'successors' in ast.unparse(n.value)]
        ok = bool(nb) and g.dominates(g.node_of(nb[0]), rnn)
        ctx.check('R1.surgery', f'{s} neighbours read first', ok, key(f, 'neighbours-first'),
                  'the neighbours of the fibre are read after the fibre has been removed from the graph')
    ctx.need('R1.surgery', 15)


def r2_weights(ctx):
    edge_weight_rule(ctx, 'R2.edge-weight')


def r3_completeness(ctx):
    repo = ctx.repo
    f = repo.func(NW, 'set_one_amplifier')
    ev = Evaluator(repo, f, no_inline={'compute_gain_power_and_tilt_target', 'select_edfa', 'set_amplifier_voa', 'update_params'}).run_function()
    need = ['node.effective_gain', 'node.delta_p', 'node._delta_p', 'node.tilt_target', 'node.target_pch_out_dbm']
    for i, (pc, v, st) in enumerate(ev.outcomes):
        miss = [x for x in need if x not in st]
        ctx.check('R3.definite', f'{site(f)} exit #{i + 1}', not miss, key(f, f'definite|{",".join(miss)}'),
                  f'a non-raising path through set_one_amplifier leaves {miss} unset: the amplifier is not completely designed')
    voa = [c for c in ev.calls if c.name == 'set_amplifier_voa']
    ctx.check('R3.definite', f'{site(f)} VOA step unconditional', len(voa) == 1 and not voa[0].pc, key(f, 'voa-always'),
              'the output/input VOA defaults are not applied on every path', f'{[c.pc for c in voa]}')
    up = [c for c in ev.calls if c.name == 'update_params']
    ok = len(up) == 1 and up[0].pc and up[0].pc[-1][0].startswith('eq(node.params.type_variety') and up[0].pc[-1][1] and \
        "'Edfa'" in vkey(up[0].args[0]) and 'select_edfa' in vkey(up[0].args[0])
    ctx.check('R3.definite', f'{site(f)} auto-selected model copied', bool(ok), key(f, 'update-params'),
              'when no model is imposed the parameters of the SELECTED library entry are not copied into the amplifier',
              vkey(up[0].args[0])[:160] if up else 'no update_params call')
    tv = [s_ for s_ in walk_no_nested(f.node) if isinstance(s_, ast.Assign) and ast.unparse(s_.targets[0]) == 'node.type_variety']
    ctx.check('R3.definite', f'{site(f)} model name recorded', bool(tv) and ast.unparse(tv[0].value) == 'node.params.type_variety',
              key(f, 'type-variety'), 'the selected model name is not recorded on the amplifier')
    # connector losses
    cl = repo.func(NW, 'add_connector_loss')
    ec = Evaluator(repo, cl, no_inline={'get_next_node'}).run_function()
    lb = list(ec.loop_bodies.values())
    ok = False
    det = ''
    if len(lb) == 1:
        stv = lb[0]['store']
        lv = next((k for k in stv if k.endswith('.params.con_in')), None)
        if lv:
            base = lv[:-len('.con_in')]
            ci, co = stv.get(f'{base}.con_in'), stv.get(f'{base}.con_out')
            det = f'con_in = {vkey(ci)[:100]}; con_out = {vkey(co)[:140]}'
            from ..poly import Rat as R_
            c1 = [c for c in gamma_conds(ci) if c.startswith('isnone(')]
            ok = len(c1) == 1 and restrict(ci, {c1[0]: True}).eq(Rat.sym(cl.params[2])) and \
                restrict(ci, {c1[0]: False}).eq(Rat.of(mk_atom('fld', f'{base}.con_in')))
            c2 = [c for c in gamma_conds(co) if c.startswith('isnone(')]
            ok = ok and len(c2) == 1 and 'const:None' not in vkey(restrict(co, {c2[0]: True}))
    ctx.check('R3.defaults', site(cl), ok, key(cl, 'connectors'),
              'add_connector_loss does not leave con_in / con_out set (default when None, kept otherwise) on every path', det)
    # padding
    pd = repo.func(NW, 'add_fiber_padding')
    ep = Evaluator(repo, pd, no_inline={'get_next_node', 'span_loss', 'find_first_node'}).run_function()
    lb = list(ep.loop_bodies.values())
    ok = False
    det = ''
    if len(lb) == 1:
        stv = lb[0]['store']
        k = next((x for x in stv if x.endswith('.params.att_in')), None)
        sl = [c for c in ep.calls if c.name == 'span_loss']
        if k and sl:
            v = stv[k]
            SL = Rat.of(mk_atom('fn', f'call:{NW}.span_loss', ep.argkeys(sl[0].args, sl[0].kwargs)))
            old = Rat.of(mk_atom('fld', k))
            pad = Rat.sym(pd.params[2])
            conds = sorted(gamma_conds(v))
            below = [c for c in conds if c.startswith('lt(') and 'span_loss' in c]
            isf = [c for c in conds if c.startswith('isinstance(') and 'Fiber' in c]
            det = f'att_in = {vkey(v)[:260]}'
            if len(below) == 1:
                a = {c: True for c in conds}            # not exempted, first element is a fibre, loss below the padding
                hit = restrict(v, a)
                miss = restrict(v, dict(a, **{below[0]: False}))
                ok = isinstance(hit, Rat) and hit.eq(old + pad - SL) and isinstance(miss, Rat) and miss.eq(old) and \
                    ep.cond_info.get(below[0], (None,))[0] == 'lt' and ep.cond_info[below[0]][1].eq(SL) and ep.cond_info[below[0]][2].eq(pad)
    ctx.check('R3.defaults', site(pd), ok, key(pd, 'padding'),
              'padding does not raise the input attenuation of the first fibre by exactly (padding - span loss) when the span loss '
              'is below the padding (att_in + padding - span_loss): spans would end up below (or above) the configured minimum loss', det)
    # canonical form: the guard clauses (`if ..: continue`) are the conjuncts of the test around the padding computation
    slc = calls_to(pd, {'span_loss'})
    gif = enclosing(slc[0], ast.If) if slc else None
    guards = []
    while gif is not None:
        t = gif.test
        guards += [ast.unparse(x) for x in (t.values if isinstance(t, ast.BoolOp) and isinstance(t.op, ast.And) else [t])]
        gif = enclosing(gif, ast.If)
    guards = [g_ for g_ in guards if g_.startswith('not isinstance(')]
    ctx.check('R3.defaults', f'{site(pd)} exemptions', any('Fused' in g_ for g_ in guards) and any('RamanFiber' in g_ for g_ in guards),
              key(pd, 'exempt'), 'padding is no longer skipped before fused elements and for Raman fibres', f'{guards}')
    ctx.need('R3.definite', 4)
    ctx.need('R3.defaults', 3)


def r4_split(ctx):
    repo = ctx.repo
    f = repo.func(NW, 'calculate_new_length')
    ev = Evaluator(repo, f).run_function()
    FL, B, T = (Rat.sym(p) for p in f.params)
    stop = Rat.of(mk_atom('fld', f'{f.params[1]}.stop'))
    n2 = None
    for i, (pc, v, _) in enumerate(ev.outcomes):
        s = f'{site(f)} return #{i + 1}'
        if not (isinstance(v, tuple) and len(v) == 2 and all(isinstance(x, Rat) for x in v)):
            ctx.cannot('R4.split', s, f'return value is not a (length, count) pair: {vkey(v)[:80]}')
            continue
        L, n = v
        ctx.check('R4.split', f'{s} total length kept', (L * n).eq(FL), key(f, f'product|{i}'),
                  'a returned (span length, span count) does not multiply back to the original fibre length', f'L={vkey(L)[:80]} n={vkey(n)[:80]}')
    # the decision itself: which (length, count) is returned under which outcome of the tests - compared, over every assignment of
    # the test atoms, with the reference decision (unsplit below the maximum; the candidate that alone is within bounds; else the one
    # closer to the target provided the longer one does not exceed the maximum; else the shorter one). Guard clauses, elif chains,
    # named booleans and `in_bounds1 != in_bounds2` forms all give the same table (gscan/casedomain.py)
    from .common import through_locals
    from ..casedomain import same_decisions
    p0, p1, p2 = f.params[:3]
    spec = ast.parse(f'''
def spec({p0}, {p1}, {p2}):
    if {p0} < {p1}.stop:
        return ({p0}, 1)
    if {p1}.start <= {p0} / (int({p0} // {p2}) + 1) <= {p1}.stop and not ({p1}.start <= {p0} / int({p0} // {p2}) <= {p1}.stop):
        return ({p0} / (int({p0} // {p2}) + 1), int({p0} // {p2}) + 1)
    if {p1}.start <= {p0} / int({p0} // {p2}) <= {p1}.stop and not ({p1}.start <= {p0} / (int({p0} // {p2}) + 1) <= {p1}.stop):
        return ({p0} / int({p0} // {p2}), int({p0} // {p2}))
    if {p0} / int({p0} // {p2}) - {p2} <= {p2} - {p0} / (int({p0} // {p2}) + 1) and {p0} / int({p0} // {p2}) <= {p1}.stop:
        return ({p0} / int({p0} // {p2}), int({p0} // {p2}))
    return ({p0} / (int({p0} // {p2}) + 1), int({p0} // {p2}) + 1)
''').body[0]
    same, diff = same_decisions(through_locals(f.node, local_defs(f.node)), spec)
    ctx.check('R4.split', f'{site(f)} decision', same, key(f, 'decision'),
              'the choice between keeping the fibre, the shorter and the longer candidate span length is not the documented one: '
              'e.g. the longer candidate returned without a test that it does not exceed the maximum span length (over-long spans '
              'survive the split), or a fibre above the maximum left unsplit', diff[:300])
    sf = repo.func(NW, 'split_fiber')
    g = CFG(sf.node)
    fb = sf.params[1]
    st_len = [n for n in walk_no_nested(sf.node) if isinstance(n, ast.Assign) and ast.unparse(n.targets[0]) == f'{fb}.params.length']
    ctor = [c for c in calls_to(sf, {'Fiber'})]
    ok = False
    cnl = calls_to(sf, {'calculate_new_length'})
    res = stmt_of(sf, cnl[0]).targets[0] if cnl and isinstance(stmt_of(sf, cnl[0]), ast.Assign) else None
    if st_len and ctor and isinstance(res, ast.Tuple) and len(res.elts) == 2:
        new_len, n_sp = res.elts[0].id, res.elts[1].id
        cn = g.node_of(stmt_of(sf, ctor[0]))
        ok = ast.unparse(st_len[0].value) == new_len and g.dominates(g.node_of(st_len[0]), cn) and \
            ast.unparse(kwarg(ctor[0], 'params')) == f'{fb}.params.asdict()' and ast.unparse(kwarg(ctor[0], 'type_variety')) == f'{fb}.type_variety'
        lp = enclosing(ctor[0], ast.For)
        sdefs = local_defs(sf.node)

        def n_long(e, depth=0):
            """e yields exactly n_spans items: range(n_spans), a comprehension over such a thing, zip / enumerate of such things"""
            e = resolved(sdefs, e)
            if depth > 4:
                return False
            if isinstance(e, ast.Call) and isinstance(e.func, ast.Name):
                if e.func.id == 'range':
                    return len(e.args) == 1 and ast.unparse(e.args[0]) == n_sp
                if e.func.id == 'zip':
                    return bool(e.args) and all(n_long(a, depth + 1) for a in e.args)
                if e.func.id in ('enumerate', 'list', 'tuple', 'reversed'):
                    return bool(e.args) and n_long(e.args[0], depth + 1)
            if isinstance(e, (ast.ListComp, ast.GeneratorExp)):
                return len(e.generators) == 1 and not e.generators[0].ifs and n_long(e.generators[0].iter, depth + 1)
            return False
        ok = ok and lp is not None and n_long(lp.iter)
        uid = kwarg(ctor[0], 'uid')
        lvars = {n.id for n in ast.walk(lp.target) if isinstance(n, ast.Name)} if lp is not None else set()
        ok = ok and isinstance(uid, ast.JoinedStr) and bool(lvars & names_in(uid)) and f'{fb}.uid' in ast.unparse(uid)
    ctx.check('R4.split', f'{site(sf)} spans', bool(ok), key(sf, 'spans'),
              'split_fiber does not create n_spans spans from the fibre\'s own parameters (with the new length set first), type and a '
              'per-span name')
    ok = bool(cnl) and [ast.unparse(a) for a in cnl[0].args] == [f'{fb}.params.length', sf.params[2], sf.params[3]]
    ctx.check('R4.split', f'{site(sf)} input', ok, key(sf, 'cnl-args'), 'the split is not computed from the fibre\'s own length, the bounds and the target')
    ctx.need('R4.split', 5)


def r5_order(ctx):
    repo = ctx.repo
    f = repo.func(NW, 'add_missing_elements_in_network')
    g = CFG(f.node)
    order = ['split_fiber', 'add_roadm_preamp', 'add_roadm_booster', 'add_inline_amplifier']
    nodes = {}
    for nm in order:
        cs = calls_to(f, {nm})
        if len(cs) != 1:
            raise AnchorMissing(f'add_missing_elements_in_network: one call to {nm}')
        nodes[nm] = cs[0]
    for a, b in zip(order, order[1:]):
        na, nb = g.node_of(stmt_of(f, nodes[a])), g.node_of(stmt_of(f, nodes[b]))
        la, lb = enclosing(nodes[a], ast.For), enclosing(nodes[b], ast.For)
        ok = la is not None and lb is not None and (la is lb or la.end_lineno < lb.lineno) and stmt_of(f, nodes[a]).lineno < stmt_of(f, nodes[b]).lineno
        ctx.check('R5.order', f'{site(f)} {a} before {b}', ok, key(f, f'order|{a}|{b}'), f'{a} does not run (for all elements) before {b}')
    # each loop ranges over all elements of its kind, lists read from the graph; the inline-amp list is re-read after the split
    for nm, kind in (('split_fiber', 'Fiber'), ('add_roadm_preamp', 'Roadm'), ('add_inline_amplifier', 'Fiber')):
        lp = enclosing(nodes[nm], ast.For)
        val, d = iter_value(f.node, lp)
        ok = 'network.nodes()' in ast.unparse(val) and f'elements.{kind}' in ast.unparse(val) and isinstance(val, ast.ListComp)
        if nm == 'add_inline_amplifier':
            ok = ok and d.lineno > enclosing(nodes['split_fiber'], ast.For).end_lineno
        ctx.check('R5.order', f'{site(f, lp)} {nm} over all {kind}s', bool(ok), key(f, f'coverage|{nm}'),
                  f'{nm} is not applied to every {kind} of the graph' + (' as it is after splitting' if nm == 'add_inline_amplifier' else ''))
    for nm, word in (('add_roadm_booster', 'successors'), ('add_roadm_preamp', 'predecessors')):
        h = repo.func(NW, nm)
        lc = [n for n in walk_no_nested(h.node) if isinstance(n, ast.ListComp)]
        txt = ast.unparse(lc[0]) if lc else ''
        ok = word in txt and all(x in txt for x in ('Transceiver', 'Fused', 'Edfa', 'Multiband_amplifier')) and 'not isinstance' in txt
        ctx.check('R5.order', f'{site(h)} where', ok, key(h, 'where'),
                  f'{nm} does not consider exactly the {word} that are not transceivers, fused elements or amplifiers')
    ia = repo.func(NW, 'add_inline_amplifier')
    t = [ast.unparse(n.test) for n in walk_no_nested(ia.node) if isinstance(n, ast.If)]
    ctx.check('R5.order', f'{site(ia)} where', bool(t) and 'elements.Fiber' in t[0], key(ia, 'where'),
              'an inline amplifier is not inserted exactly at fibre-to-fibre junctions', f'{t}')
    ctx.need('R5.order', 9)


def r6_every_oms(ctx):
    repo = ctx.repo
    f = repo.func(NW, 'build_network')
    cs = calls_to(f, {'set_egress_amplifier'})
    ok = False
    if len(cs) == 1:
        lp = enclosing(cs[0], ast.For)
        from ..pattern import mexpr
        it = lp.iter if lp is not None else None
        ok = isinstance(it, ast.BinOp) and isinstance(it.op, ast.Add) and isinstance(it.left, ast.Name) and isinstance(it.right, ast.Name)
        defs = local_defs(f.node)
        seen = set()
        for nm in ((it.left.id, it.right.id) if ok else ()):
            d = defs.get(nm, [])
            ok = ok and len(d) == 1
            for kind in ('Roadm', 'Transceiver'):
                if ok and mexpr(f'[V_x for V_x in {f.params[0]}.nodes() if isinstance(V_x, elements.{kind})]', d[0][1]) is not None:
                    seen.add(kind)
        ok = ok and seen == {'Roadm', 'Transceiver'}
    ctx.check('R6.every-oms', site(f), ok, key(f, 'all-vertices'),
              'amplifiers are not designed on the OMS leaving EVERY ROADM and EVERY transceiver')
    se = repo.func(NW, 'set_egress_amplifier')
    kinds = set()
    # the walk over the elements of one OMS: the loop that contains the amplifier set-up call
    soa = calls_to(se, {'set_one_amplifier'})
    lp = [enclosing(soa[0], ast.For)] if soa and enclosing(soa[0], ast.For) is not None else []
    walker = next((n.id for n in ast.walk(lp[0].target) if isinstance(n, ast.Name)), None) if lp else None
    for n in (walk_no_nested(lp[0]) if lp else ()):
        if isinstance(n, ast.If):
            t = ast.unparse(n.test)
            for k in ('elements.Edfa', 'elements.RamanFiber', 'elements.Multiband_amplifier'):
                if t == f'isinstance({walker}, {k})':
                    kinds.add(k)
    ctx.check('R6.every-oms', f'{site(se)} dispatch', len(kinds) == 3, key(se, 'dispatch'),
              f'the OMS walk handles {sorted(kinds)}; Edfa, RamanFiber and Multiband_amplifier must all be designed')
    ctx.check('R6.every-oms', f'{site(se)} whole OMS', bool(lp) and not any(isinstance(x, (ast.Break, ast.Return)) for x in ast.walk(lp[0])),
              key(se, 'whole-oms'), 'the walk over the elements of an OMS can stop early')
    raises = [n for n in walk_no_nested(se.node) if isinstance(n, ast.Raise) and 'ConfigurationError' in ast.unparse(n)]
    ctx.check('R6.every-oms', f'{site(se)} no permitted model', bool(raises), key(se, 'no-model'),
              'an amplifier for which no model is permitted no longer stops the design with a configuration error')
    ctx.need('R6.every-oms', 4)



def _end_of_walk(fnode, gen, NET, ND, case):
    """abstract run of find_first_node / find_last_node for one of two cases of the span walk `gen(NET, ND)`: 'empty' (no
    element) or 'many' (FIRST ... LAST, at least two, all distinct).  Values: NODE (the argument), FIRST, LAST, WALK (the
    walk as an iterator or a sequence), booleans, ints (lengths: 0 / 'N'), '?' (not modelled).  Returns the set of values
    the function can return in that case ('?' whenever a construct is outside the modelled fragment, 'RAISE' for an
    index into the empty walk)."""
    many = case == 'many'
    out = set()

    def ev(e, env):
        if isinstance(e, ast.Name):
            return env.get(e.id, 'NODE' if e.id == ND else '?')
        if isinstance(e, ast.Constant):
            return e.value if isinstance(e.value, (bool, int)) or e.value is None else '?'
        if isinstance(e, ast.Call):
            fn_ = ast.unparse(e.func)
            if fn_ == gen and len(e.args) == 2 and not e.keywords and ast.unparse(e.args[0]) == NET and ev(e.args[1], env) == 'NODE':
                return 'WALK'
            if fn_ in ('list', 'tuple') and len(e.args) == 1 and not e.keywords:
                return 'WALK' if ev(e.args[0], env) == 'WALK' else '?'
            if fn_ == 'len' and len(e.args) == 1 and ev(e.args[0], env) == 'WALK':
                return 'N' if many else 0
            if fn_ == 'bool' and len(e.args) == 1:
                return truth(ev(e.args[0], env))
            return '?'
        if isinstance(e, ast.Subscript) and ev(e.value, env) == 'WALK':
            i = e.slice
            ix = ast.unparse(i).replace(' ', '')
            if ix in ('-1',) or (isinstance(i, ast.BinOp) and isinstance(i.op, ast.Sub) and ev(i.left, env) == 'N' and ix.endswith('-1')):
                return 'LAST' if many else 'RAISE'
            if ix == '0':
                return 'FIRST' if many else 'RAISE'
            return '?'
        if isinstance(e, ast.UnaryOp) and isinstance(e.op, ast.Not):
            t = truth(ev(e.operand, env))
            return (not t) if isinstance(t, bool) else '?'
        if isinstance(e, ast.Compare) and len(e.ops) == 1:
            a, b = ev(e.left, env), ev(e.comparators[0], env)
            if isinstance(e.ops[0], (ast.Is, ast.IsNot)) and (a is None or b is None):
                o = a if b is None else b
                if o in ('NODE', 'FIRST', 'LAST', 'WALK'):
                    return isinstance(e.ops[0], ast.IsNot)
                if o is None:
                    return isinstance(e.ops[0], ast.Is)
                return '?'
            if a == 'N' and isinstance(b, int) and not isinstance(b, bool) and b in (0, 1):     # N >= 2
                return {ast.Gt: True, ast.GtE: True, ast.NotEq: True, ast.Eq: False, ast.Lt: False, ast.LtE: False}.get(type(e.ops[0]), '?')
            if isinstance(a, int) and isinstance(b, int) and not isinstance(a, bool) and not isinstance(b, bool):
                return {ast.Gt: a > b, ast.GtE: a >= b, ast.NotEq: a != b, ast.Eq: a == b, ast.Lt: a < b, ast.LtE: a <= b}.get(type(e.ops[0]), '?')
            return '?'
        if isinstance(e, ast.IfExp):
            t = truth(ev(e.test, env))
            return ev(e.body if t else e.orelse, env) if isinstance(t, bool) else '?'
        if isinstance(e, ast.BoolOp):
            v = '?'
            for x in e.values:
                v = ev(x, env)
                t = truth(v)
                if not isinstance(t, bool):
                    return '?'
                if t == isinstance(e.op, ast.Or):
                    return v
            return v
        return '?'

    def truth(v):
        if isinstance(v, bool):
            return v
        if v is None:
            return False
        if isinstance(v, int):
            return v != 0
        if v == 'N':
            return True
        if v == 'WALK_SEQ':
            return many
        if v in ('NODE', 'FIRST', 'LAST'):
            return True
        return '?'

    def run(stmts, env):
        """returns False when every path through stmts has returned"""
        for st in stmts:
            if isinstance(st, ast.Expr) and isinstance(st.value, ast.Constant):
                continue
            if isinstance(st, ast.Pass):
                continue
            if isinstance(st, (ast.Assign, ast.AnnAssign)) and (st.value is not None):
                tg = st.targets if isinstance(st, ast.Assign) else [st.target]
                if len(tg) == 1 and isinstance(tg[0], ast.Name):
                    v = ev(st.value, env)
                    # a materialised walk (list / tuple) has a truth value, the generator itself does not
                    if v == 'WALK' and isinstance(st.value, ast.Call) and ast.unparse(st.value.func) in ('list', 'tuple'):
                        env[tg[0].id + '#seq'] = True
                    env[tg[0].id] = v
                    continue
                out.add('?')
                return False
            if isinstance(st, ast.Return):
                out.add(ev(st.value, env) if st.value is not None else None)
                return False
            if isinstance(st, ast.For) and isinstance(st.target, ast.Name) and ev(st.iter, env) == 'WALK' and not st.orelse:
                simple = all(isinstance(b, ast.Pass) or (isinstance(b, ast.Assign) and len(b.targets) == 1 and isinstance(b.targets[0], ast.Name)
                                                         and isinstance(b.value, ast.Name)) for b in st.body)
                if not simple:
                    out.add('?')
                    return False
                if many:
                    env[st.target.id] = 'LAST'
                    for b in st.body:
                        if isinstance(b, ast.Assign):
                            env[b.targets[0].id] = ev(b.value, env)
                continue
            if isinstance(st, ast.If):
                tv = st.test
                if isinstance(tv, ast.Name) and env.get(tv.id) == 'WALK' and env.get(tv.id + '#seq'):
                    t = many
                elif isinstance(tv, ast.UnaryOp) and isinstance(tv.op, ast.Not) and isinstance(tv.operand, ast.Name) and \
                        env.get(tv.operand.id) == 'WALK' and env.get(tv.operand.id + '#seq'):
                    t = not many
                else:
                    t = truth(ev(tv, env))
                if not isinstance(t, bool):
                    out.add('?')
                    return False
                if not run(st.body if t else st.orelse, env):
                    return False
                continue
            out.add('?')
            return False
        return True

    env = {}
    # truth value of a materialised walk inside expressions (x[-1] if x else node)
    _ev = ev

    def ev(e, env):      # noqa: F811
        if isinstance(e, ast.IfExp) or isinstance(e, ast.BoolOp) or (isinstance(e, ast.UnaryOp) and isinstance(e.op, ast.Not)):
            def tr(x):
                if isinstance(x, ast.Name) and env.get(x.id) == 'WALK':
                    return many if env.get(x.id + '#seq') else '?'
                if isinstance(x, ast.UnaryOp) and isinstance(x.op, ast.Not):
                    t = tr(x.operand)
                    return (not t) if isinstance(t, bool) else '?'
                return truth(_ev(x, env))
            if isinstance(e, ast.IfExp):
                t = tr(e.test)
                return ev(e.body if t else e.orelse, env) if isinstance(t, bool) else '?'
            if isinstance(e, ast.UnaryOp):
                t = tr(e.operand)
                return (not t) if isinstance(t, bool) else '?'
        return _ev(e, env)
    if run(fnode.body, env):
        out.add(None)
    return out


def r7_span_walk(ctx):
    """R7: the walk that collects the elements of one span (prev_node_generator / next_node_generator, hence span_loss,
    padding and find_first/last_node) continues over exactly the pairs (neighbour, node) where one is a Fused and the
    other a Fused or a fibre (Raman fibres included) - decided as the truth table of its isinstance condition over the
    element classes - and the two directions are mirror images"""
    from ..typedomain import truth_table
    repo = ctx.repo
    m = repo.module(NW)
    el = repo.module('gnpy.core.elements')
    names = ['Fiber', 'RamanFiber', 'Fused', 'Edfa', 'Multiband_amplifier', 'Roadm', 'Transceiver']
    dom = [el.classes[n] for n in names if n in el.classes]
    if len(dom) != len(names):
        raise AnchorMissing('element classes')
    span = {'Fiber', 'RamanFiber', 'Fused'}
    tables = {}
    for fname, meth in (('prev_node_generator', 'predecessors'), ('next_node_generator', 'successors')):
        f = repo.func(NW, fname)
        NET, ND = f.params[0], f.params[1]
        nb = [n.targets[0].id for n in walk_no_nested(f.node) if isinstance(n, ast.Assign) and isinstance(n.targets[0], ast.Name) and
              ast.unparse(n.value) == f'next({NET}.{meth}({ND}))']
        ifs = [n for n in f.node.body if isinstance(n, ast.If)]
        ok = len(nb) == 1 and len(ifs) == 1
        ctx.check('R7.span-walk', f'{site(f)} neighbour', ok, key(f, 'neighbour'),
                  f'{fname} does not look at the first of {NET}.{meth}({ND}) and decide on one condition')
        if not ok:
            continue
        tt = truth_table(repo, m, ifs[0].test, [nb[0], ND], dom)
        tables[fname] = tt
        wrong = sorted(k for k, v in tt.items() if v != ((k[0] == 'Fused' and k[1] in span) or (k[0] in span and k[1] == 'Fused')))
        ctx.check('R7.span-walk', f'{site(f, ifs[0])} pairs that continue the span', not wrong, key(f, 'pairs'),
                  f'{fname} continues / stops on the wrong (neighbour, node) class pairs {wrong[:6]}: the span (its loss, padding and '
                  'first / last fibre) would be cut short or run through an amplifier', ast.unparse(ifs[0].test)[:200])
        ys = [n for n in ast.walk(ifs[0]) if isinstance(n, (ast.Yield, ast.YieldFrom))]
        ok = len(ys) == 2 and isinstance(ys[0], ast.Yield) and ast.unparse(ys[0].value) == nb[0] and isinstance(ys[1], ast.YieldFrom) and \
            ast.unparse(ys[1].value) == f'{fname}({NET}, {nb[0]})' and not ifs[0].orelse
        ctx.check('R7.span-walk', f'{site(f, ifs[0])} recursion', ok, key(f, 'recursion'),
                  f'{fname} does not yield the neighbour and then continue the walk from it')
    if len(tables) == 2:
        ctx.check('R7.span-walk', 'prev / next mirror', tables['prev_node_generator'] == tables['next_node_generator'], f'{NW}|span-walk-mirror',
                  'the backward and the forward span walks accept different class pairs')
    for fname, gen in (('find_first_node', 'prev_node_generator'), ('find_last_node', 'next_node_generator')):
        f = repo.func(NW, fname)
        res = {case: _end_of_walk(f.node, gen, f.params[0], f.params[1], case) for case in ('empty', 'many')}
        ok = res['empty'] == {'NODE'} and res['many'] == {'LAST'}
        ctx.check('R7.span-walk', site(f), ok, key(f, 'last-of-walk'),
                  f'{fname} does not return the last element of the {gen} walk (the node itself when the walk is empty): '
                  f'empty walk -> {sorted(res["empty"])}, walk of several elements -> {sorted(res["many"])}')
    ctx.need('R7.span-walk', 9)


def ru_units(ctx):
    """Ru: lengths configured with a unit entry (Span max_length, fibre length + length_units) are only used through
    convert_length(value, the same record's length_units)"""
    from .common import units_rule
    repo = ctx.repo
    units_rule(ctx, 'Ru.units', [f for f in repo.module(NW).functions.values()], 'a configuration given in metres would be read as kilometres (fibres never split, or split 1000 times too fine)')
    ctx.need('Ru.units', 1)


def rv_verbose(ctx):
    """Rv: blocks guarded by the `verbose` flag only report (no value read after the block, no object state written, no exit):
    the design does not depend on the logging flag"""
    from .common import verbose_rule
    from ..memo import scope_funcs
    verbose_rule(ctx, 'Rv.verbose-pure', list(ctx.repo.module(NW).functions.values()),
                 'the designed network would depend on the logging flag (auto-design could fail or differ with verbose off)')
    ctx.need('Rv.verbose-pure', 5)


def re_foreach(ctx):
    """Re: loops that act on EVERY item (store on the item / call a function that writes it) are never left early (break / return):
    the items after the exit would silently be skipped; the two search loops of the package are a frozen table"""
    from .common import foreach_rule
    from ..memo import scope_funcs
    foreach_rule(ctx, 'Re.for-each', scope_funcs(ctx.repo, 'C08'), 'elements later in the list stay un-designed (no padding, no split, no amplifier)')
    ctx.need('Re.for-each', 3)


def rn_arg_roles(ctx):
    """Rn: a variable named like a parameter of the callee is handed to that parameter (no exchanged roles such as
    f(to_degree, from_degree) for def f(from_degree, to_degree)); calls to resolved package functions, canonical form"""
    from .common import arg_roles_rule
    from ..memo import scope_funcs
    n = arg_roles_rule(ctx, 'Rn.arg-roles', scope_funcs(ctx.repo, 'C08'), 'elements would be linked or placed in the opposite order')
    ctx.check('Rn.arg-roles', 'argument / parameter name scan', True, 'C08|arg-roles-scan', '', f'{n} argument(s) named like another parameter judged')


def r9_fibre_lists(ctx):
    """R9: the auto-design visits EVERY fibre: the element lists it splits and follows with in-line amplifiers are selected by an
    isinstance test that is true for Fiber and its subclasses (Raman fibres) and for nothing else (truth table over the element
    classes)"""
    from ..typedomain import truth_table
    repo = ctx.repo
    f = repo.func(NW, 'add_missing_elements_in_network')
    el = repo.module('gnpy.core.elements')
    dom = [el.classes[n] for n in ('Fiber', 'RamanFiber', 'Fused', 'Edfa', 'Multiband_amplifier', 'Roadm', 'Transceiver')]
    n = 0
    for callee in ('split_fiber', 'add_inline_amplifier'):
        cs = calls_to(f, {callee})
        lp = enclosing(cs[0], ast.For) if len(cs) == 1 else None
        ok = lp is not None
        det = ''
        if ok:
            # the list that reaches this loop (the closest definition above it, or the loop header itself)
            comp, _ = iter_value(f.node, lp)
            ok = isinstance(comp, ast.ListComp) and len(comp.generators) == 1 and len(comp.generators[0].ifs) == 1 and \
                ast.unparse(comp.generators[0].iter) == f'{f.params[0]}.nodes()' and ast.unparse(comp.elt) == ast.unparse(comp.generators[0].target)
            if ok:
                tt = truth_table(repo, f.module, comp.generators[0].ifs[0], [comp.generators[0].target.id], dom)
                wrong = sorted(k[0] for k, v in tt.items() if v != (k[0] in ('Fiber', 'RamanFiber')))
                ok = not wrong
                det = f'wrong for {wrong}' if wrong else ''
        n += 1
        ctx.check('R9.fibre-lists', f'{site(f, lp) if lp is not None else site(f)} {callee}', ok, key(f, f'fibres|{callee}'),
                  f'{callee} is not applied to every fibre of the network (Raman fibres included) and only to fibres: some spans would '
                  'stay unsplit / without in-line amplifier', det)
    ctx.need('R9.fibre-lists', 2)


def rs_sentinel(ctx):
    """Rz: a field that the design fills with a configured default when it is None (connector losses ...) is None when the input does
    not give it: its loader uses .get('<field>') without another default"""
    from ..presence import sentinel_rule
    sentinel_rule(ctx, 'Rz.sentinel', 'a fibre without the entry would never receive the configured Span default')
    ctx.need('Rz.sentinel', 2)


def r10_defaults_and_kind(ctx):
    """R10: (a) a missing connector loss is filled with the Span default OF THE SAME SIDE (con_in <- input default, con_out <- output
    default); (b) the kind of amplifier inserted (single- or multi-band) is decided on the part of the OMS that the new
    amplifier feeds / is fed by, as frozen per insertion function: booster and in-line amplifier look downstream from the next
    node, the preamp looks upstream from the previous node"""
    repo = ctx.repo
    f = repo.func(NW, 'add_connector_loss')
    n = 0
    for g in [x for x in walk_no_nested(f.node) if isinstance(x, ast.If) and isinstance(x.test, ast.Compare) and isinstance(x.test.ops[0], ast.Is)
              and isinstance(x.test.left, ast.Attribute)]:
        fld = x_fld = g.test.left.attr
        st = [s for s in g.body if isinstance(s, ast.Assign) and ast.unparse(s.targets[0]) == ast.unparse(g.test.left)]
        if not st or not isinstance(st[0].value, ast.Name):
            continue
        n += 1
        v = st[0].value.id
        other = {'con_in': 'con_out', 'con_out': 'con_in'}.get(fld)
        ok = fld in v and not (other and other in v)
        ctx.check('R10.default-side', f'{site(f, g)} {fld}', ok and v in f.params, key(f, f'default|{fld}'),
                  f'a missing {fld} is filled with {v}: not the configured default of that side')
    want = {'add_roadm_booster': ('get_oms_edge_list', 'next'), 'add_inline_amplifier': ('get_oms_edge_list', 'next'),
            'add_roadm_preamp': ('get_oms_edge_list_from_egress', 'prev')}
    for fname, (helper, side) in want.items():
        g = repo.func(NW, fname)
        cs = calls_to(g, {'check_oms_single_type'})
        ok = len(cs) == 1
        if ok:
            src = [resolved(local_defs(g.node), cs[0].args[0])]
            ok = isinstance(src[0], ast.Call) and getattr(src[0].func, 'id', '') == helper and isinstance(src[0].args[0], ast.Name)
            if ok:
                a0 = src[0].args[0].id
                meth = 'successors' if side == 'next' else 'predecessors'
                # the argument is the neighbour read from the graph on that side (loop variable over successors / predecessors, or next(...))
                defs_ = [ast.unparse(s.value) for s in walk_no_nested(g.node) if isinstance(s, ast.Assign) and ast.unparse(s.targets[0]) == a0]
                loops_ = [ast.unparse(l.iter) for l in walk_no_nested(g.node) if isinstance(l, ast.For) and ast.unparse(l.target) == a0]
                listdefs = {ast.unparse(s.targets[0]): ast.unparse(s.value) for s in walk_no_nested(g.node) if isinstance(s, ast.Assign)}
                txt = ' '.join(defs_ + loops_ + [listdefs.get(l_, '') for l_ in loops_])
                ok = meth in txt or ('get_next_node' in txt and side == 'next') or ('get_previous_node' in txt and side == 'prev')
        n += 1
        ctx.check('R10.amplifier-kind', f'{site(g)} {helper}', ok, key(g, 'oms-side'),
                  f'{fname} does not decide the kind of amplifier on {helper}(<the {side} node>): a single-band amplifier could be inserted '
                  'into a multi-band OMS (or the reverse) and the design abort on a mixed OMS')
    ctx.need('R10.default-side', 2)
    ctx.need('R10.amplifier-kind', 3)



def r11_band_cover(ctx):
    """R11: an amplifier model is eligible for a design band when it covers it (model.f_min <= band.f_min and band.f_max <=
    model.f_max, edges included): a band equal to the model's range must not abort the design - rule shared with C10"""
    from .c10 import r2_band_cover as _r
    from .common import proxy
    _r(proxy(ctx, 'R11'))



def r12_si_default(ctx):
    """R12: an equipment library whose only SI entry has another name than `default` is read as if that entry were called
    `default`: the entry is MOVED (stored under 'default' and removed under its own key, under the test that there is no
    'default'), so that the library still holds one spectral definition - a second one would make every ROADM's default design
    multi-band and abort the auto-design"""
    from ..pattern import find
    from .common import holds_at
    repo = ctx.repo
    f = repo.func('gnpy.tools.json_io', '_si_sanity_check')
    E = f.params[0]
    moves = find(f"{E}['SI']['default'] = {E}['SI'][E_k]", f.node)
    ok = False
    det = ''
    if len(moves) == 1:
        st, b = moves[0]
        k = ast.unparse(b['E_k'])
        removed = [n for n in walk_no_nested(f.node) if
                   (isinstance(n, ast.Delete) and any(ast.unparse(t) == f"{E}['SI'][{k}]" for t in n.targets)) or
                   (isinstance(n, ast.Call) and isinstance(n.func, ast.Attribute) and n.func.attr == 'pop' and
                    ast.unparse(n.func.value) == f"{E}['SI']" and n.args and ast.unparse(n.args[0]) == k)]
        guarded = any("'default' not in" in c for c in holds_at(st))
        det = f'removed: {len(removed)}; guarded: {guarded}'
        ok = len(removed) == 1 and guarded and getattr(removed[0], 'lineno', 0) >= st.lineno
    else:
        # moved in one expression: E['SI']['default'] = E['SI'].pop(k)
        mv = find(f"{E}['SI']['default'] = {E}['SI'].pop(E_k)", f.node)
        ok = len(mv) == 1 and any("'default' not in" in c for c in holds_at(mv[0][0]))
        det = f'{len(mv)} pop-moves'
    ctx.check('R12.si-default', site(f), ok, key(f, 'si-move'),
              "the first spectral definition is not MOVED under 'default' when there is none (stored there and removed under its own "
              'name): the library would hold two definitions and the design of every ROADM without design bands turn multi-band', det)
    ctx.need('R12.si-default', 1)


from ..memo import rule_for as _memo_rule

RULES_MEMO = ('Rm.memo', _memo_rule('C08', 'a structural decision taken for another element would be reused'))


from ..presence import rule_for as _presence_rule

RULES_PRESENCE = ('Rp.presence', _presence_rule('C08', 'a legal zero would be read as missing'))

RULES = [('R1.surgery', r1_surgery), ('R2.edge-weight', r2_weights), ('R3.completeness', r3_completeness), ('R4.split', r4_split),
         ('R5.order', r5_order), ('R6.every-oms', r6_every_oms), RULES_MEMO, RULES_PRESENCE, ('R7.span-walk', r7_span_walk), ('Ru.units', ru_units), ('Rv.verbose-pure', rv_verbose), ('Re.for-each', re_foreach), ('Rn.arg-roles', rn_arg_roles), ('R9.fibre-lists', r9_fibre_lists), ('Rz.sentinel', rs_sentinel), ('R10.defaults-and-kind', r10_defaults_and_kind), ('R11.band-cover', r11_band_cover), ('R12.si-default', r12_si_default)]
