"""helpers shared by the rule sets"""
import ast

from ..model import walk_no_nested, AnchorMissing, CannotAnalyse, Func, Cls
from ..poly import Rat, C, mk_atom
from ..vg import Evaluator, vkey


def calls_to(func, names):
    """Call nodes in func whose callee simple name is in names"""
    if isinstance(names, str):
        names = {names}
    out = []
    for n in walk_no_nested(func.node):
        if isinstance(n, ast.Call):
            f = n.func
            nm = f.id if isinstance(f, ast.Name) else (f.attr if isinstance(f, ast.Attribute) else None)
            if nm in names:
                out.append(n)
    return sorted(out, key=lambda c: (c.lineno, c.col_offset))


def stmt_of(func, node):
    """the statement of func's body that contains node"""
    n = node
    while not isinstance(n, ast.stmt):
        n = getattr(n, '_parent', None)
        if n is None:
            return None
    return n


def enclosing(node, kinds):
    n = getattr(node, '_parent', None)
    while n is not None:
        if isinstance(n, kinds):
            return n
        n = getattr(n, '_parent', None)
    return None


def kwarg(call, name, pos=None):
    for k in call.keywords:
        if k.arg == name:
            return k.value
    if pos is not None and pos < len(call.args):
        return call.args[pos]
    return None


def root_name(e):
    while isinstance(e, (ast.Attribute, ast.Subscript, ast.Call)):
        e = e.func if isinstance(e, ast.Call) else e.value
    return e.id if isinstance(e, ast.Name) else None


def attr_stores(func, attr):
    """(stmt, target, value) for every store to <anything>.attr in func"""
    out = []
    for n in walk_no_nested(func.node):
        if isinstance(n, ast.Assign):
            for t in n.targets:
                if isinstance(t, ast.Attribute) and t.attr == attr:
                    out.append((n, t, n.value))
        elif isinstance(n, (ast.AugAssign, ast.AnnAssign)):
            t = n.target
            if isinstance(t, ast.Attribute) and t.attr == attr:
                out.append((n, t, n.value))
    return out


def all_attr_stores(repo, attr):
    out = []
    for f in repo.all_funcs():
        for s, t, v in attr_stores(f, attr):
            out.append((f, s, t, v))
    return out


def is_none(e):
    return isinstance(e, ast.Constant) and e.value is None


def literal_strings(expr):
    return [n.value for n in ast.walk(expr) if isinstance(n, ast.Constant) and isinstance(n.value, str)]


def module_list_literal(repo, module, name):
    m = repo.module(module)
    if name not in m.constants:
        raise AnchorMissing(f'{module}.{name}')
    v = m.constants[name]
    if not isinstance(v, (ast.List, ast.Tuple, ast.Set)):
        raise CannotAnalyse(f'{module}.{name} is not a literal list')
    return [e.value for e in v.elts if isinstance(e, ast.Constant)]


def int_le_form(ev_cond):
    """not used"""
    return ev_cond


def evaluate(repo, func, types=None, **kw):
    return Evaluator(repo, func, types=types or {}, **kw).run_function()


def site(func, node=None):
    return f'{func.loc(node)} {func.qual}'


def key(func, text):
    return f'{func.qual}|{text}'
