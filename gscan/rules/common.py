"""helpers shared by the rule sets"""
import ast
from ..model import clone as _clone

from ..model import walk_no_nested, AnchorMissing, CannotAnalyse, Func, Cls
from ..poly import Rat, C, mk_atom
from ..vg import Evaluator, vkey


def calls_to(func, names):
    """Call nodes in func whose callee simple name is in names"""
    if isinstance(names, str):
        names = {names}
    out = []
    for n in walk_no_nested(func.node):
        if isinstance(n, ast.Call):
            f = n.func
            nm = f.id if isinstance(f, ast.Name) else (f.attr if isinstance(f, ast.Attribute) else None)
            if nm in names:
                out.append(n)
    return sorted(out, key=lambda c: (c.lineno, c.col_offset))


def stmt_of(func, node):
    """the statement of func's body that contains node"""
    n = node
    while not isinstance(n, ast.stmt):
        n = getattr(n, '_parent', None)
        if n is None:
            return None
    return n


def enclosing(node, kinds):
    n = getattr(node, '_parent', None)
    while n is not None:
        if isinstance(n, kinds):
            return n
        n = getattr(n, '_parent', None)
    return None


def kwarg(call, name, pos=None):
    for k in call.keywords:
        if k.arg == name:
            return k.value
    ps = getattr(call, '_callee_params', None)          # canonical front end: keywords of resolved calls became positional
    if ps and name in ps and ps.index(name) < len(call.args):
        return call.args[ps.index(name)]
    if pos is not None and pos < len(call.args):
        return call.args[pos]
    return None


def named_args(call):
    """{parameter name: value} of a call: keywords, plus positionals named through the resolved callee's signature"""
    out = {}
    ps = getattr(call, '_callee_params', None) or []
    for i, a in enumerate(call.args):
        if i < len(ps):
            out[ps[i]] = a
    for k in call.keywords:
        if k.arg:
            out[k.arg] = k.value
    return out


def root_name(e):
    while isinstance(e, (ast.Attribute, ast.Subscript, ast.Call)):
        e = e.func if isinstance(e, ast.Call) else e.value
    return e.id if isinstance(e, ast.Name) else None


def attr_stores(func, attr):
    """(stmt, target, value) for every store to <anything>.attr in func"""
    out = []
    for n in walk_no_nested(func.node):
        if isinstance(n, ast.Assign):
            for t in n.targets:
                if isinstance(t, ast.Attribute) and t.attr == attr:
                    out.append((n, t, n.value))
        elif isinstance(n, (ast.AugAssign, ast.AnnAssign)):
            t = n.target
            if isinstance(t, ast.Attribute) and t.attr == attr:
                out.append((n, t, n.value))
    return out


def all_attr_stores(repo, attr):
    out = []
    for f in repo.all_funcs():
        for s, t, v in attr_stores(f, attr):
            out.append((f, s, t, v))
    return out


def holds_at(stmt):
    """conditions (unparsed, negation normal form) known to hold when control reaches stmt, read off the structure: tests of the
    enclosing `if` arms (negated on the else side), and the negated tests of earlier `if c: <terminator>` guards of the enclosing
    blocks. Independent of whether a guard is written as nesting or as an early exit."""
    from ..canon import NNF, _negate, TERMINATORS
    import copy
    out = []

    def add(t, neg):
        t = _clone(t)
        t = NNF().visit(_negate(t)) if neg else t
        for c in (t.values if isinstance(t, ast.BoolOp) and isinstance(t.op, ast.And) else [t]):
            out.append(ast.unparse(c))
    n = stmt
    while n is not None and not isinstance(n, (ast.FunctionDef, ast.AsyncFunctionDef, ast.Module)):
        par = getattr(n, '_parent', None)
        if par is None:
            break
        for fld in ('body', 'orelse', 'finalbody'):
            blk = getattr(par, fld, None)
            if isinstance(blk, list) and any(x is n for x in blk):
                i = next(k for k, x in enumerate(blk) if x is n)
                for prev in blk[:i]:
                    if isinstance(prev, ast.If) and not prev.orelse and prev.body and isinstance(prev.body[-1], TERMINATORS):
                        add(prev.test, True)
                if isinstance(par, ast.If):
                    add(par.test, fld == 'orelse')
        n = par
    return out


def resolved(defs, e):
    """e itself, or - when e is a local with exactly one definition - the defining expression (temporaries are inlined in the
    canonical model where that is provably behaviour-preserving; elsewhere they remain: a rule reads both forms through this)"""
    seen = 0
    while isinstance(e, ast.Name) and seen < 6:
        dv = defs.get(e.id, [])
        if len(dv) != 1 or not isinstance(dv[0][1], ast.AST):
            break
        e = dv[0][1]
        seen += 1
    return e


def iter_value(fnode, lp):
    """(expression the loop ranges over, statement that produced it): the loop's own iterable, or - when that is a local - the closest
    definition above the loop (both forms occur: a list held in a temporary, or written in the loop header)"""
    from ..model import walk_no_nested
    if not isinstance(lp.iter, ast.Name):
        return lp.iter, lp
    ds = [x for x in walk_no_nested(fnode) if isinstance(x, ast.Assign) and len(x.targets) == 1 and isinstance(x.targets[0], ast.Name) and
          x.targets[0].id == lp.iter.id and x.lineno < lp.lineno]
    if not ds:
        return lp.iter, lp
    d = max(ds, key=lambda x: x.lineno)
    return d.value, d


def through_locals(node, defs, keep=(), fresh_ok=False):
    """a copy of node in which every local with exactly ONE definition by an effect-free expression is replaced by that expression
    (repeatedly): the shape a statement has when its hoisted sub-expressions are written out. The canonical model only inlines a
    temporary where that is provably behaviour-preserving; a rule that asks WHICH value reaches a place uses this reading instead."""
    import copy
    from ..canon import effect_free

    class T(ast.NodeTransformer):
        def __init__(self):
            self.depth = 0

        def visit_Name(self, n):
            if isinstance(n.ctx, ast.Load) and n.id not in keep and self.depth < 6:
                dv = defs.get(n.id, [])
                fresh = (ast.List, ast.Dict, ast.Set, ast.ListComp, ast.DictComp, ast.SetComp, ast.GeneratorExp)   # identity matters
                if len(dv) == 1 and isinstance(dv[0][1], ast.AST) and effect_free(dv[0][1]) and \
                        (fresh_ok or not isinstance(dv[0][1], fresh)) and \
                        (fresh_ok or not (isinstance(dv[0][1], ast.Call) and isinstance(dv[0][1].func, ast.Name) and
                                          dv[0][1].func.id in ('list', 'dict', 'set', 'deepcopy', 'copy', 'zeros', 'ones', 'array'))) and \
                        not any(isinstance(x, ast.Name) and x.id == n.id for x in ast.walk(dv[0][1])):
                    self.depth += 1
                    r = self.visit(_clone(dv[0][1]))
                    self.depth -= 1
                    return r
            return n
    return T().visit(_clone(node))


def prop_atoms(e, out=None):
    """the atoms of a propositional reading of e: everything that is not and / or / not / a conditional expression"""
    out = [] if out is None else out
    if isinstance(e, ast.BoolOp):
        for v in e.values:
            prop_atoms(v, out)
    elif isinstance(e, ast.UnaryOp) and isinstance(e.op, ast.Not):
        prop_atoms(e.operand, out)
    elif isinstance(e, ast.IfExp):
        for v in (e.test, e.body, e.orelse):
            prop_atoms(v, out)
    elif isinstance(e, ast.Compare) and len(e.ops) == 1 and isinstance(e.ops[0], (ast.NotEq, ast.NotIn, ast.IsNot)):
        flip = {ast.NotEq: ast.Eq, ast.NotIn: ast.In, ast.IsNot: ast.Is}[type(e.ops[0])]
        t = ast.unparse(ast.Compare(left=e.left, ops=[flip()], comparators=e.comparators))
        if t not in out:
            out.append(t)
    else:
        t = ast.unparse(e)
        if t not in out:
            out.append(t)
    return out


def prop_value(e, env):
    if isinstance(e, ast.BoolOp):
        vals = [prop_value(v, env) for v in e.values]
        return all(vals) if isinstance(e.op, ast.And) else any(vals)
    if isinstance(e, ast.UnaryOp) and isinstance(e.op, ast.Not):
        return not prop_value(e.operand, env)
    if isinstance(e, ast.IfExp):
        return prop_value(e.body, env) if prop_value(e.test, env) else prop_value(e.orelse, env)
    if isinstance(e, ast.Compare) and len(e.ops) == 1 and isinstance(e.ops[0], (ast.NotEq, ast.NotIn, ast.IsNot)):
        flip = {ast.NotEq: ast.Eq, ast.NotIn: ast.In, ast.IsNot: ast.Is}[type(e.ops[0])]
        return not env[ast.unparse(ast.Compare(left=e.left, ops=[flip()], comparators=e.comparators))]
    return env[ast.unparse(e)]


def prop_equal(a, b, constraint=None, max_atoms=8):
    """a and b (expressions, or source text) have the same truth value under every assignment of their atoms that satisfies
    `constraint` (a predicate on the assignment): decides whether two filters keep the same elements however they are written"""
    import itertools
    a = ast.parse(a, mode='eval').body if isinstance(a, str) else a
    b = ast.parse(b, mode='eval').body if isinstance(b, str) else b
    atoms = prop_atoms(b, prop_atoms(a))
    if len(atoms) > max_atoms:
        return False
    for vals in itertools.product((False, True), repeat=len(atoms)):
        env = dict(zip(atoms, vals))
        if constraint is not None and not constraint(env):
            continue
        if bool(prop_value(a, env)) != bool(prop_value(b, env)):
            return False
    return True


def rename_vars(e, mapping):
    """a copy of expression e with names renamed (comprehension variables to role names)"""
    import copy

    class R(ast.NodeTransformer):
        def visit_Name(self, n):
            return ast.copy_location(ast.Name(id=mapping.get(n.id, n.id), ctx=n.ctx), n)
    return R().visit(_clone(e))


def with_new_helpers(repo, f):
    """f and the functions of its module that f calls (transitively) and that are NOT functions of the reference tree (helpers
    somebody extracted which the canonical model could not inline, e.g. a search loop that returns from inside): a rule that asks
    what f does asks it of these too"""
    from ..inline import known
    kn = known()
    out, todo = [f], [f]
    while todo:
        g = todo.pop()
        for c in ast.walk(g.node):
            if isinstance(c, ast.Call):
                nm = c.func.id if isinstance(c.func, ast.Name) else (c.func.attr if isinstance(c.func, ast.Attribute) else None)
                h = g.module.functions.get(nm) if nm else None
                if h is None and nm and g.cls is not None:
                    h = g.cls.methods.get(nm)
                if h is not None and h not in out and h.qual not in kn:
                    out.append(h)
                    todo.append(h)
    return out


def is_none(e):
    return isinstance(e, ast.Constant) and e.value is None


def literal_strings(expr):
    return [n.value for n in ast.walk(expr) if isinstance(n, ast.Constant) and isinstance(n.value, str)]


def module_list_literal(repo, module, name):
    m = repo.module(module)
    if name not in m.constants:
        raise AnchorMissing(f'{module}.{name}')
    v = m.constants[name]
    if not isinstance(v, (ast.List, ast.Tuple, ast.Set)):
        raise CannotAnalyse(f'{module}.{name} is not a literal list')
    return [e.value for e in v.elts if isinstance(e, ast.Constant)]


def int_le_form(ev_cond):
    """not used"""
    return ev_cond


def evaluate(repo, func, types=None, **kw):
    return Evaluator(repo, func, types=types or {}, **kw).run_function()


def site(func, node=None):
    return f'{func.loc(node)} {func.qual}'


def key(func, text):
    return f'{func.qual}|{text}'


UNIT_FIELDS = {'max_length': 'length_units', 'length': 'length_units'}


def units_rule(ctx, rule, funcs, why):
    """a quantity that is configured together with a unit entry (length / max_length with length_units) is only ever used
    through convert_length(value, <the same record's length_units>)"""
    n = 0
    for f in funcs:
        for node in ast.walk(f.node):
            fld = base = None
            if isinstance(node, ast.Attribute) and isinstance(node.ctx, ast.Load) and node.attr in UNIT_FIELDS and node.attr != 'length':
                fld, base = node.attr, ast.unparse(node.value)
            elif isinstance(node, ast.Subscript) and isinstance(node.ctx, ast.Load) and isinstance(node.slice, ast.Constant) and \
                    node.slice.value in UNIT_FIELDS:
                base = ast.unparse(node.value)
                # only records that carry the unit entry as well
                if not any(isinstance(x, ast.Subscript) and isinstance(x.slice, ast.Constant) and x.slice.value == UNIT_FIELDS[node.slice.value]
                           and ast.unparse(x.value) == base for x in ast.walk(f.node)):
                    continue
                fld = node.slice.value
            if fld is None:
                continue
            n += 1
            par = getattr(node, '_parent', None)
            ok = isinstance(par, ast.Call) and isinstance(par.func, ast.Name) and par.func.id == 'convert_length' and len(par.args) == 2 and \
                par.args[0] is node and ast.unparse(par.args[1]) in (f'{base}.{UNIT_FIELDS[fld]}', f"{base}['{UNIT_FIELDS[fld]}']")
            ctx.check(rule, f'{site(f, node)} {fld}', ok, f'{f.qual}|units|{fld}',
                      f'{ast.unparse(node)} is used without convert_length(.., {base} {UNIT_FIELDS[fld]}): {why}',
                      ast.unparse(par)[:120] if par is not None else '')
    return n


# abscissae of numpy.interp that are ascending by a precondition on user data, confirmed by reading (one reason each)
INTERP_PRECONDITIONS = {
    'self.params.raman_coefficient.frequency_offset': 'Raman gain profile: offsets are documented (and shipped) in increasing order',
    'spectral_info.frequency[<selection>]': 'the channels selected for the NLI computation are listed in increasing order (documented)',
}


def ascending_source(f, e, depth=3):
    """why expression e (the xp argument of numpy.interp) is known to be ascending, or None"""
    from ..dataflow import local_defs
    t = ast.unparse(e)
    if isinstance(e, ast.Subscript) and isinstance(e.slice, ast.Name) and ast.unparse(e.value) == 'spectral_info.frequency':
        t = 'spectral_info.frequency[<selection>]'
    if t in INTERP_PRECONDITIONS:
        return 'precondition: ' + INTERP_PRECONDITIONS[t]
    if isinstance(e, ast.Attribute) and e.attr == 'frequency' and isinstance(e.value, ast.Name) and 'spectral_info' in e.value.id:
        return 'SpectralInformation.frequency is sorted at construction (C01 R2)'
    if isinstance(e, ast.Subscript) and isinstance(e.slice, ast.Constant) and e.slice.value == 'up_to_boundary':
        return 'penalty boundaries are sorted at load (C13 R6)'
    if isinstance(e, ast.Call) and isinstance(e.func, ast.Name) and e.func.id in ('arrange_frequencies', 'arange', 'linspace', 'sorted', 'sort'):
        return f'{e.func.id}(..) is ascending by construction'
    if isinstance(e, ast.Name) and depth > 0:
        ds = [v for _, v in local_defs(f.node).get(e.id, []) if isinstance(v, ast.AST)]
        why = [ascending_source(f, v, depth - 1) for v in ds]
        if ds and all(why):
            return why[0]
    return None


def interp_rule(ctx, rule, funcs, why):
    """numpy.interp silently returns garbage on a non-increasing abscissa: every call site's xp is ascending by construction
    (sorted spectrum, arrange_frequencies, tables sorted at load) or by a recorded precondition on user data"""
    n = 0
    for f in funcs:
        for c in calls_to(f, {'interp'}):
            if len(c.args) < 3:
                continue
            n += 1
            src = ascending_source(f, c.args[1])
            ctx.check(rule, f'{site(f, c)} abscissa {ast.unparse(c.args[1])[:50]}', src is not None, f'{f.qual}|interp|{ast.unparse(c.args[1])[:60]}',
                      f'numpy.interp over an abscissa that is not known to be ascending ({ast.unparse(c.args[1])[:60]}): {why}',
                      src or ast.unparse(c)[:120])
    return n


def verbose_rule(ctx, rule, funcs, why):
    """a block guarded by the `verbose` flag only reports: it stores nothing that is read outside the block, writes no
    attribute or item, and does not leave the function (design results must not depend on the logging flag)"""
    n = 0
    for f in funcs:
        if 'verbose' not in f.params and 'verbose' not in f.kwonly:
            continue
        for g in [x for x in walk_no_nested(f.node) if isinstance(x, ast.If)]:
            conj = g.test.values if isinstance(g.test, ast.BoolOp) and isinstance(g.test.op, ast.And) else [g.test]
            if not any(isinstance(c, ast.Name) and c.id == 'verbose' for c in conj):
                continue
            n += 1
            inside = {id(x) for st in g.body for x in ast.walk(st)}
            stored = {x.id for st in g.body for x in ast.walk(st) if isinstance(x, ast.Name) and isinstance(x.ctx, ast.Store)}
            leaks = sorted(nm for nm in stored if any(isinstance(x, ast.Name) and x.id == nm and isinstance(x.ctx, ast.Load) and id(x) not in inside
                                                      and x.lineno > g.lineno for x in ast.walk(f.node)))
            writes = [x for st in g.body for x in ast.walk(st) if isinstance(x, (ast.Attribute, ast.Subscript)) and isinstance(x.ctx, ast.Store)]
            exits = [x for st in g.body for x in ast.walk(st) if isinstance(x, (ast.Return, ast.Raise, ast.Break, ast.Continue))]
            other = [x for x in g.orelse]
            bad = bool(leaks or writes or exits)
            ctx.check(rule, f'{site(f, g)} if {ast.unparse(g.test)[:50]}', not bad, f'{f.qual}|verbose|{ast.unparse(g.test)[:40]}',
                      f'a block that runs only when verbose is set ' + (f'assigns {leaks}, read after the block' if leaks else
                                                                        'writes object state' if writes else 'leaves the function or loop') +
                      f': {why}', ast.unparse(g)[:200].replace('\n', ' | '))
    return n


# for-each loops with an effect on every item that may legitimately stop early (confirmed by reading)
FOREACH_EXITS = {
    ('gnpy.topology.request.requests_aggregation', None): 'one request is merged into at most one other; the scan restarts for the next request',
}


def foreach_effect(repo, f, lp):
    """what the loop does to each item: an attribute / item store on the loop variable, or a call that (by its effect summary)
    writes the object it is given; None if the loop has no per-item effect"""
    from ..effects import all_effects
    eff = all_effects(repo)
    lv = {x.id for x in ast.walk(lp.target) if isinstance(x, ast.Name)}
    from ..pattern import mstmt
    for n in ast.walk(lp):
        if isinstance(n, (ast.Attribute, ast.Subscript)) and isinstance(n.ctx, ast.Store):
            st = getattr(n, '_parent', None)
            if isinstance(st, ast.Assign) and mstmt('E_x[E_k] = E_x.get(E_k, E_d)', st) is not None:
                continue        # filling in the default a later .get(k, default) would give anyway: no effect on behaviour
            r = n
            while isinstance(r, (ast.Attribute, ast.Subscript)):
                r = r.value
            if isinstance(r, ast.Name) and r.id in lv:
                return f'stores {ast.unparse(n)[:40]}'
        if isinstance(n, ast.Call):
            callee = repo.resolve_call(f, n)
            if isinstance(callee, Func) and callee.qual in eff:
                off = 1 if (callee.cls is not None and isinstance(n.func, ast.Attribute) and callee.kind == 'method') else 0
                for i, a in enumerate(n.args):
                    if isinstance(a, ast.Name) and a.id in lv and eff[callee.qual].param_writes.get(i + off):
                        return f'{callee.name}({a.id}) writes the item'
    return None


def foreach_rule(ctx, rule, funcs, why):
    """a loop that does something to EVERY item of a collection (stores on the item, or calls a function that writes it) is not
    left early: a break / return inside it skips the remaining items"""
    repo = ctx.repo
    n = 0
    for f in funcs:
        for lp in [x for x in walk_no_nested(f.node) if isinstance(x, ast.For)]:
            what = foreach_effect(repo, f, lp)
            if not what:
                continue
            n += 1
            exits = []
            for x in walk_no_nested(lp):
                if isinstance(x, ast.Return):
                    exits.append(x)
                elif isinstance(x, ast.Break):
                    p = x._parent
                    while not isinstance(p, (ast.For, ast.While)):
                        p = p._parent
                    if p is lp:
                        exits.append(x)
            allowed = any(q == f.qual and (nm is None or nm in ast.unparse(lp.iter)) for (q, nm) in FOREACH_EXITS)
            ctx.check(rule, f'{site(f, lp)} for {ast.unparse(lp.target)[:20]} in {ast.unparse(lp.iter)[:30]}', not exits or allowed,
                      f'{f.qual}|foreach|{ast.unparse(lp.iter)[:40]}',
                      f'the loop {what} for each item but can be left early ({", ".join(type(x).__name__.lower() + " at line " + str(x.lineno) for x in exits)}): '
                      f'the remaining items are skipped: {why}')
    return n


def compare_pairs_rule(ctx, rule, why):
    """compare_reqs decides that two requests are the same request: every comparison in it compares the SAME attribute of its
    two request parameters (req1.x == req2.x, possibly under the same wrapper on both sides)"""
    repo = ctx.repo
    f = repo.func('gnpy.topology.request', 'compare_reqs')
    a, b = f.params[0], f.params[1]
    n = 0

    def attr_of(e):
        """(request parameter, attribute path) behind an operand: req.x, set(req.x), req.x[..]"""
        while isinstance(e, ast.Call) and len(e.args) == 1 and not e.keywords:
            e = e.args[0]
        parts = []
        while isinstance(e, (ast.Attribute, ast.Subscript)):
            if isinstance(e, ast.Attribute):
                parts.append(e.attr)
            e = e.value
        if isinstance(e, ast.Name) and e.id in (a, b) and parts:
            return e.id, '.'.join(reversed(parts))
        return None
    for c in [x for x in ast.walk(f.node) if isinstance(x, ast.Compare) and len(x.ops) == 1 and isinstance(x.ops[0], (ast.Eq, ast.NotEq))]:
        le, ri = attr_of(c.left), attr_of(c.comparators[0])
        if le is None and ri is None:
            continue
        n += 1
        ok = le is not None and ri is not None and {le[0], ri[0]} == {a, b} and le[1] == ri[1]
        ctx.check(rule, f'{site(f, c)} {ast.unparse(c)[:50]}', ok, f'{f.qual}|pair|{ast.unparse(c)[:60]}',
                  f'compare_reqs compares {ast.unparse(c.left)[:40]} with {ast.unparse(c.comparators[0])[:40]}: not the same attribute of the '
                  f'two requests: {why}')
    return n


def first_reason_rule(ctx, rule, why):
    """in compute_path_with_disjunction a blocking reason that is already set (by an earlier store or by a callee that writes
    blocking_reason on the request, per its effect summary) is never overwritten: a later store is guarded by
    `not hasattr(<request>, 'blocking_reason')`"""
    from ..cfg import CFG
    from ..effects import all_effects
    repo = ctx.repo
    f = repo.func('gnpy.topology.request', 'compute_path_with_disjunction')
    eff = all_effects(repo)
    g = CFG(f.node)
    stores = [(st, t) for st, t, v in attr_stores(f, 'blocking_reason')]
    setters = []            # (cfg node, description)
    for st, t in stores:
        setters.append((g.node_of(st), f'store at line {st.lineno}', st))
    for c in [x for x in walk_no_nested(f.node) if isinstance(x, ast.Call)]:
        callee = repo.resolve_call(f, c)
        if isinstance(callee, Func) and callee.qual in eff:
            for i, a in enumerate(c.args):
                w = eff[callee.qual].param_writes.get(i) or set()
                if 'blocking_reason' in w:
                    st = stmt_of(f, c)
                    setters.append((g.node_of(st), f'{callee.name}(..) at line {c.lineno}', st))
    n = 0
    for st, t in stores:
        node = g.node_of(st)
        obj = ast.unparse(t.value)
        # setters that can run before this store IN THE SAME ITERATION of the per-request loop (paths through a loop head that
        # encloses both are not followed: the next iteration handles another request)
        earlier = []
        for nd, d, s2 in setters:
            if nd is None or s2 is st:
                continue
            heads = set()
            cur_ = getattr(st, '_parent', None)
            while cur_ is not None:
                if isinstance(cur_, (ast.For, ast.While)) and any(s2 is x for x in ast.walk(cur_)):
                    h_ = g.node_of(cur_)
                    if h_ is not None:
                        heads.add(h_.id)
                cur_ = getattr(cur_, '_parent', None)
            if node.id in g.reachable_from(nd.id, avoid=lambda m: m.id in heads):
                earlier.append(d)
        guard = None
        cur = getattr(st, '_parent', None)
        while cur is not None and cur is not f.node:
            if isinstance(cur, ast.If):
                t_ = ast.unparse(cur.test).replace(' ', '')
                in_body = any(st is x for s_ in cur.body for x in ast.walk(s_))
                if (t_ == f"nothasattr({obj},'blocking_reason')" and in_body) or (t_ == f"hasattr({obj},'blocking_reason')" and not in_body):
                    guard = cur
            cur = getattr(cur, '_parent', None)
        n += 1
        ctx.check(rule, f'{site(f, st)} {ast.unparse(st)[:50]}', not earlier or guard is not None, f'{f.qual}|first-reason|{ast.unparse(st.value)[:30]}',
                  f'{ast.unparse(st)[:60]} can overwrite a blocking reason set before ({"; ".join(earlier[:3])}) without testing that none is set: {why}')
    return n


LIST_MUTATORS = {'append', 'extend', 'insert', 'remove', 'pop', 'sort', 'reverse', 'clear', 'update', 'add', 'setdefault'}


def alias_mutation_rule(ctx, rule, funcs, why):
    """a local that is (on some path) just another name for a list / dict held by another object - bound from an attribute or
    an item, never copied (freshness lattice of dataflow.py) - is not mutated in place: the owner would change with it"""
    from ..dataflow import Freshness, SHARED, local_defs
    repo = ctx.repo
    n = 0
    for f in funcs:
        fr = Freshness(repo, f)
        try:
            fr.block(f.node.body, {p: SHARED for p in f.params})
        except Exception:
            continue
        defs = local_defs(f.node)
        bad = []
        for c in [x for x in walk_no_nested(f.node) if isinstance(x, ast.Call) and isinstance(x.func, ast.Attribute) and
                  x.func.attr in LIST_MUTATORS and isinstance(x.func.value, ast.Name)]:
            nm = c.func.value.id
            if nm in f.params or nm == 'self':
                continue
            env = fr.at_call.get(id(c))
            if env is None or env.get(nm, SHARED) != SHARED:
                continue
            src = [v for _, v in defs.get(nm, []) if isinstance(v, (ast.Attribute, ast.Subscript))]
            if src:
                bad.append((c, src[0]))
        n += 1
        ctx.check(rule, site(f, bad[0][0]) if bad else site(f), not bad, f'{f.qual}|alias-mutation|{ast.unparse(bad[0][0])[:40] if bad else ""}',
                  (f'{ast.unparse(bad[0][0])[:60]} mutates in place what is still {ast.unparse(bad[0][1])[:40]} of another object '
                   f'(no copy on that path): {why}') if bad else '')
    return n


def proxy(ctx, prefix, needs=False):
    """a view of ctx that files every obligation of a shared rule under `prefix.<suffix of the original rule name>`"""
    class Proxy:
        def __getattr__(self, n):
            return getattr(ctx, n)

        @staticmethod
        def _nm(rule):
            return prefix + '.' + (rule.split('.', 1)[1] if '.' in rule else rule)

        def check(self, rule, *a, **k):
            return ctx.check(self._nm(rule), *a, **k)

        def ok(self, rule, *a, **k):
            return ctx.ok(self._nm(rule), *a, **k)

        def bad(self, rule, *a, **k):
            return ctx.bad(self._nm(rule), *a, **k)

        def cannot(self, rule, *a, **k):
            return ctx.cannot(self._nm(rule), *a, **k)

        def need(self, rule, *a, **k):
            return ctx.need(self._nm(rule), *a, **k) if needs else None
    return Proxy()


def mode_copy_rule(ctx, rule, why):
    """when the planner selects a mode itself, everything the request later needs from the mode is copied onto the request, the same
    way wherever that happens: all copy blocks `req.<field> = mode['<key>']` in compute_path_with_disjunction assign the same
    (field, key) pairs, and they include the equalisation offset, the penalties, the baud rate, the OSNR threshold and the tx OSNR"""
    repo = ctx.repo
    f = repo.func('gnpy.topology.request', 'compute_path_with_disjunction')
    blocks = {}
    for n in ast.walk(f.node):
        for fld in ('body', 'orelse'):
            blk = getattr(n, fld, None)
            if not isinstance(blk, list):
                continue
            pairs = []
            for st in blk:
                if isinstance(st, ast.Assign) and isinstance(st.targets[0], ast.Attribute) and isinstance(st.value, ast.Subscript) and \
                        isinstance(st.value.slice, ast.Constant) and isinstance(st.value.value, ast.Name) and isinstance(st.targets[0].value, ast.Name):
                    pairs.append((st.targets[0].attr, st.value.slice.value, st.value.value.id, st))
            if len(pairs) >= 3 and len({p_[2] for p_ in pairs}) == 1:
                blocks[id(blk)] = pairs
        if isinstance(n, ast.Try):
            for h in n.handlers:
                pairs = []
                for st in h.body:
                    if isinstance(st, ast.Assign) and isinstance(st.targets[0], ast.Attribute) and isinstance(st.value, ast.Subscript) and \
                            isinstance(st.value.slice, ast.Constant) and isinstance(st.value.value, ast.Name):
                        pairs.append((st.targets[0].attr, st.value.slice.value, st.value.value.id, st))
                if len(pairs) >= 3 and len({p_[2] for p_ in pairs}) == 1:
                    blocks[id(h.body)] = pairs
    sets = [frozenset((a, k) for a, k, _, _ in pr) for pr in blocks.values()]
    s_ = site(f)
    # (two blocks on the reference tree: the request already blocked for its mode, and - through the AttributeError handler - the
    # request not blocked at all; one block under the disjunction of the two conditions is the same thing)
    # both situations are covered: where the copies happen, taken together, mentions the NOMODE reasons and the absence of any
    # reason (the AttributeError handler, or a hasattr test)
    from ..dataflow import local_defs as _ld
    fdefs = _ld(f.node)
    where = []
    for pr in blocks.values():
        st0 = pr[0][3]
        for c in holds_at(st0):
            try:
                where.append(ast.unparse(through_locals(ast.parse(c, mode='eval').body, fdefs)))
            except SyntaxError:
                where.append(c)
        p_ = getattr(st0, '_parent', None)
        while p_ is not None and not isinstance(p_, (ast.FunctionDef, ast.ExceptHandler)):
            p_ = getattr(p_, '_parent', None)
        if isinstance(p_, ast.ExceptHandler) and p_.type is not None and 'AttributeError' in ast.unparse(p_.type):
            where.append('except AttributeError')
    covered = any('BLOCKING_NOMODE' in w for w in where) and any('AttributeError' in w or 'hasattr' in w for w in where)
    ctx.check(rule, f'{s_} {len(sets)} copy blocks agree', len(sets) >= 1 and len(set(sets)) == 1 and covered, key(f, 'mode-copy-agree'),
              f'the blocks that copy the selected mode onto the request do not assign the same fields: {why}',
              ' | '.join(str(sorted(x ^ sets[0])) for x in sets[1:]) if sets else '')
    need = {('offset_db', 'equalization_offset_db'), ('penalties', 'penalties'), ('baud_rate', 'baud_rate'), ('OSNR', 'OSNR'),
            ('tx_osnr', 'tx_osnr'), ('bit_rate', 'bit_rate'), ('tsp_mode', 'format')}
    for i, st_ in enumerate(sets):
        ctx.check(rule, f'{s_} copy block {i + 1} complete', need <= st_, key(f, f'mode-copy-complete|{i}'),
                  f'a block that copies the selected mode onto the request misses {sorted(need - st_)}: {why}')
    return len(sets)


def arg_roles_rule(ctx, rule, funcs, why):
    """a variable that carries the name of one of the callee's parameters is handed to THAT parameter: `f(to_degree, from_degree)`
    for `def f(from_degree, to_degree)` is reported (arguments of resolved package calls; canonical positional form)"""
    n = 0
    for f in funcs:
        for c in ast.walk(f.node):
            if not isinstance(c, ast.Call):
                continue
            ps = getattr(c, '_callee_params', None)
            if not ps:
                continue
            names = [a.id if isinstance(a, ast.Name) else None for a in c.args]
            kw = {k.arg: (k.value.id if isinstance(k.value, ast.Name) else None) for k in c.keywords if k.arg}
            got = {ps[i]: nm for i, nm in enumerate(names) if i < len(ps)}
            got.update(kw)
            for p_, a in got.items():
                if a is None or a == p_ or a not in ps:
                    continue
                n += 1
                # `a` is the name of another parameter: fine only if that parameter receives the same variable too
                ctx.check(rule, f'{site(f, c)} {ast.unparse(c.func)[:40]}', got.get(a) == a, f'{f.qual}|arg-role|{ast.unparse(c.func)[:30]}|{p_}|{a}',
                          f'{ast.unparse(c)[:90]}: the variable {a} is handed to parameter {p_}, while parameter {a} receives '
                          f'{got.get(a)}: the two roles are exchanged: {why}')
            # one record for one call: when two or more arguments are the fields of ONE record named like the parameters they feed
            # (band['f_min'], band['f_max']), a further parameter fed by the same-named field of ANOTHER plain record, although the
            # first record carries that field too, mixes two records (the channel count of a band computed on another grid)
            def field_of(e):
                if isinstance(e, ast.Subscript) and isinstance(e.value, ast.Name) and isinstance(e.slice, ast.Constant) and isinstance(e.slice.value, str):
                    return e.value.id, e.slice.value
                if isinstance(e, ast.Attribute) and isinstance(e.value, ast.Name):
                    return e.value.id, e.attr
                return None
            fed = {}
            for i, a_ in enumerate(c.args):
                if i < len(ps):
                    fed[ps[i]] = a_
            for k in c.keywords:
                if k.arg:
                    fed[k.arg] = k.value
            own = {}
            for p_, a_ in fed.items():
                fo = field_of(a_)
                if fo and fo[1] == p_:
                    own.setdefault(fo[0], []).append(p_)
            for rec, plist in own.items():
                if len(plist) < 2:
                    continue
                for q, a_ in fed.items():
                    fo = field_of(a_)
                    if not fo or fo[0] == rec or fo[1] != q or q in plist:
                        continue
                    if _record_has(ctx.repo, rec, q):
                        n += 1
                        ctx.bad(rule, f'{site(f, c)} {ast.unparse(c.func)[:40]}', f'{f.qual}|arg-record|{ast.unparse(c.func)[:30]}|{q}',
                                f'{ast.unparse(c)[:100]}: {", ".join(plist)} come from `{rec}` but {q} from `{fo[0]}`, although `{rec}` '
                                f'carries its own {q}: two records are mixed in one computation: {why}')
    return n


_REC = {}


def _record_has(repo, rec, fld):
    """somewhere in the package a variable of that name is read or written under that key / attribute"""
    if not _REC or _REC.get('repo') is not repo:
        _REC.clear()
        _REC['repo'] = repo
        acc = set()
        for fn_ in repo.all_funcs():
            for x in ast.walk(fn_.node):
                if isinstance(x, ast.Subscript) and isinstance(x.value, ast.Name) and isinstance(x.slice, ast.Constant) and isinstance(x.slice.value, str):
                    acc.add((x.value.id, x.slice.value))
                elif isinstance(x, ast.Attribute) and isinstance(x.value, ast.Name):
                    acc.add((x.value.id, x.attr))
        _REC['acc'] = acc
    # the call site itself does not count: ask for another site
    return (rec, fld) in _REC['acc']


def dual_stage_rule(ctx, rule, why):
    """the composite parameters of a dual-stage amplifier are those of the cascade: the output power limit is the BOOSTER's (the
    output stage), the flat-max gain is the sum of both stages, each stage's parameters are copied under its own prefix"""
    from ..pattern import find, bound_by
    repo = ctx.repo
    f = repo.func('gnpy.tools.json_io', '_update_dual_stage')
    pre = [nm for nm, _, _ in bound_by(f.node, 'V_d[V_e.dual_stage_model.preamp_variety]')]
    boo = [nm for nm, _, _ in bound_by(f.node, 'V_d[V_e.dual_stage_model.booster_variety]')]
    s_ = site(f)
    ok = len(pre) == 1 and len(boo) == 1
    ctx.check(rule, f'{s_} stages', ok, key(f, 'stages'), 'the two stages are not looked up as the preamp_variety / booster_variety of the dual-stage model')
    if not ok:
        return
    pr, bo = pre[0], boo[0]
    pm = find(f'V_e.p_max = {bo}.p_max', f.node)
    ctx.check(rule, f'{s_} p_max', len(pm) == 1 and not find(f'V_e.p_max = {pr}.p_max', f.node), key(f, 'p_max'),
              f'the output power limit of a dual-stage amplifier is not the one of its booster (output stage): {why}')
    gf = find(f'V_e.gain_flatmax = {bo}.gain_flatmax + {pr}.gain_flatmax', f.node) + find(f'V_e.gain_flatmax = {pr}.gain_flatmax + {bo}.gain_flatmax', f.node)
    ctx.check(rule, f'{s_} gain_flatmax', len(gf) == 1, key(f, 'gain_flatmax'), f'the flat-max gain of a dual-stage amplifier is not the sum of both stages: {why}')
    for stage, pfx in ((pr, 'preamp_'), (bo, 'booster_')):
        lp = [n for n in walk_no_nested(f.node) if isinstance(n, ast.For) and ast.unparse(n.iter) == f'{stage}.__dict__.items()']
        okc = len(lp) == 1 and f"'{pfx}' +" in ast.unparse(lp[0]) and 'setattr(' in ast.unparse(lp[0])
        ctx.check(rule, f'{s_} {pfx}* copied', okc, key(f, f'copy|{pfx}'),
                  f'the parameters of the {pfx[:-1]} stage are not copied onto the dual-stage amplifier under the prefix {pfx}: {why}')
    gm = [n for n in walk_no_nested(f.node) if isinstance(n, ast.If) and any(isinstance(x, ast.Raise) for x in ast.walk(n)) and
          ast.unparse(n.test).replace(' ', '') in (f'V.gain_min<{pr}.gain_min'.replace('V', ast.unparse(n.test).split('.')[0]),)]
    ctx.check(rule, f'{s_} gain_min check', len(gm) == 1, key(f, 'gain_min'), 'a dual-stage amplifier whose minimal gain is below its preamp minimal gain is no longer rejected')


def ref_pair_rule(ctx, rule, why):
    """FiberParams keeps ONE reference point: whatever the input gives (reference wavelength, reference frequency, neither), the
    stored reference frequency and reference wavelength satisfy f_ref * lambda_ref = c (value graph, every combination of the
    input tests); gamma, beta2, beta3 and the effective area are all scaled from that point"""
    import itertools
    from ..poly import gamma_conds, restrict
    repo = ctx.repo
    F = repo.cls('FiberParams', 'gnpy.core.parameters')
    f = repo.method(F, '__init__')
    ev = Evaluator(repo, f, types={'self': F}).run_function()
    a, b = ev.exit_field('self._ref_frequency'), ev.exit_field('self._ref_wavelength')
    if not (isinstance(a, Rat) and isinstance(b, Rat)):
        raise CannotAnalyse('FiberParams: reference frequency / wavelength fields')
    conds = sorted(gamma_conds(a) | gamma_conds(b))
    if len(conds) > 4:
        raise CannotAnalyse(f'FiberParams reference point depends on {len(conds)} tests')
    n = 0
    for combo in itertools.product((True, False), repeat=len(conds)):
        env = dict(zip(conds, combo))
        pa, pb = restrict(a, env), restrict(b, env)
        n += 1
        lab = ', '.join(f'{c_[:40]}={v}' for c_, v in env.items())
        ctx.check(rule, f'{site(f)} [{lab}]', (pa * pb).eq(Rat.sym('c')), key(f, f'ref-pair|{lab}'),
                  f'the stored reference frequency and wavelength are not the same point (f x lambda != c) when {lab}: {why}',
                  f'f_ref = {vkey(pa)[:80]} ; lambda_ref = {vkey(pb)[:80]}')
    return n


REQUEST_KEY_RENAMES = {'bidir': 'bidirectional', 'request_id': 'request-id'}


def request_keys_rule(ctx, rule, why):
    """requests_from_json builds a request from the JSON entry of the same name: every `'<field>': req[..]['<key>']` entry of the
    parameter dict reads the key named like the field (two documented renames)"""
    repo = ctx.repo
    f = repo.func('gnpy.tools.json_io', 'requests_from_json')
    n = 0
    for d in [x for x in ast.walk(f.node) if isinstance(x, ast.Dict)]:
        keys = [k.value for k in d.keys if isinstance(k, ast.Constant)]
        if not {'source', 'destination'} <= set(keys):
            continue
        for k, v in zip(d.keys, d.values):
            if not isinstance(k, ast.Constant):
                continue
            vv = v
            if isinstance(vv, ast.JoinedStr) and len(vv.values) == 1 and isinstance(vv.values[0], ast.FormattedValue):
                vv = vv.values[0].value
            if isinstance(vv, ast.Subscript) and isinstance(vv.slice, ast.Constant) and isinstance(vv.slice.value, str):
                n += 1
                want = REQUEST_KEY_RENAMES.get(k.value, k.value)
                ctx.check(rule, f'{site(f, v)} {k.value}', vv.slice.value in (want, want.replace('_', '-')), key(f, f'request-key|{k.value}'),
                          f"the request field '{k.value}' is read from the JSON key '{vv.slice.value}': {why}", ast.unparse(v)[:80])
    return n


def roadm_path_lookup_rule(ctx, rule, why):
    """every internal ROADM path (from, to) is registered with the impairment profile that was looked up for that same (from, to):
    set_roadm_paths(from_degree=A, to_degree=B, impairment_id=I) where I = get_per_degree_impairment_id(A, B), express, add and
    drop paths alike"""
    repo = ctx.repo
    f = repo.func('gnpy.core.network', 'set_roadm_internal_paths')
    n = 0
    for c in calls_to(f, {'set_roadm_paths'}):
        a = named_args(c)
        fr, to, imp = a.get('from_degree'), a.get('to_degree'), a.get('impairment_id')
        ok = all(isinstance(x, ast.Name) for x in (fr, to)) and imp is not None
        if ok:
            # the look-up: written as the argument itself, or the closest definition of that local above the call, in the same block
            look = imp
            if isinstance(imp, ast.Name):
                blk = getattr(stmt_of(f, c), '_parent', None)
                body = [x for fld in ('body', 'orelse') for x in (getattr(blk, fld, []) or [])]
                ds = [x for x in body if isinstance(x, ast.Assign) and ast.unparse(x.targets[0]) == imp.id and x.lineno < c.lineno]
                look = ds[-1].value if ds else None
            ok = isinstance(look, ast.Call) and getattr(look.func, 'attr', '') == 'get_per_degree_impairment_id'
            if ok:
                la = named_args(look)
                lf, lt = la.get('from_degree'), la.get('to_degree')
                ok = isinstance(lf, ast.Name) and isinstance(lt, ast.Name) and (lf.id, lt.id) == (fr.id, to.id)
        n += 1
        ctx.check(rule, f'{site(f, c)} {ast.unparse(c)[:60]}', ok, key(f, f'path-lookup|{ast.unparse(kwarg(c, "path_type"))[:20]}'),
                  f'a ROADM path is registered for ({ast.unparse(fr) if fr is not None else "?"} -> {ast.unparse(to) if to is not None else "?"}) with the '
                  f'impairment profile looked up for another pair: {why}')
    return n


def neighbour_args_rule(ctx, rule, why):
    """inside the OMS walk of set_egress_amplifier every callee that takes the neighbours of the element being designed
    (parameters prev_node / next_node) receives the walk's own running predecessor and the element's successor - the same two
    variables at every call site (restrictions, pre-selection and design all look at the same neighbours)"""
    repo = ctx.repo
    f = repo.func('gnpy.core.network', 'set_egress_amplifier')
    got = {'prev_node': {}, 'next_node': {}}
    for c in [x for x in ast.walk(f.node) if isinstance(x, ast.Call)]:
        a = named_args(c)
        for role in got:
            if role in (getattr(c, '_callee_params', None) or []) and role in a:
                got[role].setdefault(ast.unparse(a[role]), []).append(c)
    n = 0
    for role, vals in got.items():
        n += 1
        sites_n = sum(len(v) for v in vals.values())
        ok = len(vals) == 1 and sites_n >= 3
        ctx.check(rule, f'{site(f)} {role} at {sites_n} call sites', ok, key(f, f'neighbour|{role}'),
                  f'the callees of the OMS walk do not all receive the same variable for {role}: {sorted(vals)}: {why}')
    # the running predecessor is advanced in the walk, the successor comes from the walk's own pairs
    loops = [lp for lp in walk_no_nested(f.node) if isinstance(lp, ast.For) and isinstance(lp.target, ast.Tuple) and len(lp.target.elts) == 2]
    pv = next(iter(got['prev_node']), None)
    nv = next(iter(got['next_node']), None)
    ok = any(isinstance(lp.target.elts[1], ast.Name) and lp.target.elts[1].id == nv and
             any(isinstance(s, ast.Assign) and ast.unparse(s.targets[0]) == pv and ast.unparse(s.value) == ast.unparse(lp.target.elts[0])
                 for s in lp.body) for lp in loops)
    ctx.check(rule, f'{site(f)} walk variables', ok, key(f, 'neighbour|walk'),
              'the neighbours handed to the design callees are not the running predecessor (advanced to the element at the end of each step) '
              f'and the successor of the (element, successor) pairs of the walk: {why}')
    return n


def roadm_input_rule(ctx, rule, why):
    """the reference power at a ROADM input, per ingress degree: walk upstream over the passive elements summing their losses; where
    the walk ends on another ROADM, the power is that ROADM's target FOR THE DEGREE THE WALK CAME FROM (the last element
    walked, adjacent to the upstream ROADM) - not for the element adjacent to this ROADM; the entry is stored under the
    ingress element of THIS ROADM"""
    repo = ctx.repo
    f = repo.func('gnpy.core.network', 'set_roadm_input_powers')
    whiles = [w for w in walk_no_nested(f.node) if isinstance(w, ast.While)]
    ok = len(whiles) == 1
    s_ = site(f)
    if not ok:
        raise CannotAnalyse('set_roadm_input_powers: upstream walk')
    w = whiles[0]
    adv = [s for s in w.body if isinstance(s, ast.Assign) and isinstance(s.targets[0], ast.Name) and 'predecessors' in ast.unparse(s.value)]
    ok = len(adv) == 1
    walker = adv[0].targets[0].id if ok else None
    trail = [s.targets[0].id for s in w.body if isinstance(s, ast.Assign) and isinstance(s.targets[0], ast.Name) and
             isinstance(s.value, ast.Name) and s.value.id == walker and ok and s.lineno < adv[0].lineno]
    lp = enclosing(w, ast.For)
    ingress = lp.target.id if lp is not None and isinstance(lp.target, ast.Name) else None
    calls = [c for c in ast.walk(f.node) if isinstance(c, ast.Call) and getattr(c.func, 'attr', '') == 'get_per_degree_ref_power']
    okc = ok and len(trail) == 1 and len(calls) == 1
    if okc:
        a = named_args(calls[0]).get('degree') or (calls[0].args[0] if calls[0].args else None)
        okc = a is not None and ast.unparse(a) == f'{trail[0]}.uid' and ast.unparse(calls[0].func.value) == walker
    ctx.check(rule, f'{s_} upstream ROADM degree', okc, key(f, 'upstream-degree'),
              f'the target of an upstream ROADM is not read for the degree the walk came from (<last walked element>.uid): {why}',
              ast.unparse(calls[0])[:100] if calls else '')
    stores = [n for n in ast.walk(lp) if isinstance(n, ast.Subscript) and isinstance(n.ctx, ast.Store) and ast.unparse(n.value).endswith('.ref_pch_in_dbm')] if lp is not None else []
    oks = bool(stores) and all(ast.unparse(x.slice) == f'{ingress}.uid' for x in stores)
    ctx.check(rule, f'{s_} stored per ingress element', oks, key(f, 'ingress-key'),
              f'the reference input power is not stored under the uid of the ingress element of this ROADM: {why}')
    loss = [s for s in w.body if isinstance(s, ast.AugAssign) and isinstance(s.op, ast.Add) and ast.unparse(s.value) == f'{walker}.loss']
    ctx.check(rule, f'{s_} losses of the walk', len(loss) == 1 and loss[0].lineno < adv[0].lineno, key(f, 'walk-loss'),
              f'the loss of every passive element crossed by the walk is not added (before moving on): {why}')
    return 3


def end_trims_rule(ctx, rule, funcs, why):
    """a route list that names its own source first and / or its own destination last is trimmed at BOTH ends independently: the
    two tests are separate statements (not an if / elif chain), source against element 0, destination against element -1, each
    popping its own end (and the hop flag of the same position where flags are kept)"""
    n = 0
    for f in funcs:
        for lp in [x for x in walk_no_nested(f.node) if isinstance(x, ast.For) and isinstance(x.target, ast.Name)]:
            r = lp.target.id
            ends = {}
            for st in lp.body:
                if isinstance(st, ast.If):
                    t = ast.unparse(st.test).replace(' ', '')
                    for role, idx in (('source', '0'), ('destination', '-1')):
                        if t == f'{r}.nodes_listand{r}.{role}=={r}.nodes_list[{idx}]':
                            pops = sorted(ast.unparse(x.value) for x in st.body if isinstance(x, ast.Expr) and isinstance(x.value, ast.Call))
                            ends[role] = (st, idx, pops)
            if not ends:
                continue
            n += 1
            ok = set(ends) == {'source', 'destination'} and all(not s_.orelse for s_, _, _ in ends.values())
            if ok:
                for role, (st, idx, pops) in ends.items():
                    want = {f'{r}.nodes_list.pop({idx})'} | ({f'{r}.loose_list.pop({idx})'} if any('loose_list' in p_ for p_ in pops) else set())
                    ok = ok and set(pops) == want
                has_flags = 'loose_list' in ast.unparse(f.node)
                if has_flags and f.name == 'correct_json_route_list':
                    ok = ok and all(any('loose_list' in p_ for p_ in pops) for _, _, pops in ends.values())
            ctx.check(rule, f'{site(f, lp)} end trims', ok, key(f, 'end-trims'),
                      f'the source-first and destination-last entries of a route list are not trimmed by two independent tests, each popping '
                      f'its own end: {why}')
    return n
