"""C07 - the launched channel set survives the path intact; channel order is irrelevant.

 R1 construction : all 16 per-channel arrays are permuted by one argsort (shared with C01); the two rejections are
                   computed on the SORTED arrays: upper edge of channel i (f + sw/2) > lower edge of channel i+1
                   (f - sw/2) -> SpectrumError; baud_rate > slot_width -> SpectrumError.
 R2 mux / demux  : select_channels and __add__ map every field from the same-named field under one selector (shared
                   with C01); muxed_spectral_information folds `+` over the WHOLE list (head + mux(tail)), one element
                   is returned as is, empty raises; __add__ turns the constructor's SpectrumError into a SpectrumError.
 R3 filter once  : in propagate and propagate_and_optimize_mode the spectrum reaches the first element only through
                   filter_si (once, before the element loop); filter_si demuxes on every band of
                   find_elements_common_range(path, ..) and muxes the pieces; the common range is the pairwise
                   intersection max(f_min) / min(f_max) over ALL amplifier band lists, duplicates removed only when the
                   whole band list is equal.
 R4 multiband    : Multiband_amplifier.__call__: each band amplifier receives demux(input, its own band), its OUTPUT is
                   collected, the result is the mux of everything collected, nothing collected -> ValueError.
 R5 carrier list : carriers_to_spectral_information builds every per-channel list from the same dict in one iteration
                   order, each from its own attribute.
 R6 band test    : is_in_band keeps a channel iff its slot edges f -/+ sw/2 lie within [f_min, f_max] (non strict).
 Rm memo          : every memoisation construct in the functions behind this property is keyed by everything it reads.
 Rp presence      : optional numeric fields are tested with `is None` / membership, never by truthiness (0 is a value).
 Rn arg roles     : a variable named like a parameter of the callee is handed to that parameter (no exchanged roles).
 R7 declared bands: a designed multi-band amplifier declares exactly the bands of the amplifiers it holds (unconditional overwrite).
 R8 partitions     : spectrum-file partitions walked in ascending f_min; overlap test on (f_min - slot_width/2) (exact difference).
"""
import ast

from ..model import AnchorMissing, CannotAnalyse, walk_no_nested
from ..cfg import CFG, fmt_path
from ..poly import Rat, C, mk_atom, REG, fn
from ..vg import Evaluator, vkey, atoms_of, Const
from ..dataflow import names_in, local_defs
from .common import calls_to, site, key, stmt_of, enclosing, kwarg

INFO = 'gnpy.core.info'
RQ = 'gnpy.topology.request'
EXPLANATION = (
    "Structural obligations of the channel-set bookkeeping: one permutation for all per-channel arrays and both "
    "constructor rejections evaluated on the sorted arrays (value graph); field-by-field mapping of demux/mux; the "
    "recursive mux covers the whole list; the pre-propagation filter runs once on every path before the first element "
    "and is built from the pairwise band intersection over all amplifiers of the path with whole-value duplicate "
    "removal; the multiband amplifier dispatch collects each band amplifier's output and muxes all; carrier lists are "
    "built in one iteration order; the in-band test compares slot edges non-strictly. Not decided: disjointness of "
    "the bands of one multiband element (data), exactly-once across arbitrary band layouts."
)
ASSUMPTIONS = ["dict iteration order is stable between .keys() and .values() of the same unmodified dict",
               "numpy element-wise semantics"]
RULE_TEXT = ("sites: the 16 constructor fields, the two rejection conditions, each mux/demux call site and recursion, the "
             "filter call in the two propagation functions, the band intersection loop, the multiband dispatch loop, the 9 "
             "carrier lists, the in-band comparison")


def r1_construction(ctx):
    from .c01 import init_permutation, si_class
    repo = ctx.repo
    init_permutation(ctx, 'R1.permutation')
    owner = si_class(repo)
    init = repo.method(owner, '__init__')
    ev = Evaluator(repo, init).run_function()
    idx = vkey(fn('argsort', Rat.sym('frequency')))
    srt = lambda p: Rat.of(mk_atom('fn', 'sub', (Rat.sym(p), idx)))
    F, SW, B = srt('frequency'), srt('slot_width'), srt('baud_rate')
    sl = lambda x, s: Rat.of(mk_atom('fn', 'sub', (x, s)))
    half = C(1) / C(2)
    want_overlap = ('lt', sl(F, '1:') - sl(SW, '1:') * half, sl(F, ':-1') + sl(SW, ':-1') * half)
    want_baud = ('lt', SW, B)
    seen = {'overlap': False, 'baud': False}
    for pc, node in ev.raises:
        exc = node.exc.func.id if isinstance(node.exc, ast.Call) and isinstance(node.exc.func, ast.Name) else None
        ck = pc[-1][0] if pc else ''
        st = f'{site(init, node)}'
        ctx.check('R1.rejections', f'{st} exception type', exc == 'SpectrumError', key(init, f'exc|{exc}'),
                  f'the constructor rejects with {exc}, the property promises a spectrum error')
        # the condition is truth(any(cond(<comparison>)))
        inner = [k for k in ev.cond_info if k in ck]
        for k in inner:
            op, a, b = ev.cond_info[k]
            if not (isinstance(a, Rat) and isinstance(b, Rat)):
                continue
            if op == want_overlap[0] and a.eq(want_overlap[1]) and b.eq(want_overlap[2]):
                seen['overlap'] = True
            if op == want_baud[0] and a.eq(want_baud[1]) and b.eq(want_baud[2]):
                seen['baud'] = True
    ctx.check('R1.rejections', f'{site(init)} overlapping slots rejected', seen['overlap'], key(init, 'overlap'),
              'overlapping channels are not rejected by comparing, on the frequency-sorted arrays, the upper slot edge of each '
              'channel with the lower slot edge of the next (f + sw/2 > f_next - sw_next/2)',
              f'comparisons found: {[(v[0], vkey(v[1])[:80], vkey(v[2])[:80]) for v in ev.cond_info.values()]}')
    ctx.check('R1.rejections', f'{site(init)} baud rate wider than slot rejected', seen['baud'], key(init, 'baud'),
              'baud_rate > slot_width is not tested channel by channel on arrays sorted by the same permutation',
              f'comparisons found: {[(v[0], vkey(v[1])[:80], vkey(v[2])[:80]) for v in ev.cond_info.values()]}')
    ctx.need('R1.rejections', 4)


def r2_mux(ctx):
    repo = ctx.repo
    # field mapping of the constructor sites: reuse C01-R2 under this property's name
    from . import c01

    class Proxy:
        def __init__(self, c):
            self.c = c

        def __getattr__(self, n):
            return getattr(self.c, n)

        def check(self, rule, *a, **k):
            return self.c.check('R2.' + rule.split('.', 1)[1], *a, **k)

        def ok(self, rule, *a, **k):
            return self.c.ok('R2.' + rule.split('.', 1)[1], *a, **k)

        def bad(self, rule, *a, **k):
            return self.c.bad('R2.' + rule.split('.', 1)[1], *a, **k)

        def need(self, rule, *a, **k):
            return None

        def cannot(self, rule, *a, **k):
            return self.c.cannot('R2.' + rule.split('.', 1)[1], *a, **k)
    c01.r2_base(Proxy(ctx))
    ctx.need('R2.ctor-site', 3)
    r2_fold(ctx)


def r2_fold(ctx, RULE='R2.mux'):
    """mux folds the whole list / demux selects by the in-band test (shared with C01: band split and merge lose nothing)"""
    repo = ctx.repo
    f = repo.func(INFO, 'muxed_spectral_information')
    p = f.params[0]
    rec = [c for c in calls_to(f, {f.name})]
    ok = False
    det = ''
    for c in rec:
        a = c.args[0] if c.args else None
        det = ast.unparse(c)
        tail = isinstance(a, ast.Subscript) and isinstance(a.value, ast.Name) and a.value.id == p and \
            isinstance(a.slice, ast.Slice) and a.slice.upper is None and a.slice.step is None and \
            isinstance(a.slice.lower, ast.Constant) and a.slice.lower.value == 1
        par = getattr(c, '_parent', None)
        head = isinstance(par, ast.BinOp) and isinstance(par.op, ast.Add) and \
            ast.unparse(par.left if par.right is c else par.right) == f'{p}[0]'
        ok = tail and head
    iterative = False
    if not rec:
        # the same fold written as a loop: acc = L[0] (or L[-1]); for x in L[1:] (or L[:-1], possibly reversed): acc = acc + x | x + acc
        from ..pattern import mstmt, mexpr
        for lp in [n for n in walk_no_nested(f.node) if isinstance(n, ast.For)]:
            it = lp.iter.args[0] if isinstance(lp.iter, ast.Call) and getattr(lp.iter.func, 'id', '') == 'reversed' and len(lp.iter.args) == 1 \
                else lp.iter
            rest = 'tail' if mexpr(f'{p}[1:]', it) is not None else ('init' if mexpr(f'{p}[:-1]', it) is not None else None)
            x = lp.target.id if isinstance(lp.target, ast.Name) else None
            if rest is None or x is None or len(lp.body) != 1 or lp.orelse:
                continue
            b = mstmt(f'V_acc = V_acc + {x}', lp.body[0]) or mstmt(f'V_acc = {x} + V_acc', lp.body[0])
            if b is None:
                continue
            first = f'{p}[0]' if rest == 'tail' else f'{p}[-1]'
            inits = [n for n in walk_no_nested(f.node) if isinstance(n, ast.Assign) and n.lineno < lp.lineno and
                     mstmt(f"{b['V_acc']} = {first}", n) is not None]
            rets = [n for n in walk_no_nested(f.node) if isinstance(n, ast.Return)]
            det = ast.unparse(lp)[:120]
            if len(inits) == 1 and len(rets) == 1 and ast.unparse(rets[0].value) == b['V_acc'] and rets[0].lineno > lp.end_lineno:
                ok = iterative = True
                rec = [lp]
    ctx.check(RULE, f'{site(f)} recursion', ok and len(rec) == 1, key(f, 'fold'),
              'the mux does not fold the whole list: it must be list[0] + mux(list[1:]) (every band between the first and the '
              'last would be dropped)', det)
    ev = Evaluator(repo, f, no_inline={f.name}).run_function()
    single = [v for pc, v, _ in ev.outcomes if isinstance(v, Rat) and vkey(v) == f"sub({p},'0')"]
    # (loop form: the accumulator starts as the first / last element and the loop ranges over the others - none for one element)
    ctx.check(RULE, f'{site(f)} single element', len(single) == 1 or iterative, key(f, 'single'), 'a one-element list is not returned as is')
    ctx.check(RULE, f'{site(f)} empty list', any(isinstance(n.exc, ast.Call) and n.exc.func.id == 'ValueError' for pc, n in ev.raises
                                                     if isinstance(n.exc, ast.Call) and isinstance(n.exc.func, ast.Name)),
              key(f, 'empty'), 'an empty list does not raise ValueError')
    add = repo.method(repo.cls('SpectralInformation', INFO), '__add__')
    hs = [h for n in walk_no_nested(add.node) if isinstance(n, ast.Try) for h in n.handlers]
    ok = bool(hs) and all(isinstance(h.type, ast.Name) and h.type.id == 'SpectrumError' and
                          any(isinstance(x, ast.Raise) and 'SpectrumError' in ast.unparse(x) for x in h.body) for h in hs)
    ctx.check(RULE, f'{site(add)} overlap when summing', ok, key(add, 'reraise'),
              'summing overlapping spectra no longer ends in a SpectrumError')
    dm = repo.func(INFO, 'demuxed_spectral_information')
    sc = calls_to(dm, {'select_channels'})
    ib = calls_to(dm, {'is_in_band'})
    ok = len(sc) == 1 and len(ib) == 1 and [ast.unparse(a) for a in ib[0].args] == [f'{dm.params[0]}.frequency', f'{dm.params[0]}.slot_width', dm.params[1]]
    if ok:
        sel = stmt_of(dm, ib[0]).targets[0].id
        ok = [ast.unparse(a) for a in sc[0].args] == [dm.params[0], sel]
    ctx.check(RULE, f'{site(dm)} demux', ok, key(dm, 'demux'),
              'demux does not select, from the input spectrum, the channels that is_in_band(frequency, slot_width, band) keeps')
    if ok:
        # is_in_band over the full arrays is the ONLY membership decision: every exit that hands back a spectrum comes after it
        g = CFG(dm.node)
        sel_node = g.node_of(stmt_of(dm, ib[0]))
        rets = [n for n in walk_no_nested(dm.node) if isinstance(n, ast.Return) and n.value is not None and
                not (isinstance(n.value, ast.Constant) and n.value.value is None)]
        early = [n for n in rets if not g.dominates(sel_node, g.node_of(n))]
        ctx.check(RULE, f'{site(dm)} no shortcut around the in-band test', bool(rets) and not early, key(dm, 'demux-shortcut'),
                  'demux can return a spectrum without having applied is_in_band to every channel (a shortcut decides membership on '
                  'something else, e.g. the first / last carrier only): carriers whose slot crosses the band edge would survive',
                  '; '.join(f'line {n.lineno}: {ast.unparse(n)[:60]}' for n in early))
    ctx.need(RULE, 6)


def r3_filter(ctx):
    repo = ctx.repo
    for fname in ('propagate', 'propagate_and_optimize_mode'):
        f = repo.func(RQ, fname)
        g = CFG(f.node)
        fcalls = calls_to(f, {'filter_si'})
        # element calls: el(si, ...) inside the loop over the path
        elcalls = [c for c in walk_no_nested(f.node) if isinstance(c, ast.Call) and isinstance(c.func, ast.Name) and
                   enclosing(c, ast.For) is not None and isinstance(enclosing(c, ast.For).target, ast.Tuple) and
                   c.func.id in names_in(enclosing(c, ast.For).target)]
        if not elcalls or not fcalls:
            raise AnchorMissing(f'{fname}: element call loop / filter_si call')
        s = site(f)
        ctx.check('R3.filter-once', f'{s} one filter call', len(fcalls) == 1, key(f, 'one-filter'),
                  f'filter_si is called {len(fcalls)} times')
        fn_ = g.node_of(stmt_of(f, fcalls[0]))
        for c in elcalls:
            en = g.node_of(stmt_of(f, c))
            p = g.path_avoiding(g.entry, en, lambda n: n.id == fn_.id, skip_labels=('exc',))
            ctx.check('R3.filter-once', f'{site(f, c)} filtered before the first element', p is None, key(f, 'filter-before'),
                      'an element can be crossed by a spectrum that was not filtered to the common amplifier band of the path',
                      fmt_path(f, p) if p else '')
        # the filtered spectrum is the one propagated, and the filter is outside the element loop
        st = stmt_of(f, fcalls[0])
        tgt = st.targets[0].id if isinstance(st, ast.Assign) and isinstance(st.targets[0], ast.Name) else None
        used = all(isinstance(c.args[0], ast.Name) and c.args[0].id == tgt for c in elcalls)
        eloop = enclosing(elcalls[0], ast.For)
        inside = any(fcalls[0] is x for x in ast.walk(eloop))
        args = [ast.unparse(a) for a in fcalls[0].args]
        # what is filtered: the spectrum variable itself, or the factory call that creates it written in place
        a2 = fcalls[0].args[2] if len(fcalls[0].args) == 3 else None
        src_ok = a2 is not None and (ast.unparse(a2) == tgt or (isinstance(a2, ast.Call) and isinstance(a2.func, ast.Name) and a2.func.id in
                                                                ('create_input_spectral_information', 'carriers_to_spectral_information')))
        ok = used and not inside and len(args) == 3 and args[0] == f.params[0] and args[1] == f.params[2] and src_ok
        ctx.check('R3.filter-once', f'{site(f, fcalls[0])} filter wiring', ok, key(f, 'wiring'),
                  'the spectrum handed to the elements is not filter_si(path, equipment, spectrum) applied once outside the element loop',
                  f'{ast.unparse(st)[:100]}')
        # every non-ROADM element receives and returns the spectrum:  si = el(si)
        for c in elcalls:
            cs = stmt_of(f, c)
            ok = isinstance(cs, ast.Assign) and isinstance(cs.targets[0], ast.Name) and cs.targets[0].id == tgt
            ctx.check('R3.filter-once', f'{site(f, c)} spectrum threaded', ok, key(f, f'thread|{len(c.args)}'),
                      'the spectrum returned by an element is not what the next element receives')
    ctx.need('R3.filter-once', 10)
    r3_common_range(ctx)


def r3_common_range(ctx, RULE='R3.common-range'):
    """the common amplifier range of an element list (shared with C15: usable slots of an OMS)"""
    repo = ctx.repo
    fs = repo.func(RQ, 'filter_si')
    cr = calls_to(fs, {'find_elements_common_range'})
    dm = calls_to(fs, {'demuxed_spectral_information'})
    mx = calls_to(fs, {'muxed_spectral_information'})
    ok = len(cr) == 1 and len(dm) == 1 and len(mx) == 1
    if ok:
        crn = stmt_of(fs, cr[0]).targets[0].id
        lp = enclosing(dm[0], ast.For)
        ok = [ast.unparse(a) for a in cr[0].args] == [fs.params[0], fs.params[1]] and lp is not None and \
            isinstance(lp.iter, ast.Name) and lp.iter.id == crn and \
            [ast.unparse(a) for a in dm[0].args] == [fs.params[2], lp.target.id]
        coll = [c for c in calls_to(fs, {'append'}) if enclosing(c, ast.For) is lp]
        ok = ok and len(coll) == 1 and isinstance(mx[0].args[0], ast.Name) and mx[0].args[0].id == ast.unparse(coll[0].func.value) \
            and isinstance(getattr(mx[0], '_parent', None), ast.Return)
        # no early exit from the band loop
        ok = ok and not any(isinstance(n, (ast.Break, ast.Return)) for n in ast.walk(lp))
    ctx.check(RULE, site(fs), bool(ok), key(fs, 'shape'),
              'filter_si does not demux the spectrum on EVERY band of find_elements_common_range(path, equipment) and mux all '
              'non-empty pieces')
    empty = any(isinstance(n, ast.Raise) for n in walk_no_nested(fs.node))
    ctx.check(RULE, f'{site(fs)} nothing in band', empty, key(fs, 'empty'), 'an empty filter result no longer raises')
    fe = repo.func(RQ, 'find_elements_common_range')
    from ..pattern import find
    hits = find('[V_n.params.bands for V_n in V_l if isinstance(V_n, (Edfa, Multiband_amplifier))]', fe.node) + \
        find('[V_n.params.bands for V_n in V_l if isinstance(V_n, (Multiband_amplifier, Edfa))]', fe.node)
    ok = len(hits) == 1 and hits[0][1]['V_l'] == fe.params[0]
    if ok:
        st = stmt_of(fe, hits[0][0])
        cc = calls_to(fe, {'find_common_range'})
        ok = isinstance(st, ast.Return) or (isinstance(st, ast.Assign) and len(cc) == 1 and cc[0].args and
                                            isinstance(cc[0].args[0], ast.Name) and cc[0].args[0].id == st.targets[0].id)
    ctx.check(RULE, site(fe), ok, key(fe, 'amps'),
              'the common range is not computed from the bands of every Edfa and Multiband_amplifier of the element list')
    # intersection
    U = 'gnpy.core.utils'
    fc = repo.func(U, 'find_common_range')
    ev = Evaluator(repo, fc, no_inline={'filter_valid_amp_bands', 'remove_duplicates', 'calculate_spacing'}).run_function()
    found = False
    pair_loops = []
    for lid, lb in ev.loop_bodies.items():
        post = lb['post']
        if not isinstance(lb['node'], ast.For):
            continue

        def absco(v):
            # max(x, y) = (x + y + |x - y|)/2 ; min = (x + y - |x - y|)/2 : sign of the abs term
            return [c for k, c in v.n.t.items() if any(REG[x].name == 'abs' for x, _ in k)]
        los = [nm for nm, v in post.items() if isinstance(v, Rat) and "'f_min'" in vkey(v) and 'abs(' in vkey(v) and
               "'f_max'" not in vkey(v) and absco(v) and absco(v)[0] > 0]
        his = [nm for nm, v in post.items() if isinstance(v, Rat) and "'f_max'" in vkey(v) and 'abs(' in vkey(v) and
               "'f_min'" not in vkey(v) and absco(v) and absco(v)[0] < 0]
        for lo_n in los:
            for hi_n in his:
                keep = [n for n in walk_no_nested(lb['node']) if isinstance(n, ast.If) and isinstance(n.test, ast.Compare) and
                        ast.unparse(n.test) in (f'{lo_n} < {hi_n}', f'{hi_n} > {lo_n}')]
                if keep:
                    found = True
                    # EVERY pair is intersected: neither this loop nor the loops around it can be left early
                    cur = lb['node']
                    while cur is not None and cur is not fc.node:
                        if isinstance(cur, (ast.For, ast.While)):
                            pair_loops.append(cur)
                        cur = getattr(cur, '_parent', None)
    ctx.check(RULE, f'{site(fc)} pairwise intersection', bool(found), key(fc, 'intersection'),
              'the common range is not the pairwise intersection [max(f_min), min(f_max)] kept when non-empty')
    early = [x for lp_ in pair_loops for x in ast.walk(lp_) if isinstance(x, (ast.Break, ast.Continue, ast.Return))]
    ctx.check(RULE, f'{site(fc)} every pair of bands', bool(pair_loops) and not early, key(fc, 'all-pairs'),
              'the intersection loops can be left early: a band of one amplifier is then intersected with only the first matching band of '
              'the next (a multi-band amplifier after a wide one would lose a whole band, depending on amplifier order)',
              '; '.join(f'line {x.lineno}' for x in early))
    outer = [n for n in walk_no_nested(fc.node) if isinstance(n, ast.For) and isinstance(n.iter, ast.Name)]
    it_all = any(isinstance(stmt_of(fc, c), ast.Assign) and stmt_of(fc, c).targets[0].id == n.iter.id
                 for n in outer for c in calls_to(fc, {'remove_duplicates'}))
    ctx.check(RULE, f'{site(fc)} all amplifiers', it_all, key(fc, 'all-amps'),
              'the intersection does not run over every (de-duplicated) amplifier band list')
    rd = repo.func(U, 'remove_duplicates')
    loops = [n for n in walk_no_nested(rd.node) if isinstance(n, ast.For)]
    ok = False
    det = ''
    if len(loops) == 1 and isinstance(loops[0].target, ast.Name):
        v = loops[0].target.id
        rets = [n.value for n in walk_no_nested(rd.node) if isinstance(n, ast.Return)]
        tests = [n.test for n in walk_no_nested(loops[0]) if isinstance(n, ast.If)]
        det = '; '.join(ast.unparse(t) for t in tests)
        for t in tests:
            if isinstance(t, ast.Compare) and isinstance(t.ops[0], (ast.NotIn, ast.In)) and isinstance(t.left, ast.Name) and t.left.id == v \
                    and isinstance(t.comparators[0], ast.Name) and rets and isinstance(rets[0], ast.Name) and \
                    t.comparators[0].id == rets[0].id:
                ok = True
    ctx.check(RULE, f'{site(rd)} whole-value duplicates', ok, key(rd, 'dedupe'),
              'amplifier band lists are de-duplicated on something other than equality of the whole band list (a partial key '
              'drops an amplifier whose bands differ, and its restriction of the common range with it)', det)
    ctx.need(RULE, 6)


def r4_multiband(ctx):
    repo = ctx.repo
    mb = repo.cls('Multiband_amplifier', 'gnpy.core.elements')
    f = repo.method(mb, '__call__')
    sp = f.params[1]
    loops = [n for n in walk_no_nested(f.node) if isinstance(n, ast.For)]
    if len(loops) != 1:
        raise CannotAnalyse('Multiband_amplifier.__call__: expected one loop over the band amplifiers')
    lp = loops[0]
    amp = [e.id for e in (lp.target.elts if isinstance(lp.target, ast.Tuple) else [lp.target]) if isinstance(e, ast.Name)][-1]
    over = 'self.amplifiers' in ast.unparse(lp.iter)
    dm = [c for c in calls_to(f, {'demuxed_spectral_information'}) if enclosing(c, ast.For) is lp]
    ok = over and len(dm) == 1 and ast.unparse(dm[0].args[0]) == sp and ast.unparse(dm[0].args[1]).startswith(f'{amp}.params.bands')
    ctx.check('R4.multiband', f'{site(f)} own band', bool(ok), key(f, 'own-band'),
              'a band amplifier does not receive the input spectrum demultiplexed on its OWN band',
              ast.unparse(dm[0]) if dm else '')
    if dm:
        piece = stmt_of(f, dm[0]).targets[0].id
        ac = [c for c in walk_no_nested(lp) if isinstance(c, ast.Call) and isinstance(c.func, ast.Name) and c.func.id == amp]
        app = [c for c in calls_to(f, {'append'}) if enclosing(c, ast.For) is lp]
        ok = len(ac) == 1 and ast.unparse(ac[0].args[0]) == piece
        out_name = None
        if ok:
            st = stmt_of(f, ac[0])
            out_name = st.targets[0].id if isinstance(st, ast.Assign) and isinstance(st.targets[0], ast.Name) else None
            # the amplifier's result is appended: through a local, or the call written as the argument
            ok = len(app) == 1 and ((out_name is not None and ast.unparse(app[0].args[0]) == out_name and
                                     stmt_of(f, app[0]).lineno > st.lineno) or app[0].args[0] is ac[0])
        ctx.check('R4.multiband', f'{site(f)} output collected', bool(ok), key(f, 'collect-output'),
                  'what is collected per band is not the spectrum RETURNED by that band amplifier')
        mx = calls_to(f, {'muxed_spectral_information'})
        ok = len(mx) == 1 and app and ast.unparse(mx[0].args[0]) == ast.unparse(app[0].func.value) and \
            isinstance(getattr(mx[0], '_parent', None), ast.Return) and enclosing(mx[0], ast.For) is None
        ctx.check('R4.multiband', f'{site(f)} all bands merged', bool(ok), key(f, 'mux-all'),
                  'the element does not return the mux of ALL collected band outputs')
        ctx.check('R4.multiband', f'{site(f)} no early exit', not any(isinstance(n, (ast.Break, ast.Return)) for n in ast.walk(lp)),
                  key(f, 'early-exit'), 'the band loop can stop before every band amplifier was served')
    ctx.check('R4.multiband', f'{site(f)} nothing in band', any(isinstance(n, ast.Raise) for n in walk_no_nested(f.node)),
              key(f, 'empty'), 'a spectrum outside every band no longer raises')
    ctx.need('R4.multiband', 5)


def r5_carriers(ctx):
    repo = ctx.repo
    f = repo.func(INFO, 'carriers_to_spectral_information')
    d = f.params[0]
    defs = local_defs(f.node)
    call = calls_to(f, {'create_arbitrary_spectral_information'})
    if len(call) != 1:
        raise AnchorMissing('carriers_to_spectral_information: factory call')
    src = {'pch': 'tx_power', 'roll_off': 'roll_off', 'baud_rate': 'baud_rate', 'delta_pdb_per_channel': 'delta_pdb',
           'slot_width': 'slot_width', 'tx_osnr': 'tx_osnr', 'tx_power': 'tx_power', 'label': 'label'}
    from .common import named_args, resolved

    class _K:
        def __init__(self, arg, value):
            self.arg, self.value = arg, value
    for k in [_K(a, v) for a, v in named_args(call[0]).items()]:
        v = k.value
        e = resolved(defs, v)
        e = None if isinstance(e, ast.Name) else e
        if k.arg == 'frequency':
            ok = e is not None and ast.unparse(e) in (f'list({d}.keys())', f'list({d})')
        else:
            ok = isinstance(e, ast.ListComp) and ast.unparse(resolved(defs, e.generators[0].iter)) in (f'{d}.values()', f'list({d}.values())') and \
                isinstance(e.elt, ast.Attribute) and e.elt.attr == src.get(k.arg) and not e.generators[0].ifs
        ctx.check('R5.carriers', f'{site(f)} {k.arg}', bool(ok), key(f, f'list|{k.arg}'),
                  f'the per-channel list {k.arg} is not built from the same carrier dict, in its iteration order, from '
                  f'carrier.{src.get(k.arg, "key")}', ast.unparse(e) if e is not None else '')
    ctx.need('R5.carriers', 9)


def r6_in_band(ctx):
    repo = ctx.repo
    f = repo.func(INFO, 'is_in_band')
    ev = Evaluator(repo, f).run_function()
    fr, sw, band = (Rat.sym(p) for p in f.params)
    half = C(1) / C(2)
    bmin = Rat.of(mk_atom('fn', 'sub', (band, "'f_min'")))
    bmax = Rat.of(mk_atom('fn', 'sub', (band, "'f_max'")))
    got = {(op, vkey(a), vkey(b)) for op, a, b in ev.cond_info.values()}
    want = {('le', vkey(bmin), vkey(fr - sw * half)), ('le', vkey(fr + sw * half), vkey(bmax))}
    ctx.check('R6.in-band', site(f), want <= got, key(f, 'edges'),
              'a channel is not kept exactly when f - sw/2 >= band.f_min and f + sw/2 <= band.f_max (slot edges, bounds included)',
              f'comparisons: {sorted(got)}')
    r = ev.ret()
    rk = vkey(r)
    ctx.check('R6.in-band', f'{site(f)} both conditions', isinstance(r, Rat) and rk.count('le(') == 2 and 'f_min' in rk and 'f_max' in rk
              and '*' in rk,
              key(f, 'both'), 'the result does not combine both edge tests', vkey(r)[:200])
    ctx.need('R6.in-band', 2)



def rn_arg_roles(ctx):
    """Rn: a variable named like a parameter of the callee is handed to that parameter (no exchanged roles such as
    f(to_degree, from_degree) for def f(from_degree, to_degree)); calls to resolved package functions, canonical form"""
    from .common import arg_roles_rule
    from ..memo import scope_funcs
    n = arg_roles_rule(ctx, 'Rn.arg-roles', scope_funcs(ctx.repo, 'C07'), 'a band or spectrum would be exchanged')
    ctx.check('Rn.arg-roles', 'argument / parameter name scan', True, 'C07|arg-roles-scan', '', f'{n} argument(s) named like another parameter judged')


def r7_declared_bands(ctx):
    """R7: after design, the bands a multi-band amplifier DECLARES (params.bands, read by the pre-propagation filter) are the bands
    of the amplifiers it really holds: set_egress_amplifier overwrites params.bands with [a.params.bands[0] for a in
    node.amplifiers.values()] on every successful design of a Multiband_amplifier, unconditionally"""
    from ..pattern import find
    repo = ctx.repo
    f = repo.func('gnpy.core.network', 'set_egress_amplifier')
    ftv = calls_to(f, {'find_type_variety'})
    stores = [(n, b) for n, b in find('V_n.params.bands = V_b', f.node)]
    s = site(f)
    ok = len(ftv) == 1 and len(stores) == 1
    if ok:
        st, b = stores[0]
        defs = [d for d in walk_no_nested(f.node) if isinstance(d, ast.Assign) and ast.unparse(d.targets[0]) == b['V_b']]
        ok = len(defs) == 1 and bool(find(f"[V_a.params.bands[0] for V_a in {b['V_n']}.amplifiers.values()]", defs[0]))
        # same block as the (possibly raising) type lookup: nothing but its failure can skip the overwrite
        ok = ok and getattr(st, '_parent', None) is getattr(stmt_of(f, ftv[0]), '_parent', None) and st.lineno > ftv[0].lineno
    ctx.check('R7.declared-bands', s, ok, key(f, 'declared-bands'),
              'the declared bands of a designed multi-band amplifier are not unconditionally overwritten with the bands of its real '
              'sub-amplifiers: the spectrum filter would keep carriers the element then drops (or drop carriers it could carry)')
    ctx.need('R7.declared-bands', 1)



def r8_partitions(ctx):
    """R8: the carriers of a spectrum file are the carriers it declares: partitions are walked in ascending f_min and a partition
    whose first carrier would overlap the last carrier of the previous one is rejected - the test compares the previous
    partition's maximum occupation with (f_min - slot_width / 2) of the next one (exact normal form of the difference), and the
    maximum occupation recorded is that of the partition just handled"""
    from ..vg import State
    repo = ctx.repo
    f = repo.func('gnpy.tools.json_io', '_spectrum_from_json')
    loops = [n for n in walk_no_nested(f.node) if isinstance(n, ast.For)]
    srt = [c for c in calls_to(f, {'sorted'}) if "['f_min']" in ast.unparse(c)]
    ctx.check('R8.partitions', f'{site(f)} ascending', len(srt) == 1 and bool(loops) and srt[0].lineno < loops[0].lineno, key(f, 'sorted'),
              'the partitions are not walked in ascending f_min')
    ev = Evaluator(repo, f)
    tests = [n for n in walk_no_nested(f.node) if isinstance(n, ast.If) and any(isinstance(x, ast.Raise) for x in n.body) and
             'slot_width' in ast.unparse(n.test)]
    ok = False
    det = ''
    if len(tests) == 1 and isinstance(tests[0].test, ast.Compare) and len(tests[0].test.ops) == 1 and loops:
        t = tests[0].test
        lp = loops[0]
        part = [e.id for e in ast.walk(lp.target) if isinstance(e, ast.Name)][-1]
        names = {x.id for x in ast.walk(t) if isinstance(x, ast.Name)} - {part}
        st = State({nm: Rat.sym(nm) for nm in names | {part}})
        try:
            le, ri = ev.ev(t.left, st), ev.ev(t.comparators[0], st)
        except CannotAnalyse:
            le = ri = None
        if isinstance(le, Rat) and isinstance(ri, Rat) and len(names) == 1:
            prev = Rat.sym(names.pop())
            fmin = ev.ev(ast.parse(f"{part}['f_min']", mode='eval').body, st)
            sw = ev.ev(ast.parse(f"{part}['slot_width']", mode='eval').body, st)
            want = prev - fmin + sw * (C(1) / C(2))              # > 0  <=>  overlap
            d = (ri - le) if isinstance(t.ops[0], (ast.Lt, ast.LtE)) else ((le - ri) if isinstance(t.ops[0], (ast.Gt, ast.GtE)) else None)
            det = vkey(d)[:160] if d is not None else ''
            ok = d is not None and d.eq(want) and isinstance(t.ops[0], (ast.Lt, ast.Gt))
    ctx.check('R8.partitions', f'{site(f)} overlap test', ok, key(f, 'overlap'),
              'a partition is not rejected exactly when the previous partition reaches beyond (f_min - slot_width / 2) of its first carrier: '
              'two declared carriers could share a frequency and one of them silently disappear', det)
    ctx.need('R8.partitions', 2)


from ..memo import rule_for as _memo_rule

RULES_MEMO = ('Rm.memo', _memo_rule('C07', 'the band of another amplifier set would be used'))


from ..presence import rule_for as _presence_rule

RULES_PRESENCE = ('Rp.presence', _presence_rule('C07', 'a legal zero would be read as missing'))

RULES = [('R1.construction', r1_construction), ('R2.mux', r2_mux), ('R3.filter', r3_filter), ('R4.multiband', r4_multiband),
         ('R5.carriers', r5_carriers), ('R6.in-band', r6_in_band), RULES_MEMO, RULES_PRESENCE, ('Rn.arg-roles', rn_arg_roles), ('R7.declared-bands', r7_declared_bands), ('R8.partitions', r8_partitions)]
