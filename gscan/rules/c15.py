"""C15 - every designed network yields a consistent OMS partition and spectrum map.

 R1 map layout  : symbolic list-length domain: len(create_oms_bitmap(f_min, f_max)) = N(f_max) - N(f_min) + 1, the
                  length Bitmap demands for the same arguments; every FREE run starts at N(band.f_min), has
                  N(band.f_max) - N(band.f_min) + 1 slots; the gaps and the tail are UNUSABLE; bands are walked
                  1, 2, ... len-1 (loop invariant len(bitmap) - last_band_max found automatically).
 R2 indices     : contiguous-run domain on Bitmap.__init__ / insert_left / insert_right: freq_index stays one
                  contiguous run, n_min / n_max are its ends, bitmap and freq_index grow by the same amount on the
                  same side; align_grids pads by exactly (n_min - global min) / (global max - n_max).
 R3 grid        : frequency_to_n(nvalue_to_frequency(n)) = int(n): same anchor and granularity.
 R5 common range: usable slots come from the pairwise intersection over every amplifier band list of THIS OMS, duplicates
                  removed on whole-value equality only (shared with C07-R3).
 R4 OMS walk    : every element visited by the OMS walk of build_oms_list is recorded in the OMS and gets oms and
                  oms_id before the walk advances; reversed_oms pairs on swapped end uids; the map is built with the
                  same f_min / f_max / grid as the bitmap.
 Rm memo          : every memoisation construct in the functions behind this property is keyed by everything it reads.
 Rp presence      : optional numeric fields are tested with `is None` / membership, never by truthiness (0 is a value).
 Re for-each      : loops that act on every item are never left early (break / return).
 Ra alias mutation: a local that still names a list of another object (not copied) is never mutated in place.
 Rn arg roles     : a variable named like a parameter of the callee is handed to that parameter (no exchanged roles).
 R6 declared bands: a designed multi-band amplifier declares exactly the bands of its installed amplifiers (shared with C07-R7).
 R8 default range   : find_common_range decision table (intersection | default band | nothing).
 R9 vertices        : OMS vertices = ROADMs + transceivers whose successor is not a ROADM.
"""
import ast

from ..model import AnchorMissing, CannotAnalyse, walk_no_nested
from ..cfg import CFG, fmt_path
from ..poly import Rat, C, mk_atom, subst, REG
from ..vg import loopvar, Evaluator, SymList, vkey, State, atoms_of
from .common import calls_to, kwarg, stmt_of, site, key, attr_stores

MOD = 'gnpy.topology.spectrum_assignment'
NOINL = {'frequency_to_n', 'find_elements_common_range', 'nvalue_to_frequency'}
EXPLANATION = (
    "Symbolic list-length / contiguous-run abstract interpretation of create_oms_bitmap, Bitmap.__init__, "
    "insert_left, insert_right and align_grids (linear integer expressions over program variables, loop handled by "
    "an automatically found and checked difference invariant), value-graph composition of the two grid converters, "
    "and flow-graph ordering of the OMS walk. Decides that the per-OMS map has exactly the length and index range "
    "its container demands for every band layout, that usable runs sit exactly on the common bands, and that grid "
    "alignment keeps indices unique and contiguous. Not decided: that each element lies in exactly one OMS (needs "
    "the chain shape of the designed graph)."
)
ASSUMPTIONS = ["every repeat count of [x] * k is >= 0 (Python clamps negative counts to 0)",
               "frequency_to_n is monotone, so band edges are ordered as the bands are",
               "find_elements_common_range returns bands in ascending frequency order"]
RULE_TEXT = ("sites: the list returned by create_oms_bitmap (length + run layout), the three Bitmap methods, the two "
             "align_grids pads, the converter pair, the walk loop of build_oms_list; non-trivial = a symbolic length, "
             "run or ordering fact was compared")


def fton(x):
    """pattern: value is frequency_to_n(<x>, grid) -> (x value) or None"""
    a = x.single_atom() if isinstance(x, Rat) else None
    if a is not None and a.kind == 'fn' and a.name.endswith('frequency_to_n') and a.args:
        return a.args[0]
    return None


def band_field(v):
    """pattern sub(X, "'f_min'") -> (X value, 'f_min')"""
    a = v.single_atom() if isinstance(v, Rat) else None
    if a is not None and a.kind == 'fn' and a.name == 'sub' and len(a.args) == 2 and a.args[1] in ("'f_min'", "'f_max'"):
        return a.args[0], a.args[1].strip("'")
    return None


def r1_layout(ctx):
    repo = ctx.repo
    f = repo.func(MOD, 'create_oms_bitmap')
    ev = Evaluator(repo, f, no_inline=NOINL).run_function()
    ret = ev.ret()
    s0 = site(f)
    # what Bitmap demands
    bm = repo.cls('Bitmap', MOD)
    init = repo.method(bm, '__init__')
    evb = Evaluator(repo, init, types={'self': bm}, no_inline=NOINL).run_function()
    fi = evb.exit_field('self.freq_index')
    if not isinstance(fi, SymList):
        raise CannotAnalyse(f'Bitmap.__init__ freq_index is not a symbolic run: {vkey(fi)}')
    demanded = fi.length
    if isinstance(ret, SymList):
        ctx.check('R1.length', s0, ret.length.eq(demanded), key(f, 'length'),
                  'create_oms_bitmap does not return the number of slots Bitmap demands for the same f_min, f_max, grid '
                  '(N(f_max) - N(f_min) + 1)', f'returned length {ret.length.key()}; Bitmap demands {demanded.key()}')
    elif ev.loop_bodies and not ev.invariants:
        ctx.bad('R1.length', s0, key(f, 'length'),
                'the length of the map built by create_oms_bitmap cannot be related to N(f_max) - N(f_min) + 1: a band '
                'iteration appends a number of slots that differs from the advance of the tracked band end '
                '(off-by-one in a gap or run)', f'returned {vkey(ret)[:200]}')
    else:
        raise CannotAnalyse(f'create_oms_bitmap does not return a list of symbolic length: {vkey(ret)[:200]}')
    # the raise in Bitmap.__init__ is what turns a wrong length into an error: it must still be there
    raised = any(isinstance(n, ast.Raise) for n in walk_no_nested(init.node))
    ctx.check('R1.length', f'{site(init)} consistency test', raised, key(init, 'length-test'),
              'Bitmap.__init__ no longer rejects a bitmap whose length differs from its index range')
    # layout of runs
    n_min = Rat.of(mk_atom('fn', f'call:{MOD}.frequency_to_n', (Rat.sym('f_min'), Rat.sym('grid'))))
    n_max = Rat.of(mk_atom('fn', f'call:{MOD}.frequency_to_n', (Rat.sym('f_max'), Rat.sym('grid'))))
    if not ev.loop_bodies:
        raise CannotAnalyse('create_oms_bitmap has no band loop')
    lid = sorted(ev.loop_bodies)[0]
    lb = ev.loop_bodies[lid]
    lists = [k for k, v in lb['pre'].items() if isinstance(v, (SymList, list))]
    if len(lists) != 1:
        raise CannotAnalyse(f'expected one list variable in the band loop, found {lists}')
    L = lists[0]
    pre, post = lb['pre'][L], lb['post'][L]
    UN, FREE = f'<{MOD}.BitmapValue>.UNUSABLE', '1'

    def free_run(un_len, free_len, start_base, label):
        """UNUSABLE run of un_len then FREE run of free_len, where the FREE run must start at N(X.f_min) and end at
        N(X.f_max): start_base + un_len = N(X.f_min), free_len = N(X.f_max) - N(X.f_min) + 1"""
        a = start_base + un_len
        fa = fton(a)
        bf = band_field(fa) if fa is not None else None
        ok1 = bf is not None and bf[1] == 'f_min'
        b = free_len + a - C(1)
        fb = fton(b)
        bg = band_field(fb) if fb is not None else None
        ok2 = ok1 and bg is not None and bg[1] == 'f_max' and vkey(bg[0]) == vkey(bf[0])
        ctx.check('R1.runs', f'{s0} {label}', ok1 and ok2, key(f, f'run|{label}'),
                  f'{label}: the usable run does not start at N(band.f_min) and end at N(band.f_max) of one band',
                  f'unusable {un_len.key()} ; free {free_len.key()}')
        return (bf[0] if ok1 else None), (b if ok2 else None)

    segs = pre.segs if isinstance(pre, SymList) else None
    ok_shape = segs is not None and len(segs) == 2 and segs[0][0] == UN and segs[1][0] == FREE
    ctx.check('R1.runs', f'{s0} first band shape', ok_shape, key(f, 'first-shape'),
              'the map does not start with an UNUSABLE run followed by a FREE run', f'{segs}')
    band0 = last = None
    if ok_shape:
        band0, last = free_run(segs[0][1], segs[1][1], n_min, 'first band')
    # loop step
    psegs = post.segs if isinstance(post, SymList) else None
    ok_shape = psegs is not None and len(psegs) == 3 and psegs[0][0] == '<prefix>' and psegs[1][0] == UN and \
        psegs[2][0] == FREE
    ctx.check('R1.runs', f'{s0} next band shape', ok_shape, key(f, 'step-shape'),
              'a loop iteration does not append an UNUSABLE gap followed by a FREE run', f'{psegs}')
    inv = [t for i, t in ev.invariants if i == lid]
    ctx.check('R1.runs', f'{s0} loop invariant', bool(inv), key(f, 'invariant'),
              'no integer variable tracks the end of the map built so far (len(bitmap) - last_band_max not invariant)')
    if ok_shape and inv:
        v = inv[0].split(' - ')[1].split(' ')[0]
        pv = loopvar(lid, v)
        bandk, lastk = free_run(psegs[1][1], psegs[2][1], pv + C(1), 'next band')
        ctx.check('R1.runs', f'{s0} last-max update', lastk is not None and isinstance(lb['post'].get(v), Rat) and
                  lb['post'][v].eq(lastk), key(f, 'last-max'),
                  f'{v} is not updated to N(band.f_max) of the band just appended', f'{v} := {vkey(lb["post"].get(v))}')
        ctx.check('R1.runs', f'{s0} first last-max', last is not None and isinstance(lb['pre'].get(v), Rat) and
                  lb['pre'][v].eq(last), key(f, 'first-last-max'),
                  f'{v} does not start as N(first band.f_max)', f'{v} = {vkey(lb["pre"].get(v))}')
        # band index walks 1, 2, ...
        idx = [k for k, pvv in lb['pre'].items() if isinstance(pvv, Rat) and pvv.eq(C(1)) and
               isinstance(lb['post'].get(k), Rat) and
               lb['post'][k].eq(loopvar(lid, k) + C(1))]
        node = lb['node']
        from ..pattern import mexpr
        if isinstance(node, ast.For):
            # for <band> in <ranges>[1:]  - the same walk, written on the elements
            bsl = mexpr('V_l[1:]', node.iter)
            tv = node.target.id if isinstance(node.target, ast.Name) else None
            uses = bandk is not None and tv is not None and f"loopvar#{lid}('{tv}')" in vkey(bandk)
            test_ok = bsl is not None
            walked = bsl['V_l'] if bsl else None
            t = node.iter
        else:
            uses = bandk is not None and idx and f"loopvar#{lid}('{idx[0]}')" in vkey(bandk)
            t = node.test if isinstance(node, ast.While) else None
            bln = mexpr('V_i < len(V_l)', t) if t is not None else None
            test_ok = bln is not None and bool(idx) and bln['V_i'] == idx[0]
            walked = bln['V_l'] if bln else None
        # the first band is element 0 of the list that is walked
        first_of = [b_['V_l'] for n_ in walk_no_nested(f.node) for b_ in [mexpr('V_l[0]', n_)] if b_]
        ctx.check('R1.runs', f'{s0} band walk', bool(uses and test_ok and band0 is not None and vkey(band0).endswith(",'0')") and
                                                     walked in first_of),
                  key(f, 'band-walk'), 'bands are not walked as common_range[0], then [1] .. [len-1] in steps of 1',
                  f'index {idx}; walk {ast.unparse(t) if t is not None else None}')
        # tail
    # tail run: total - (pre_len - pre_v + v_post) must be n_max - v_post ; already implied by R1.length + the invariant
    ctx.need('R1.length', 2)
    ctx.need('R1.runs', 7)


def ev_pre_tail(ev, L, lid, pre, v):
    return C(0)


# ------------------------------------------------------------------------------------------------ R2
def r2_indices(ctx):
    repo = ctx.repo
    bm = repo.cls('Bitmap', MOD)
    init = repo.method(bm, '__init__')
    ev = Evaluator(repo, init, types={'self': bm}, no_inline=NOINL).run_function()
    fi = ev.exit_field('self.freq_index')
    nmin, nmax = ev.exit_field('self.n_min'), ev.exit_field('self.n_max')
    ok = isinstance(fi, SymList) and fi.lo is not None and isinstance(nmin, Rat) and isinstance(nmax, Rat) and \
        fi.lo.eq(nmin) and fi.hi.eq(nmax)
    ctx.check('R2.contiguous', site(init), ok, key(init, 'run'),
              'after Bitmap.__init__ freq_index is not the contiguous run n_min .. n_max', f'freq_index = {vkey(fi)}')
    for name, side in (('insert_left', 'left'), ('insert_right', 'right')):
        m = repo.method(bm, name)
        k = Rat.sym('k#new')
        e2 = Evaluator(repo, m, types={'self': bm}, no_inline=NOINL)
        N0, N1 = Rat.of(mk_atom('fld', 'self.n_min')), Rat.of(mk_atom('fld', 'self.n_max'))
        st_store = {'self.freq_index': SymList(N1 - N0 + C(1), N0, N1),
                    'self.bitmap': SymList(N1 - N0 + C(1), segs=[('<old>', N1 - N0 + C(1))])}
        arg = m.params[1]
        e2.run_function_with_store({arg: SymList(k, segs=[('<new>', k)])}, st_store)
        fi = e2.exit_field('self.freq_index')
        bmp = e2.exit_field('self.bitmap')
        nmin, nmax = e2.exit_field('self.n_min'), e2.exit_field('self.n_max')
        s = site(m)
        ok = isinstance(fi, SymList) and fi.lo is not None
        ctx.check('R2.contiguous', f'{s} run', ok, key(m, 'run'),
                  f'{name}: freq_index is no longer one contiguous run of slot indices (an index is duplicated or skipped)',
                  f'freq_index = {vkey(fi)}')
        want_lo, want_hi = (N0 - k, N1) if side == 'left' else (N0, N1 + k)
        ctx.check('R2.contiguous', f'{s} extent', ok and fi.lo.eq(want_lo) and fi.hi.eq(want_hi), key(m, 'extent'),
                  f'{name}: the run is not extended by len(newbitmap) on the {side}', f'freq_index = {vkey(fi)}')
        ctx.check('R2.contiguous', f'{s} ends', isinstance(nmin, Rat) and isinstance(nmax, Rat) and
                  nmin.eq(want_lo) and nmax.eq(want_hi), key(m, 'ends'),
                  f'{name}: n_min / n_max are not the ends of the extended index run',
                  f'n_min={vkey(nmin)[:120]} n_max={vkey(nmax)[:120]}')
        okb = isinstance(bmp, SymList) and isinstance(fi, SymList) and bmp.length.eq(fi.length)
        order = bmp.segs and [t for t, _ in bmp.segs] == (['<new>', '<old>'] if side == 'left' else ['<old>', '<new>'])
        ctx.check('R2.contiguous', f'{s} bitmap', bool(okb and order), key(m, 'bitmap'),
                  f'{name}: bitmap and freq_index do not grow by the same amount on the {side}',
                  f'bitmap = {vkey(bmp)} segs {bmp.segs if isinstance(bmp, SymList) else None}')
    # align_grids pads
    ag = repo.func(MOD, 'align_grids')
    ev = Evaluator(repo, ag, no_inline={'insert_left', 'insert_right'} | NOINL).run_function()
    seen = set()
    for c in ev.calls:
        if c.name in ('insert_left', 'insert_right') and c.args and isinstance(c.args[0], SymList):
            seen.add(c.name)
            ln = c.args[0].length
            txt = vkey(ln)
            base = vkey(c.base) if c.base is not None else ''
            from ..vg import path_of

            def own(a):
                p_ = path_of(c.base)
                return Rat.of(mk_atom('fld', f'{p_}.{a}')) if p_ else Rat.of(mk_atom('fn', 'attr', (c.base, a)))
            if c.name == 'insert_left':
                ok = txt.count('n_min') == 2 and 'min(' in txt and ln.eq(own('n_min') - ln_other(ln, 'min('))
            else:
                ok = txt.count('n_max') == 2 and 'max(' in txt and ln.eq(ln_other(ln, 'max(') - own('n_max'))
            tag = c.args[0].segs[0][0] if c.args[0].segs else None
            # the two pads are independent: neither is skipped because the other one was applied
            foreign = [ck for ck, v in c.pc if not ck.startswith('loop#') and ('n_min' in ck) != (c.name == 'insert_left')]
            ctx.check('R2.align', f'{site(ag, c.node)} {c.name} independent', not foreign, key(ag, f'{c.name}|independent'),
                      f'{c.name} is only reached when the other side needed no padding: a map lying strictly inside the common extent is '
                      'padded on one side only', f'{c.pc}')
            ctx.check('R2.align', f'{site(ag, c.node)} {c.name}', bool(ok) and tag == '0', key(ag, c.name),
                      f'align_grids does not pad {c.name} with OCCUPIED slots for exactly the missing extent',
                      f'pad length {txt}; element {tag}')
    for nm in ('insert_left', 'insert_right'):
        if nm not in seen:
            ctx.cannot('R2.align', site(ag), f'call to {nm} not found / not analysable in align_grids')
    ctx.need('R2.contiguous', 9)
    ctx.need('R2.align', 4)


def ln_other(ln, marker):
    """the atom of ln whose key contains marker (the global min / max)"""
    for k in ln.atoms():
        if marker in k and k.startswith(marker.split('(')[0]):
            return Rat.of(REG[k])
    return C(0)


# ------------------------------------------------------------------------------------------------ R3
def r3_grid(ctx):
    repo = ctx.repo
    f2n = repo.func(MOD, 'frequency_to_n')
    n2f = repo.func(MOD, 'nvalue_to_frequency')
    e1 = Evaluator(repo, f2n).run_function()
    e2 = Evaluator(repo, n2f).run_function()
    r1, r2 = e1.ret(), e2.ret()
    a = r1.single_atom() if isinstance(r1, Rat) else None
    ok = False
    det = f'frequency_to_n = {vkey(r1)}; nvalue_to_frequency = {vkey(r2)}'
    if a is not None and a.kind == 'fn' and a.name == 'int' and isinstance(a.args[0], Rat) and isinstance(r2, Rat):
        inner = a.args[0]
        fsym, nsym = f2n.params[0], n2f.params[0]
        r2g = subst(r2, lambda at: Rat.sym(f2n.params[1]) if at.kind == 'sym' and at.name == n2f.params[1] else None)
        comp = subst(inner, lambda at: r2g if at.kind == 'sym' and at.name == fsym else None)
        ok = comp.eq(Rat.sym(nsym))
        det += f'; composition = int({comp.key()})'
    ctx.check('R3.grid', f'{site(f2n)} / {site(n2f)}', ok, 'grid-pair',
              'frequency_to_n and nvalue_to_frequency are not inverse on the grid (different anchor or granularity)', det)
    d1, d2 = f2n.defaults().get(f2n.params[1]), n2f.defaults().get(n2f.params[1])
    ctx.check('R3.grid', 'default grid', d1 is not None and d2 is not None and ast.unparse(d1) == ast.unparse(d2),
              'grid-default', 'the two converters do not share the same default grid')
    ctx.need('R3.grid', 2)


# ------------------------------------------------------------------------------------------------ R4
def r4_walk(ctx):
    repo = ctx.repo
    f = repo.func(MOD, 'build_oms_list')
    whiles = [n for n in walk_no_nested(f.node) if isinstance(n, ast.While)]
    if len(whiles) != 1:
        raise CannotAnalyse('build_oms_list: expected exactly one element walk (while loop)')
    w = whiles[0]
    t = w.test
    var = None
    for n in ast.walk(t):
        if isinstance(n, ast.Call) and isinstance(n.func, ast.Name) and n.func.id == 'isinstance' and \
                isinstance(n.args[0], ast.Name) and 'Roadm' in ast.unparse(n.args[1]):
            var = n.args[0].id
    if var is None:
        raise CannotAnalyse(f'walk loop test has an unforeseen form: {ast.unparse(t)}')
    g = CFG(f.node)
    head = g.node_of(w)
    adv = [n for n in walk_no_nested(w) if isinstance(n, ast.Assign) and any(
        isinstance(x, ast.Name) and x.id == var for x in n.targets)]
    if not adv:
        raise CannotAnalyse('walk loop never advances')
    advn = g.node_of(adv[0])

    def is_rec(kind):
        def pred(n):
            c = n.code()
            if c is None or n.kind not in ('stmt',):
                return False
            if kind in ('oms', 'oms_id'):
                return isinstance(c, ast.Assign) and any(isinstance(x, ast.Attribute) and x.attr == kind and
                                                         isinstance(x.value, ast.Name) and x.value.id == var
                                                         for x in c.targets)
            return any(isinstance(x, ast.Call) and isinstance(x.func, ast.Attribute) and x.func.attr == 'add_element'
                       and x.args and isinstance(x.args[0], ast.Name) and x.args[0].id == var
                       for x in ast.walk(c))
        return pred
    for kind in ('oms', 'oms_id', 'add_element'):
        p = g.path_avoiding(head, advn, is_rec(kind), skip_labels=('exc',))
        ctx.check('R4.walk', f'{site(f, w)} {kind}', p is None, key(f, f'walk|{kind}'),
                  f'an element visited by the OMS walk can be left without {kind} before the walk advances',
                  fmt_path(f, p) if p else '')
    # both end vertices recorded
    ends = [c for c in calls_to(f, {'add_element'}) if stmt_of(f, c) is not None and
            not any(c in list(ast.walk(x)) for x in [w])]
    ctx.check('R4.walk', f'{site(f)} end vertices', len(ends) >= 2, key(f, 'ends'),
              'the OMS does not record both of its end vertices', f'{len(ends)} add_element call(s) outside the walk')
    # map built with the same range as the bitmap
    cb = calls_to(f, {'create_oms_bitmap'})
    us = calls_to(f, {'update_spectrum'})
    ok = False
    det = ''
    if cb and us:
        a = {k: ast.unparse(kwarg(cb[0], k, i)) if kwarg(cb[0], k, i) is not None else None
             for k, i in (('f_min', 2), ('f_max', 3), ('grid', 4))}
        b = {k: ast.unparse(kwarg(us[0], k, i)) if kwarg(us[0], k, i) is not None else None
             for k, i in (('f_min', 0), ('f_max', 1), ('grid', 4))}
        bstmt = stmt_of(f, cb[0])
        bname = bstmt.targets[0].id if isinstance(bstmt, ast.Assign) and isinstance(bstmt.targets[0], ast.Name) else None
        ex = kwarg(us[0], 'existing_spectrum', 3)
        ok = a == b and bname is not None and isinstance(ex, ast.Name) and ex.id == bname
        det = f'create_oms_bitmap{a} update_spectrum{b} existing_spectrum={ast.unparse(ex) if ex is not None else None}'
    ctx.check('R4.walk', f'{site(f)} same range', ok, key(f, 'same-range'),
              'the spectrum map is not created with the same f_min / f_max / grid as the bitmap handed to it', det)
    # reversed_oms
    r = repo.func(MOD, 'reversed_oms')
    # the pairing test: the test of an `if` in the search loop, or the filter of a generator handed to next(..)
    from .common import with_new_helpers
    scope = with_new_helpers(repo, r)          # the search may live in a helper extracted from reversed_oms
    tests = [n.test for fn_ in scope for n in walk_no_nested(fn_.node) if isinstance(n, ast.If) and isinstance(n.test, ast.BoolOp)] + \
            [ast.BoolOp(op=ast.And(), values=list(g.ifs)) if len(g.ifs) > 1 else g.ifs[0]
             for fn_ in scope for n in walk_no_nested(fn_.node) if isinstance(n, (ast.GeneratorExp, ast.ListComp)) for g in n.generators
             if g.ifs and (len(g.ifs) > 1 or isinstance(g.ifs[0], ast.BoolOp))]
    ok = False
    det = ''
    for t in tests:
        if isinstance(t.op, ast.And) and len(t.values) == 2 and all(isinstance(v, ast.Compare) and len(v.ops) == 1 and
                                                                   isinstance(v.ops[0], ast.Eq) for v in t.values):
            pairs = []
            for v in t.values:
                l, rr = v.left, v.comparators[0]
                if isinstance(l, ast.Subscript) and isinstance(rr, ast.Subscript):
                    pairs.append((ast.unparse(l.value), ast.unparse(l.slice), ast.unparse(rr.value), ast.unparse(rr.slice)))
            det = str(pairs)
            if len(pairs) == 2:
                idx = {(p[1], p[3]) for p in pairs}
                objs = {(p[0], p[2]) for p in pairs}
                ok = idx == {('0', '-1'), ('-1', '0')} and len(objs) == 1 and \
                    all(o[0] != o[1] and o[0].endswith('el_id_list') and o[1].endswith('el_id_list') for o in objs)
    ctx.check('R4.reversed', site(r), ok, key(r, 'swap'),
              'reversed_oms does not pair two OMS on swapped end uids (first = other.last and last = other.first)', det)
    ctx.need('R4.walk', 5)
    ctx.need('R4.reversed', 1)


def r5_common_range(ctx):
    """usable slots = bands common to all amplifiers of the OMS: the common range is the pairwise intersection over
    every amplifier band list, duplicates removed on whole-value equality only (shared with C07-R3)"""
    from .c07 import r3_common_range
    r3_common_range(ctx, 'R5.common-range')
    # and create_oms_bitmap asks for the common range of THIS OMS' elements
    repo = ctx.repo
    f = repo.func(MOD, 'create_oms_bitmap')
    cr = calls_to(f, {'find_elements_common_range'})
    ok = len(cr) == 1 and [ast.unparse(a) for a in cr[0].args] == [f'{f.params[0]}.el_list', f.params[1]]
    ctx.check('R5.common-range', site(f), ok, key(f, 'own-elements'),
              'the usable bands of an OMS are not computed from the elements of that OMS')



def re_foreach(ctx):
    """Re: loops that act on EVERY item (store on the item / call a function that writes it) are never left early (break / return):
    the items after the exit would silently be skipped; the two search loops of the package are a frozen table"""
    from .common import foreach_rule
    from ..memo import scope_funcs
    foreach_rule(ctx, 'Re.for-each', scope_funcs(ctx.repo, 'C15'), 'elements later in the list get no OMS / spectrum map')
    ctx.need('Re.for-each', 2)


def ra_alias(ctx):
    """Ra: a local that still names a list / dict of another object (bound from an attribute or an item, not copied on that path:
    freshness lattice) is never mutated in place"""
    from .common import alias_mutation_rule
    from ..memo import scope_funcs
    alias_mutation_rule(ctx, 'Ra.alias-mutation', scope_funcs(ctx.repo, 'C15'), 'an OMS or spectrum map would change through an alias')
    ctx.need('Ra.alias-mutation', 5)


def rn_arg_roles(ctx):
    """Rn: a variable named like a parameter of the callee is handed to that parameter (no exchanged roles such as
    f(to_degree, from_degree) for def f(from_degree, to_degree)); calls to resolved package functions, canonical form"""
    from .common import arg_roles_rule
    from ..memo import scope_funcs
    n = arg_roles_rule(ctx, 'Rn.arg-roles', scope_funcs(ctx.repo, 'C15'), 'band edges or indices would be exchanged')
    ctx.check('Rn.arg-roles', 'argument / parameter name scan', True, 'C15|arg-roles-scan', '', f'{n} argument(s) named like another parameter judged')


def r6_declared_bands(ctx):
    """R6: the bands an OMS map is built from are the bands of the amplifiers really installed: a designed multi-band amplifier
    declares exactly those (shared with C07-R7)"""
    from .c07 import r7_declared_bands
    from .common import proxy
    r7_declared_bands(proxy(ctx, 'R6', needs=True))



def r8_default_range(ctx):
    """R8: an OMS without any amplifier (ROADM to ROADM through a fused element) still gets a spectrum map: find_common_range
    answers, as a decision over its tests, (the intersection) when there are amplifier bands, else (the default band) when both
    default limits are given, else (nothing) - compared as a decision table, so guard clauses or merged tests do not matter"""
    from ..pattern import bound_by
    from ..casedomain import same_decisions
    from ..dataflow import local_defs
    from .common import through_locals
    repo = ctx.repo
    f = repo.func('gnpy.core.utils', 'find_common_range')
    ub = bound_by(f.node, 'remove_duplicates(E_x)')
    rets = [n for n in walk_no_nested(f.node) if isinstance(n, ast.Return) and isinstance(n.value, ast.Call) and
            getattr(n.value.func, 'id', '') == 'sorted']
    if len(ub) != 1 or len(rets) != 1:
        raise AnchorMissing('find_common_range: unique band list / sorted result')
    u = ub[0][0]
    lo, hi = f.params[1], f.params[2]
    spec = ast.parse(f"""
def spec():
    if {u}:
        return {ast.unparse(rets[0].value)}
    if {lo} is None or {hi} is None:
        return []
    return [{{'f_min': {lo}, 'f_max': {hi}, 'spacing': None}}]
""").body[0]
    same, diff = same_decisions(through_locals(f.node, local_defs(f.node), keep={u}), spec)
    ctx.check('R8.default-range', site(f), same, key(f, 'decision'),
              'find_common_range does not answer (intersection | default band | nothing) on (amplifier bands present | both default '
              'limits given | otherwise): an unamplified OMS would get no band and its spectrum map could not be built', diff[:300])
    ctx.need('R8.default-range', 1)



def r9_vertices(ctx):
    """R9: every OMS starts at a vertex: the ROADMs, and the transceivers that feed something other than a ROADM - judged on the element
    the transceiver TRANSMITS INTO (its successor), the same direction in which the OMS are then walked (out-edges of the vertex)"""
    from ..pattern import find
    repo = ctx.repo
    f = repo.func(MOD, 'build_oms_list')
    net = f.params[0]
    comps = [c for c in walk_no_nested(f.node) if isinstance(c, ast.ListComp) and len(c.generators) == 1 and
             any('Transceiver' in ast.unparse(i) for i in c.generators[0].ifs) and 'Roadm' in ast.unparse(c)]
    ok = len(comps) == 1
    det = ''
    if ok:
        g = comps[0].generators[0]
        v = g.target.id if isinstance(g.target, ast.Name) else None
        det = ast.unparse(comps[0])[:200]
        hits = find(f'isinstance(next({net}.successors({v})), Roadm)', comps[0]) if v else []
        wrong = [c for c in ast.walk(comps[0]) if isinstance(c, ast.Call) and isinstance(c.func, ast.Attribute) and c.func.attr in ('predecessors', 'neighbors')]
        walks = [c for c in walk_no_nested(f.node) if isinstance(c, ast.Call) and isinstance(c.func, ast.Attribute) and c.func.attr == 'edges' and
                 ast.unparse(c.func.value) == net]
        ok = len(hits) == 1 and not wrong and bool(walks)
    ctx.check('R9.vertices', site(f), ok, key(f, 'vertices'),
              'the transceivers counted as OMS vertices are not those whose SUCCESSOR is not a ROADM: a transmit-only or receive-only '
              'transceiver would break the OMS list (no successor to look at) or start an OMS that does not exist', det)
    ctx.need('R9.vertices', 1)


def r10_network_range(ctx):
    """R10: the slot range every OMS map is padded to is the extent of ALL installed amplifier bands: find_network_freq_range returns
    (the minimum of the bands' f_min, the maximum of the bands' f_max) over the bands of every Edfa and Multiband_amplifier - read
    through temporaries, whatever container form (list, generator) holds the values"""
    from ..dataflow import local_defs
    from .common import through_locals
    repo = ctx.repo
    f = repo.func(MOD, 'find_network_freq_range')
    rets = [n for n in walk_no_nested(f.node) if isinstance(n, ast.Return) and n.value is not None]
    if len(rets) != 1:
        raise CannotAnalyse('find_network_freq_range: expected one return')
    v = through_locals(rets[0].value, local_defs(f.node))
    if not (isinstance(v, ast.Tuple) and len(v.elts) == 2):
        raise CannotAnalyse(f'find_network_freq_range does not return a pair: {ast.unparse(v)[:120]}')
    for e, fld, red, other in ((v.elts[0], 'f_min', ('min', 'amin', 'nanmin'), ('max', 'amax', 'nanmax')),
                               (v.elts[1], 'f_max', ('max', 'amax', 'nanmax'), ('min', 'amin', 'nanmin'))):
        fn_ = e.func.id if isinstance(e, ast.Call) and isinstance(e.func, ast.Name) else \
            e.func.attr if isinstance(e, ast.Call) and isinstance(e.func, ast.Attribute) else None
        keys = {c.value for c in ast.walk(e) if isinstance(c, ast.Constant) and c.value in ('f_min', 'f_max')}
        if fn_ not in red + other or not keys:
            raise CannotAnalyse(f'find_network_freq_range: {fld} edge is not a min / max over band fields: {ast.unparse(e)[:120]}')
        ok = fn_ in red and keys == {fld}
        ctx.check('R10.network-range', f'{site(f, rets[0])} {fld}', ok, key(f, f'range|{fld}'),
                  f'the network-wide {"lower" if fld == "f_min" else "upper"} band edge is {fn_}(...{sorted(keys)}...) instead of {red[0]} over every '
                  f"band's {fld}: with amplifiers of different bands the common slot range would not cover some OMS map (build_oms_list "
                  'fails or maps end up with different ranges)', ast.unparse(e)[:160])
        u = ast.unparse(e)
        defs_ = local_defs(f.node)
        todo, seen_ = [x.id for x in ast.walk(e) if isinstance(x, ast.Name)], set()
        while todo:
            nm = todo.pop()
            if nm in seen_:
                continue
            seen_.add(nm)
            for _, dv in defs_.get(nm, []):
                if isinstance(dv, ast.AST):
                    u += ' <- ' + ast.unparse(dv)
                    todo.extend(x.id for x in ast.walk(dv) if isinstance(x, ast.Name))
        ok = 'Edfa' in u and 'Multiband_amplifier' in u and '.bands' in u
        ctx.check('R10.network-range', f'{site(f, rets[0])} {fld} population', ok, key(f, f'population|{fld}'),
                  'the band edges are not collected from the bands of every Edfa and Multiband_amplifier of the network', u[:200])
    ctx.need('R10.network-range', 4)


from ..memo import rule_for as _memo_rule

RULES_MEMO = ('Rm.memo', _memo_rule('C15', 'the spectrum map of another configuration would be reused'))


from ..presence import rule_for as _presence_rule

RULES_PRESENCE = ('Rp.presence', _presence_rule('C15', 'a legal zero would be read as missing'))

RULES = [('R5.common-range', r5_common_range), ('R1.layout', r1_layout), ('R2.indices', r2_indices), ('R3.grid', r3_grid), ('R4.walk', r4_walk), RULES_MEMO, RULES_PRESENCE, ('Re.for-each', re_foreach), ('Ra.alias-mutation', ra_alias), ('Rn.arg-roles', rn_arg_roles), ('R6.declared-bands', r6_declared_bands), ('R8.default-range', r8_default_range), ('R9.vertices', r9_vertices), ('R10.network-range', r10_network_range)]
